"""C18 — in evaluation mode a sample's reconstruction is independent of its batch."""
from __future__ import annotations

import itertools
import warnings

import boot  # noqa: F401
import torch

from core import Ctx, Violation, err_name, ints, line

from . import zoo_common as Z

torch.set_num_threads(1)
# reference convolution kernels: with oneDNN off, torch convolves sample by sample, so that batched and single evaluation
# are bit-identical for most of the zoo (68 of 89 models) and within 1e-6 for the rest — the tolerance then separates
# algorithmic batch dependence from rounding with a wide margin
torch.backends.mkldnn.enabled = False
warnings.filterwarnings("ignore")

PROP = "C18"
MANIFEST = {
    "text": "Lean 4 theorems: separable batched operations (f xs = xs.map f1) give every sample the same output alone or with arbitrary "
            "companions at any position and batch size; separability is closed under composition, element-wise combination and "
            "cat/stack along a non-batch axis. Whole forward passes: every operation of /repo/direct whose meaning depends on which axis "
            "is the batch (reductions with their axes, cat/stack/split/select/unsqueeze/softmax/flip/... with their axis, permute and "
            "transpose literals, the form of every reshape/view/flatten, subscripts at the batch position, functionals with batch "
            "statistics, whole-tensor queries, arithmetic on the batch size, and shape- or mode-dependent control flow: `if` on "
            "self.training / on a tensor extent, partial `range(n // K)` loops, with what the guarded region does) is translated, "
            "function by function, into a primitive "
            "table; a runtime trace of every zoo model gives the functions each model executes; a decidable judgement (Prim.ok / "
            "FuncRow.ok) is decided on the generated tables, and `model_separable` proves that ANY data-flow graph over the primitives "
            "of a model whose row passes is separable under every sound interpretation; `stdInterp_sound` proves the standard "
            "interpretation sound (operations along any axis but 0, permutes as products of adjacent swaps that never touch axis 0, "
            "transposes, flattens; rejected call sites denote the operation along the batch axis). The batch*coil fold of MultiCoil: "
            "un-fold(fold) = id, fold/map/un-fold = per-sample per-coil map (so batch independent), the index arithmetic (row r belongs "
            "to sample r/c; a trailing reduction of a folded row stays inside its sample), and the coil-major un-fold as a mixing "
            "counter-model. Chunked coil sums: accumulating over floor(n/k) chunks sums only the first (n/k)*k coils (complete iff "
            "k | n; order-dependent witness), over ceil(n/k) chunks it is the full sum for every n and hence permutation invariant; "
            "`control_flow_keeps_reduced_set` decides on the generated table that no mode- or size-dependent branch / partial loop "
            "reduces, slices the batch or coil axis, or accumulates. State: a call that performs no write to attributes, buffers, class attributes, module-level names, memo "
            "tables or process-wide switches answers any history (also interleaved with a second instance) as a function of its input; "
            "the effect table (10 kinds of writes/reads, incl. mutable defaults, in-place updates of parameters, grad-mode reads) is "
            "decided empty up to a listed allowance; in-place updates are followed through a may-alias analysis (a local that is a "
            "view-like image — permute / contiguous / view / slicing / `kwargs[...]` — of a parameter is the caller's tensor). Coil order: every expression built from per-coil maps, element-wise combinations "
            "of coil tensors, broadcasts of images and coil sums is equivariant (coil-valued) / invariant (image-valued) under any coil "
            "permutation; reduce_operator and the DC step the driver executes are such expressions; selecting a coil by position or "
            "convolving over coils-as-channels is not (witnesses).",
    "note": "Trusted: Lean kernel (+propext, Classical.choice, Quot.sound); the AST scanners (c18.py, c18_prims.py) and the sys.setprofile "
            "trace of the zoo (a call site the scanner does not recognise as axis-dependent is not judged; 1 call site with an axis "
            "expression it cannot resolve is listed in Gen as unresolvedPrims); torch semantics of axes / permute / reshape (validated "
            "on every run by the `persample`, `primok`, `permute`, `along`, `mergemap`, `unmerge` correspondences on integer tensors); "
            "conv / element-wise / instance-norm / eval-mode batch-norm kernels are per-sample (torch contract; enter the closure as "
            "`Prog.kern`); negative axes are assumed to address trailing axes of operands of rank > |axis| (hypothesis of "
            "stdInterp_sound). NOT proved: that a forward's data flow only uses the scanned primitives (tie = scanner + trace), float "
            "rounding differences between batched and single kernels, and the numerical behaviour of whole networks: these are "
            "tolerance-checked on the real zoo (1e-5 relative). ConjGradNet models are excluded from the `ok` rows (known finding: "
            "batch-mean stopping test). Which zoo models use coil operations outside the coil-expression language is decided by the "
            "oracle (all recon models, all 6 orders of 3 coils in the thorough tier) and the coilOrderOps table, not by a per-model "
            "proof. Train-mode batch norm is outside the property.",
    "technique": "Lean 4 proof (list induction, insertion-sort swap decomposition, mutual structural induction over coil expressions, "
                 "Mathlib Equiv.sum_comp) + generated per-function / per-model structural tables discharged by decide +kernel + exact "
                 "integer differential correspondence of normalisation, coil combination, axis semantics, permute, MultiCoil fold + "
                 "batch-vs-single / history / coil-order oracle on the real zoo",
}
TRUSTED = [
    "Lean 4.33 kernel; axioms ⊆ {propext, Classical.choice, Quot.sound}",
    "harness/translate recipes c18 + c18_prims: reduction-axis scanner, primitive scanner (8 families), effect scanner (10 kinds), "
    "norm-layer constructor scanner, sys.setprofile trace of one evaluation of every zoo model (which functions of /repo/direct it executes)",
    "torch: reshape is row-major, reductions / along-axis operations over axes other than 0 act per sample, permute = product of axis "
    "swaps (checked on every run by the persample / primok / along / permute / mergemap / unmerge correspondence cases)",
    "conv / element-wise / instance-norm / eval-mode batch-norm kernels are per-sample (torch); checked on the zoo by the oracle only",
    "the shared zoo (harness/props/zoo_common.py) + C18's MultiCoil entries; `Entry.model()` weights",
]
ASSUMPTIONS = [
    "group statistics are compared as exact integers (n, sum, sum (n x - S)^2) on integer-valued float64 tensors; groups of one "
    "element (std = NaN) are excluded",
    "batch-vs-single tolerance 1e-5 relative to the output scale (float32, oneDNN disabled so that most models are bit-identical; "
    "1e-4 for KIKINet with a normalised U-Net on k-space, 1e-3 for ConjGradNet whose CG tolerance bounds its own accuracy)",
    "coil-permutation tolerance 1e-4 (float32 coil sums are re-ordered; measured rounding effect <= 1.3e-5)",
    "history checks (train()->eval() toggle, autograd on, second instance) are bit-exact; non-contiguous inputs and batch order use the "
    "entry tolerance",
    "negative axes address trailing axes of operands of rank > |axis| (e.g. `-1` on a rank-1 tensor would be the batch axis)",
    "size ladders (coils 1..8, 9, 12, 15, 16, 17, 20, 33; batch 1, 2, 3, 8, 9, 16, 17, 33) run at tiny spatial sizes; the batch ladder "
    "uses tolerance 1e-4 (measured rounding up to 1.2e-5 for batches of 17..33 through 2x2 instance-norm bottlenecks), the coil "
    "ladder 1e-4; quick tier: all rungs for the DC / likelihood blocks, the rungs 9, 12, 17 (+1 random) / 9, 17 (+1 random) for "
    "the cheapest model of every family; train mode is included only for modules without dropout and batch norm",
    "evaluation mode only",
]
RULE = ("integer batches (b 1..4, c, h, w small, groups dividing) for the normalisation functions; Gaussian-integer coil stacks "
        "(1..5 coils) for reduce/expand/standardise; random call-site records (family, form, axes in range, rank 2..5) for the "
        "judgement vs torch on 4-sample integer batches; random shapes/permutations for permute, along-axis actions, MultiCoil "
        "fold/loop with an integer affine model; the whole zoo (+ MultiCoil fold/loop entries) in eval mode with companions of "
        "magnitude 1, 1e4, 1e-4, 0 and copies of the sample at every batch position, repeated evaluation, train->eval toggle, "
        "autograd on, non-contiguous input, a second instance, batch order (thorough), all / two coil permutations; coil-count and "
        "batch-size ladders across the usual chunk thresholds (8, 16, 32) for the DC / likelihood blocks (MRILogLikelihood, "
        "reduce_operator, the DC step, StandardizationLayer, ConjGrad, EndToEndVarNetBlock; eval and train mode) and the cheapest "
        "model of every family; every optional tensor argument of a forward supplied by the caller (RIM input_image / "
        "initial_image= / initial_kspace= / previous_state=, RecurrentVarNet initial_image=, GRU hidden state) and every zoo "
        "input in four memory layouts (H/W-transposed storage, permuted view of channels-first storage, channels-last storage of "
        "a channels-first tensor, slice of a wider buffer) with input-unchanged, same-output, second-evaluation-of-the-same-tensors "
        "and alone-after-batch (views into the batch storage) checks; layouts the model itself rejects (view_as_complex stride "
        "rules) are counted as rejected, not judged. non-trivial = "
        "batch >= 2 or coils >= 2; distinct = distinct protocol line / (entry, size, batch, position, scale)")

EXTRA_LEAN_MODULES = ["DirectVerif.Lemmas.C18Prims", "DirectVerif.Lemmas.C18Coil"]

PENDING_FINDINGS = [
    # listed as `known:` by the lead; the oracle keeps yielding it
    "ConjGradNet/conv-sense-FR/tol1e-3:batch-dependence",
]
# configurations that cannot be evaluated at all on the current tree (reported by C17)
_UNUSABLE = {"normunet-zero-group"}

# permuting the coils changes the order of every float32 coil summation: rounding differences up to 1.3e-5 (relative) were
# measured through the deeper networks; a coil-order dependence changes the output by O(1)
_PERM_TOL = 1e-4
_LADDER_TOL = 1e-4

_ZOO = None
_MODELS: dict = {}


_THOROUGH = False


def prepare(ctx: Ctx):
    global _THOROUGH, _ZOO
    if ctx.thorough != _THOROUGH:
        _THOROUGH, _ZOO = ctx.thorough, None


def extra_entries():
    """C18's own additions to the shared zoo: `MultiCoil` with the coil axis folded into the batch (`coil_to_batch=True`,
    no network of the repository switches it on) and with the per-coil loop, around plain, normalised and batch-normalised
    denoisers.  Inputs are (N, coil, H, W, 2) tensors."""
    from direct.nn.conv.conv import Conv2d
    from direct.nn.crossdomain.multicoil import MultiCoil
    from direct.nn.resnet.resnet import ResNet
    from direct.nn.unet.unet_2d import NormUnetModel2d

    class ChannelsLast(torch.nn.Module):
        """in the per-coil loop `MultiCoil` hands the model (N, H, W, C) slices (its callers permute beforehand)"""

        def __init__(self, model):
            super().__init__()
            self.model = model

        def forward(self, x):
            return self.model(x.permute(0, 3, 1, 2)).permute(0, 2, 3, 1)

    E = []
    E.append(Z.Entry("MultiCoil/fold/conv", "multicoil", "mc", lambda: MultiCoil(Conv2d(2, 2, 4, n_convs=2), 1, True),
                     "kspace", lambda m, i: m(i), coil_invariant=False, tags=("multicoil",)))
    E.append(Z.Entry("MultiCoil/loop/conv", "multicoil", "mc", lambda: MultiCoil(ChannelsLast(Conv2d(2, 2, 4, n_convs=2)), 1, False),
                     "kspace", lambda m, i: m(i), coil_invariant=False, tags=("multicoil",)))
    E.append(Z.Entry("MultiCoil/fold/normunet", "multicoil", "mc", lambda: MultiCoil(NormUnetModel2d(2, 2, 2, 2, 0.0), 1, True),
                     "kspace", lambda m, i: m(i), min_hw=Z.normunet_ok(2), coil_invariant=False, tags=("multicoil", "normunet")))
    E.append(Z.Entry("MultiCoil/fold/resnet-bn", "multicoil", "mc",
                     lambda: MultiCoil(ResNet(hidden_channels=4, in_channels=2, num_blocks=2, batchnorm=True), 1, True),
                     "kspace", lambda m, i: m(i), coil_invariant=False, tags=("multicoil", "batchnorm")))
    return E


def optional_arg_entries():
    """every optional tensor argument of a zoo model's `forward`, supplied by the caller: RIM's `input_image`, `initial_image=`,
    `initial_kspace=`, `previous_state=` (with and without skip connections), RecurrentVarNet's `initial_image=`, the hidden
    state of Conv2dGRU / NormConv2dGRU.  Kind "opt": dictionary inputs with the extra tensors named in the `needs:` tags."""
    from direct.nn.recurrent.recurrent import Conv2dGRU, NormConv2dGRU
    from direct.nn.recurrentvarnet.recurrentvarnet import RecurrentVarNet
    from direct.nn.rim.rim import RIM

    fwd, bwd = Z._ops()
    rim = lambda **kw: (lambda: RIM(fwd, bwd, **{"hidden_channels": 4, "length": 2, "depth": 2, **kw}))  # noqa: E731
    E = []

    def add(name, build, call, needs, coil=True, **kw):
        E.append(Z.Entry(name, "optional-args", "opt", build, "auto", call, coil_invariant=True,
                         tags=("optional-arg",) + tuple("needs:" + n for n in needs) + (() if coil else ("nocoil",)), **kw))

    k3 = lambda i: (i["masked_kspace"], i["sampling_mask"], i["sensitivity_map"])  # noqa: E731
    for skip in (True, False):
        sk = "" if skip else "/noskip"
        add(f"RIM/input_image-arg{sk}", rim(skip_connections=skip), lambda m, i: m(i["image"], *k3(i))[0][-1], ["image"])
        add(f"RIM/initial_image-kwarg{sk}", rim(skip_connections=skip, image_initialization="input_image"),
            lambda m, i: m(None, *k3(i), initial_image=i["image"])[0][-1], ["image"])
    add("RIM/initial_kspace-kwarg", rim(image_initialization="input_kspace"),
        lambda m, i: m(None, *k3(i), initial_kspace=i["initial_kspace"])[0][-1], ["initial_kspace"])
    add("RIM/previous_state-arg", rim(), lambda m, i: m(None, *k3(i), previous_state=i["state"])[0][-1], ["state:4:2"])
    add("RIM/previous_state-returned", rim(), lambda m, i: m(i["image"], *k3(i), previous_state=i["state"])[1], ["image", "state:4:2"])
    add("RecurrentVarNet/initial_image-kwarg",
        lambda: RecurrentVarNet(fwd, bwd, num_steps=2, recurrent_hidden_channels=4, recurrent_num_layers=2, learned_initializer=True,
                                initializer_initialization="input_image", initializer_channels=(2, 2, 4), initializer_dilations=(1, 1, 2)),
        lambda m, i: T_reduce(m(i["masked_kspace"], i["sampling_mask"], i["sensitivity_map"], initial_image=i["image"]), i), ["image"])
    for cls in (Conv2dGRU, NormConv2dGRU):
        add(f"{cls.__name__}/previous_state-arg", lambda cls=cls: cls(in_channels=4, hidden_channels=4, out_channels=2, num_layers=2),
            lambda m, i: m(i["x"], i["state"])[0], ["x:4", "state:4:2"], coil=False)
        add(f"{cls.__name__}/previous_state-returned", lambda cls=cls: cls(in_channels=4, hidden_channels=4, out_channels=2, num_layers=2),
            lambda m, i: m(i["x"], i["state"])[1], ["x:4", "state:4:2"], coil=False)
    return E


def T_reduce(kspace, i):
    """image of a k-space output (so that the entry is coil-invariant like the other image outputs)"""
    from direct.data import transforms as T
    _fwd, bwd = Z._ops()
    return T.reduce_operator(bwd(kspace, dim=(2, 3)), i["sensitivity_map"], 1)


def zoo():
    global _ZOO
    if _ZOO is None:
        _ZOO = [e for e in Z.zoo(thorough=_THOROUGH) if e.finding not in _UNUSABLE] + extra_entries() + optional_arg_entries()
    return _ZOO


def _instantiate(e):
    """`Entry.model()`; when a batch-norm layer has no running statistics (which `Entry.model` randomises) the module is
    built the same way without touching them — the oracle then reports the layer"""
    try:
        return e.model()
    except AttributeError:
        torch.manual_seed(1000 + e.seed)
        m = e.build()
        with torch.no_grad():
            for mod in m.modules():
                if isinstance(mod, torch.nn.modules.batchnorm._BatchNorm) and mod.running_mean is not None:
                    mod.running_mean.uniform_(-0.2, 0.2)
                    mod.running_var.uniform_(0.6, 1.4)
        m.eval()
        return m


def model_of(e):
    if e.name not in _MODELS:
        _MODELS[e.name] = _instantiate(e)
    return _MODELS[e.name]


def _guard(fn):
    def run():
        try:
            return fn()
        except Exception as ex:  # noqa: BLE001
            return "err " + err_name(ex)
    return run


# ------------------------------------------------------------------------------------------------------------------
def _int_tensor(rng, shape, lo=-6, hi=6):
    n = 1
    for s in shape:
        n *= s
    return torch.tensor([rng.randint(lo, hi) for _ in range(n)], dtype=torch.float64).reshape(shape)


def _stats_answer(mean, std, n):
    """(b, groups, 1) float64 statistics -> per sample [n, S, Q] per group as exact integers"""
    out = []
    for bi in range(mean.shape[0]):
        row = []
        for g in range(mean.shape[1]):
            s = mean[bi, g, 0].item() * n
            q = (std[bi, g, 0].item() ** 2) * (n - 1) * n * n
            row += [n, round(s), round(q)]
        out.append(row)
    return "ok " + " | ".join(ints(r) for r in out)


def correspondence(ctx: Ctx):
    from direct.data import transforms as T
    from direct.nn.multidomainnet.multidomainnet import StandardizationLayer
    from direct.nn.recurrent.recurrent import NormConv2dGRU
    from direct.nn.unet.unet_2d import NormUnetModel2d
    from direct.nn.unet.unet_3d import NormUnetModel3d

    rng = ctx.rng
    norms = [("NormUnetModel2d", NormUnetModel2d.norm, 2), ("NormConv2dGRU", NormConv2dGRU.norm, 2), ("NormUnetModel3d", NormUnetModel3d.norm, 3)]
    # ---- group statistics, sample by sample
    for _ in range(ctx.budget(90, 900)):
        name, fn, nsp = rng.choice(norms)
        b = rng.choice([1, 2, 2, 3, 4])
        c = rng.choice([2, 2, 4, 6, 3])
        sp = [rng.randint(1, 4) for _ in range(nsp)]
        groups = rng.choice([1, 2, 2, 2, 3])
        per = c
        for s in sp:
            per *= s
        x = _int_tensor(rng, [b, c] + sp)
        valid = per % groups == 0
        if valid and per // groups < 2:
            continue

        def impl(fn=fn, x=x, groups=groups, per=per):
            out, mean, std = fn(x, groups)
            assert out.shape == x.shape
            return _stats_answer(mean, std, per // groups)
        yield {"line": line("normstats", [groups], [b, per], [int(v) for v in x.reshape(-1).tolist()]), "impl": _guard(impl),
               "nontrivial": b >= 2, "bucket": f"normstats/{name}/" + ("b1" if b == 1 else "batched") + ("" if valid else "-reject")}
    # ---- coil reduce / expand / standardise / data-consistency on Gaussian integers; batched call, one sample compared
    std_layer = StandardizationLayer(coil_dim=1, channel_dim=-1)
    for _ in range(ctx.budget(80, 800)):
        b, coil, h, w = rng.choice([1, 2, 3]), rng.randint(1, 5), rng.randint(1, 3), rng.randint(1, 3)
        k = rng.randrange(b)
        S = _int_tensor(rng, [b, coil, h, w, 2], -3, 3).float()
        X = _int_tensor(rng, [b, coil, h, w, 2], -4, 4).float()
        img = _int_tensor(rng, [b, h, w, 2], -4, 4).float()
        flat = lambda t: [int(v) for v in t.reshape(-1).tolist()]  # noqa: E731
        npix = h * w
        which = rng.choice(["reduce", "expand", "standardize", "dc"])
        nt = b >= 2 or coil >= 2
        if which == "reduce":
            yield {"line": line("reduce", [coil, npix], flat(S[k]), flat(X[k])),
                   "impl": _guard(lambda S=S, X=X, k=k: "ok " + ints(flat(T.reduce_operator(X, S, dim=1)[k]))),
                   "nontrivial": nt, "bucket": "coil/reduce"}
        elif which == "expand":
            yield {"line": line("expand", [coil, npix], flat(S[k]), flat(img[k])),
                   "impl": _guard(lambda S=S, img=img, k=k: "ok " + ints(flat(T.expand_operator(img, S, dim=1)[k]))),
                   "nontrivial": nt, "bucket": "coil/expand"}
        elif which == "standardize":
            yield {"line": line("standardize", [coil, npix], flat(S[k]), flat(X[k])),
                   "impl": _guard(lambda S=S, X=X, k=k: "ok " + ints(flat(std_layer(X, S)[k]))),
                   "nontrivial": nt, "bucket": "coil/standardize"}
        else:
            def impl(S=S, X=X, img=img, k=k):
                r = T.reduce_operator(T.expand_operator(img, S, dim=1) - X, S, dim=1)
                return "ok " + ints(flat(r[k]))
            yield {"line": line("dc", [coil, npix], flat(S[k]), flat(X[k]), flat(img[k])), "impl": _guard(impl),
                   "nontrivial": nt, "bucket": "coil/dc"}
    # ---- what "per sample" means for torch reductions (semantics of the table predicate)
    for _ in range(ctx.budget(60, 500)):
        rank = rng.randint(2, 5)
        k = rng.randint(0, 2)
        axes = rng.sample(list(range(-rank - 1, rank + 1)), k)
        if axes and rng.random() < 0.2:          # the same axis named twice (positive and negative): torch rejects it
            a = axes[0]
            axes = axes + [a - rank if a >= 0 else a + rank]
        bf = rng.choice([1, 1, 1, 0])
        op = rng.choice(["sum", "mean", "amax"])

        def impl(rank=rank, axes=axes, bf=bf, op=op):
            g = torch.Generator().manual_seed(rank * 100 + len(axes))
            shape = [3] + [2] * (rank - 1)
            x = torch.randint(-5, 6, shape, generator=g).double()
            if not bf:
                return "ok 0"      # the view merged the batch into another axis: nothing per-sample can be said
            try:
                full = getattr(x, op)(dim=axes) if axes else getattr(x, op)()
                one = getattr(x[1:2], op)(dim=axes) if axes else getattr(x[1:2], op)()
            except (IndexError, RuntimeError):
                return "ok 0"
            ok = full.dim() >= 1 and full.shape[0] == 3 and one.shape[0] == 1 and torch.equal(full[1], one[0])
            # duplicates such as [-1, rank-1] raise above; a reduction that happens to give equal numbers is excluded by the
            # random data
            return "ok " + ("1" if ok else "0")
        yield {"line": line("persample", [rank, bf], axes), "impl": impl, "nontrivial": True,
               "bucket": "persample/" + ("none" if not axes else "dup" if len({a % rank for a in axes}) < len(axes) else
                                          "axis0" if any(a % rank == 0 for a in axes if -rank <= a < rank) else "inner")}


    yield from _phase3_correspondence(ctx)


class _Affine(torch.nn.Module):
    """an exactly-integer stand-in for the model wrapped by MultiCoil: x -> a x + k, element-wise"""

    def __init__(self, a, k):
        super().__init__()
        self.a, self.k = a, k

    def forward(self, x):
        return x * self.a + self.k


def _persample(fn, rank, seed, dtype=torch.float64):
    """does sample 1 of `fn(batch of 3)` equal `fn(sample 1 alone)`?  (exact, integer data)"""
    g = torch.Generator().manual_seed(seed)
    # four samples, all entries non-zero and the samples far apart, so that nothing coincides by accident (a flip of three
    # samples keeps the middle one; a cumulative sum over a zero sample changes nothing)
    x = torch.randint(1, 6, [4] + [2] * (rank - 1), generator=g).to(dtype)
    x = x + 10 * torch.arange(4, dtype=dtype).reshape([4] + [1] * (rank - 1))
    try:
        full = fn(x)
        ones = [fn(x[i:i + 1]) for i in range(4)]
    except (IndexError, RuntimeError, TypeError, ValueError):
        return 0
    if isinstance(full, (tuple, list)):
        full, ones = full[0], [o[0] for o in ones]
    ok = full.dim() >= 1 and full.shape[0] == 4 and all(
        o.shape[0] == 1 and full.shape[1:] == o.shape[1:] and torch.equal(full[i], o[0]) for i, o in enumerate(ones))
    return 1 if ok else 0


def _phase3_correspondence(ctx: Ctx):
    """the judgement `Prim.ok` against what torch does; `permuteNT`, `batchedAlong`, the `batch * coil` fold against torch"""
    from direct.nn.crossdomain.multicoil import MultiCoil

    rng = ctx.rng
    flat = lambda t: [int(v) for v in t.reshape(-1).tolist()]  # noqa: E731
    for i in range(ctx.budget(90, 700)):
        rank = rng.randint(2, 5)
        family = rng.choice([0, 0, 1, 1, 1, 2, 2, 4])
        seed = rng.randrange(1 << 16)
        axis = lambda: rng.choice([a for a in range(-(rank - 1), rank)])  # noqa: E731
        sink = 0
        if family == 0:
            form = rng.choice([0, 0, 0, 1, 3])
            if form == 0:
                k = rng.randint(1, 2)
                args = rng.sample(range(rank), k)
                args = [a - rank if (rng.random() < 0.4 and a > 0) else a for a in args]
                opn = rng.choice(["sum", "mean", "amax"])
                fn = lambda x, args=args, opn=opn: getattr(x, opn)(dim=args)  # noqa: E731
            elif form == 1:
                args, sink = [], rng.choice([0, 1])
                if sink:
                    def fn(x):
                        if x.abs().max() > 3:       # the value only decides whether a warning is issued
                            pass
                        return x * 2
                else:
                    fn = lambda x: x - x.mean()  # noqa: E731
            else:
                k = rng.randint(0, rank - 2)
                args = [k]
                fn = lambda x, k=k: x.sum(dim=torch.arange(k, x.ndim - 1).tolist())  # noqa: E731
            bucket = f"primok/reduce/form{form}"
        elif family == 1:
            opn = rng.choice(["cat", "stack", "flip", "cumsum", "select", "unsqueeze", "softmax", "split", "squeeze-all", "narrow", "roll"])
            form, args = 0, [axis()]
            a = args[0]
            if opn == "squeeze-all":
                form, args = 1, []
                fn = lambda x: x.squeeze()  # noqa: E731
            elif opn == "cat":
                fn = lambda x, a=a: torch.cat([x, x + 1], dim=a)  # noqa: E731
            elif opn == "stack":
                fn = lambda x, a=a: torch.stack([x, x + 1], dim=a)  # noqa: E731
            elif opn == "flip":
                fn = lambda x, a=a: x.flip(a)  # noqa: E731
            elif opn == "roll":
                fn = lambda x, a=a: x.roll(1, a)  # noqa: E731
            elif opn == "cumsum":
                fn = lambda x, a=a: x.cumsum(a)  # noqa: E731
            elif opn == "select":
                fn = lambda x, a=a: x.select(a, 0)  # noqa: E731
            elif opn == "narrow":
                fn = lambda x, a=a: x.narrow(a, 0, 1)  # noqa: E731
            elif opn == "unsqueeze":
                fn = lambda x, a=a: x.unsqueeze(a)  # noqa: E731
            elif opn == "split":
                fn = lambda x, a=a: torch.split(x, 1, a)[0]  # noqa: E731
            else:
                fn = lambda x, a=a: torch.softmax(x, a).mul(1 << 20).round()  # noqa: E731
            bucket = f"primok/along/{opn}"
        elif family == 2:
            form = rng.choice([0, 0, 1])
            if form == 0:
                args = list(range(rank))
                rng.shuffle(args)
                if rng.random() < 0.5:
                    args.remove(0)
                    args = [0] + args
                fn = lambda x, args=args: x.permute(*args)  # noqa: E731
            else:
                a, b = rng.sample(range(rank), 2)
                args = [a - rank if (rng.random() < 0.3 and a > 0) else a, b]
                fn = lambda x, args=args: x.transpose(args[0], args[1])  # noqa: E731
            bucket = f"primok/permute/form{form}"
        else:
            form, args = 0, [axis()]
            fn = lambda x, a=args[0]: x.flatten(a)  # noqa: E731
            bucket = "primok/flatten"
        yield {"line": line("primok", [family, form, sink], args), "nontrivial": True, "bucket": bucket,
               "impl": (lambda fn=fn, rank=rank, seed=seed: "ok " + str(_persample(fn, rank, seed)))}
    for _ in range(ctx.budget(40, 300)):
        rank = rng.randint(2, 4)
        shape = [rng.randint(1, 3) for _ in range(rank)]
        perm = list(range(rank))
        rng.shuffle(perm)
        x = _int_tensor(rng, shape, -9, 9)
        yield {"line": line("permute", shape, perm, flat(x)), "nontrivial": perm != sorted(perm), "bucket": "permute/" + ("batch-first" if perm[0] == 0 else "batch-moved"),
               "impl": _guard(lambda x=x, perm=perm: "ok " + ints(flat(x.permute(*perm).contiguous())))}
    for _ in range(ctx.budget(40, 300)):
        rank = rng.randint(2, 4)
        shape = [rng.randint(2, 3) for _ in range(rank)]
        d, code = rng.randrange(rank), rng.randrange(4)
        x = _int_tensor(rng, shape, -9, 9)

        def impl(x=x, d=d, code=code):
            r = x.sum(d) if code == 0 else x.flip(d) if code == 1 else x.select(d, 0) if code == 2 else x.cumsum(d)
            return "ok " + ints(flat(r.contiguous()))
        yield {"line": line("along", [code, d], shape, flat(x)), "nontrivial": True, "impl": _guard(impl),
               "bucket": "along/" + ["sum", "flip", "select", "cumsum"][code] + ("/axis0" if d == 0 else "/inner")}
    # ---- MultiCoil: fold coils into the batch / loop over the coils — the same integer answer, sample by sample
    for _ in range(ctx.budget(40, 300)):
        b, c, h, w, ch = rng.randint(1, 3), rng.randint(1, 4), rng.randint(1, 2), rng.randint(1, 2), rng.choice([1, 2])
        a, k = rng.randint(-3, 3), rng.randint(-4, 4)
        x = _int_tensor(rng, [b, c, h, w, ch], -6, 6).float()
        fold = rng.random() < 0.7

        def impl(x=x, a=a, k=k, fold=fold):
            m = MultiCoil(_Affine(a, k), coil_dim=1, coil_to_batch=fold).eval()
            x0 = x.clone()
            out = m(x)
            assert torch.equal(x, x0), "MultiCoil modified its input"
            assert out.shape == x.shape
            return "ok " + ints(flat(out))
        yield {"line": line("mergemap", [b, c, h * w * ch], [a, k], flat(x)), "nontrivial": b >= 2 and c >= 2, "impl": _guard(impl),
               "bucket": "multicoil/" + ("fold" if fold else "loop") + ("/b1" if b == 1 else "/c1" if c == 1 else "/batched")}
    # ---- a sum accumulated over `n // k` chunks, over all `torch.split` chunks, and at once
    for _ in range(ctx.budget(25, 200)):
        n, k = rng.randint(1, 13), rng.randint(1, 5)
        x = _int_tensor(rng, [n, 2], -9, 9)

        def impl(x=x, n=n, k=k):
            lo = torch.zeros(2, dtype=x.dtype)
            for i in range(n // k):
                lo = lo + x[i * k:(i + 1) * k].sum(0)
            hi = sum(c.sum(0) for c in torch.split(x, k, 0))
            return "ok " + " | ".join(ints(flat(t)) for t in (lo, hi, x.sum(0)))
        yield {"line": line("chunksum", [k], flat(x)), "nontrivial": n > k, "impl": _guard(impl),
               "bucket": "chunksum/" + ("divides" if n % k == 0 else "remainder")}
    for _ in range(ctx.budget(20, 150)):
        b, c = rng.randint(1, 4), rng.randint(1, 4)
        y = _int_tensor(rng, [b * c], -20, 20)
        yield {"line": line("unmerge", [b, c], flat(y)), "nontrivial": b >= 2 and c >= 2, "bucket": "unmerge",
               "impl": _guard(lambda y=y, b=b, c=c: "ok " + ints(flat(y.reshape(b, c))) + " | " + ints(flat(torch.stack(y.split(b), dim=1))))}


# ------------------------------------------------------------------------------------------------------------------
def _rel(a, b):
    s = max(float(a.abs().max()), 1e-30)
    d = (a - b).abs()
    if not bool(torch.isfinite(d).all()):
        return float("inf")
    return float(d.max()) / s


def _inputs(e, n, h, w, seed, scale=1.0, coils=3):
    if e.kind in ("den2d", "gru"):
        g = torch.Generator().manual_seed(seed)
        return torch.randn((n, e.in_ch, h, w), generator=g) * scale
    if e.kind == "den3d":
        g = torch.Generator().manual_seed(seed)
        return torch.randn((n, e.in_ch, 3, h, w), generator=g) * scale
    if e.kind == "mc":
        g = torch.Generator().manual_seed(seed)
        return torch.randn((n, coils, h, w, 2), generator=g) * scale
    if e.kind == "opt":
        g = torch.Generator().manual_seed(seed + 90001)
        needs = [t[6:] for t in e.tags if t.startswith("needs:")]
        d = {} if "nocoil" in e.tags else Z.recon_inputs(n, coils, h, w, seed=seed, scale=scale)
        d.pop("scaling_factor", None)
        for nd in needs:
            parts = nd.split(":")
            if parts[0] == "image":
                d["image"] = torch.randn((n, h, w, 2), generator=g) * scale
            elif parts[0] == "initial_kspace":
                d["initial_kspace"] = torch.randn((n, coils, h, w, 2), generator=g) * scale * d["sampling_mask"]
            elif parts[0] == "state":
                d["state"] = torch.randn((n, int(parts[1]), h, w, int(parts[2])), generator=g) * 0.5
            elif parts[0] == "x":
                d["x"] = torch.randn((n, int(parts[1]), h, w), generator=g) * scale
        return d
    inp = Z.recon_inputs(n, coils, h, w, seed=seed, scale=scale, slices=3 if e.kind == "recon3d" else None)
    inp["scaling_factor"] = torch.tensor([0.6 + 0.37 * ((seed + i) % 5) for i in range(n)])
    return inp


def _cat(e, items):
    if isinstance(items[0], dict):
        return Z.cat_inputs(items)
    return torch.cat(items, 0)


def _run(e, m, inp):
    return Z.run_entry(e, m, (inp, None) if e.kind == "gru" else inp)


def _run_grad(e, m, inp):
    """the same call with autograd recording (the parameters require grad): evaluation must not depend on the grad mode"""
    with torch.enable_grad():
        if e.kind in ("den2d", "den3d"):
            out = m(inp)
        elif e.kind == "gru":
            out = m(inp, None)[0]
        else:
            out = e.call(m, inp)
    return out.detach()


def _noncontiguous(inp):
    """the same values behind different strides (a transposed copy viewed back)"""
    def nc(t):
        if not torch.is_tensor(t) or t.dim() < 3:
            return t
        return t.transpose(-2, -3).contiguous().transpose(-2, -3)
    if isinstance(inp, dict):
        return {k: nc(v) for k, v in inp.items()}
    return nc(inp)


def _permute_coils(e, x, perm):
    if isinstance(x, dict):
        out = Z.permute_coils(x, perm)
        if "initial_kspace" in out:
            out["initial_kspace"] = out["initial_kspace"][:, perm]
        return out
    return x[:, perm]


# ---- memory layouts: the same values behind different strides / storages ------------------------------------------------
def _lay_tensor(t, layout):
    if not torch.is_tensor(t) or t.dim() < 3:
        return t.clone() if torch.is_tensor(t) else t
    if layout == "contiguous":
        return t.clone().contiguous()
    if layout == "hw-transposed":
        return t.transpose(-2, -3).contiguous().transpose(-2, -3)
    if layout == "last-axis-first-storage":          # e.g. an (N, H, W, 2) image that is a permuted view of an (N, 2, H, W) tensor
        order = [0, t.dim() - 1] + list(range(1, t.dim() - 1))
        inv = [order.index(i) for i in range(t.dim())]
        return t.permute(order).contiguous().permute(inv)
    if layout == "second-axis-last-storage":         # e.g. an (N, C, H, W) tensor that is a permuted view of an (N, H, W, C) tensor
        order = [0] + list(range(2, t.dim())) + [1]
        inv = [order.index(i) for i in range(t.dim())]
        return t.permute(order).contiguous().permute(inv)
    if layout == "slice-of-wider-buffer":
        # two extra entries on either side: complex views need an even storage offset and even outer strides
        big = torch.zeros(t.shape[:-1] + (t.shape[-1] + 4,), dtype=t.dtype)
        big[..., 2:-2] = t
        return big[..., 2:-2]
    raise KeyError(layout)


LAYOUTS = ["hw-transposed", "last-axis-first-storage", "second-axis-last-storage", "slice-of-wider-buffer"]


_COMPLEX_KEYS = ("masked_kspace", "sensitivity_map", "sampling_mask", "initial_kspace")


def _lay(inp, layout):
    """dictionary inputs: the permuted-storage layouts go to the caller-supplied optional tensors (image, state, x) when there
    are any — k-space and maps feed `view_as_complex`, which rejects a non-unit last stride — otherwise to every tensor"""
    if isinstance(inp, dict):
        extra = [k for k in inp if k not in _COMPLEX_KEYS and torch.is_tensor(inp[k]) and inp[k].dim() >= 3]
        if layout in ("last-axis-first-storage", "second-axis-last-storage") and extra:
            return {k: _lay_tensor(v, layout if k in extra else "contiguous") for k, v in inp.items()}
        return {k: _lay_tensor(v, layout) for k, v in inp.items()}
    return _lay_tensor(inp, layout)


def _tensors(inp):
    return list(inp.items()) if isinstance(inp, dict) else [("input", inp)]


def _snapshot(inp):
    return {k: v.clone() for k, v in _tensors(inp) if torch.is_tensor(v)}


def _changed(inp, snap):
    """names of the input tensors whose values are no longer what they were (NaN counts as equal to NaN)"""
    bad = []
    for k, v in _tensors(inp):
        if torch.is_tensor(v) and k in snap:
            a, b = v, snap[k]
            if a.shape != b.shape or not torch.equal(torch.nan_to_num(a.float(), nan=1234.5), torch.nan_to_num(b.float(), nan=1234.5)):
                bad.append(k)
    return bad


def _sub(inp, pos):
    """sample `pos` as a view of the batch tensors (sharing their storage)"""
    if isinstance(inp, dict):
        return {k: v[pos:pos + 1] for k, v in inp.items()}
    return inp[pos:pos + 1]


def _layout_checks(ctx, e, m, x, single, h, w, seed, coils, deep, only=None, batch_too=True):
    """the caller's tensors in several memory layouts: the forward must leave them as they were, give the same output as for
    the plain layout, give it again on a second evaluation of the very same tensors, and give it for a sample evaluated alone —
    as a view into the batch tensors — after the batch was evaluated"""
    rng = ctx.rng
    opt = e.kind == "opt"
    layouts = LAYOUTS if (deep or opt) else rng.sample(LAYOUTS, 2)
    if only is not None:
        layouts = [only]
    rep0 = {"op": "layout", "entry": e.name, "h": h, "w": w, "seed": seed}
    for layout in layouts:
        ctx.count((e.name, "layout", layout, h, w), True, bucket=f"oracle/layout/{layout}")
        rep = dict(rep0, layout=layout)
        xin = _lay(x, layout)
        snap = _snapshot(xin)
        try:
            out1 = _run(e, m, xin).clone()
        except Exception:  # noqa: BLE001
            # the model does not accept this argument form (`view_as_complex` wants a unit last stride and an even offset):
            # not this property's concern
            ctx.count((e.name, "layout-rejected", layout), False, bucket=f"oracle/layout-rejected/{layout}")
            continue
        try:
            ch = _changed(xin, snap)
            out2 = _run(e, m, xin).clone()
        except Exception as ex:  # noqa: BLE001
            yield Violation(f"{e.name}:raises-{err_name(ex)}",
                            f"{e.name}: the second evaluation of the same input tensors (layout `{layout}`) fails although the first worked: {str(ex)[:150]}", rep)
            continue
        if ch:
            yield Violation(f"{e.name}:input-modified",
                            f"{e.name}: the forward pass overwrote its input {ch} (memory layout `{layout}`): the caller's tensors "
                            "differ after the call, so a second evaluation sees other data", dict(rep, modified=ch))
        r = _rel(single, out1)
        if not (r <= e.tol):
            yield Violation(f"{e.name}:layout-dependence",
                            f"{e.name}: the output depends on the memory layout of the inputs (`{layout}`): rel. difference {r:.2e}",
                            dict(rep, observed_rel_diff=r))
        if not torch.equal(torch.nan_to_num(out1), torch.nan_to_num(out2)):
            yield Violation(f"{e.name}:nonrepeatable",
                            f"{e.name}: a second evaluation of the very same input tensors (layout `{layout}`) differs (max rel {_rel(out1, out2):.2e})",
                            dict(rep, observed_rel_diff=_rel(out1, out2)))
        if opt or (deep and batch_too):
            # alone after batch, sharing the batch's storage
            ctx.count((e.name, "alone-after-batch", layout, h, w), True, bucket=f"oracle/alone-after-batch/{layout}")
            items = [_inputs(e, 1, h, w, seed + 40, coils=coils), x, _inputs(e, 1, h, w, seed + 41, coils=coils)]
            batch = _lay(_cat(e, items), layout)
            snap = _snapshot(batch)
            try:
                outb = _run(e, m, batch).clone()
            except Exception:  # noqa: BLE001
                continue
            try:
                chb = _changed(batch, snap)
                outv = _run(e, m, _sub(batch, 1)).clone()
            except Exception as ex:  # noqa: BLE001
                yield Violation(f"{e.name}:raises-{err_name(ex)}",
                                f"{e.name}: a sample evaluated alone as a view of the batch tensors (layout `{layout}`) fails after the batch worked: {str(ex)[:150]}", rep)
                continue
            if chb:
                yield Violation(f"{e.name}:input-modified",
                                f"{e.name}: the forward pass overwrote its batched input {chb} (memory layout `{layout}`)", dict(rep, modified=chb, batched=True))
            r = max(_rel(outb[1:2], outv), _rel(single, outv))
            if not (r <= e.tol):
                yield Violation(f"{e.name}:batch-dependence",
                                f"{e.name}: a sample evaluated alone (as a view of the batch tensors, layout `{layout}`) after the batch "
                                f"differs by {r:.2e} from its batched / single output", dict(rep, observed_rel_diff=r, alone_after_batch=True))


def _size_for(e, rng, deep):
    cands = [(9, 12), (12, 9), (17, 20), (8, 8), (11, 11), (18, 17), (6, 10)] if deep else [(9, 12), (17, 20), (10, 12), (18, 20)]
    ok = [s for s in cands if e.admissible(s[0], s[1], 3)]
    if e.finding == "normunet-5ch-groups":
        ok = [s for s in ok if (s[0] * s[1]) % 2 == 0]
    return ok


def _check_entry(ctx, e, deep, search=False):
    rng = ctx.rng
    m = model_of(e)
    sizes = _size_for(e, rng, deep)
    if not sizes:
        return
    sizes = sizes[:2] if search else sizes if deep else sizes[:1]
    for (h, w) in sizes:
        seed = rng.randrange(2 ** 20)
        coils = 3
        x = _inputs(e, 1, h, w, seed, coils=coils)
        try:
            snap = _snapshot(x)
            single = _run(e, m, x).clone()
            ch = _changed(x, snap)
            if ch:
                yield Violation(f"{e.name}:input-modified", f"{e.name}: the forward pass overwrote its input {ch}",
                                {"op": "layout", "entry": e.name, "h": h, "w": w, "seed": seed, "layout": "contiguous", "modified": ch})
                x = _inputs(e, 1, h, w, seed, coils=coils)
        except Exception as ex:  # noqa: BLE001
            yield Violation(f"{e.name}:raises-{err_name(ex)}", f"{e.name} fails on a single sample {(h, w)}: {str(ex)[:150]}",
                            {"op": "single", "entry": e.name, "h": h, "w": w, "seed": seed})
            continue
        # (b) repeated evaluation, with a different batch evaluated in between
        try:
            _run(e, m, _inputs(e, 2, h, w, seed + 1, scale=10.0, coils=coils))
        except Exception:  # noqa: BLE001
            pass
        again = _run(e, m, x)
        ctx.count((e.name, "repeat", h, w), True, bucket="oracle/repeat")
        if not torch.equal(single, again):
            yield Violation(f"{e.name}:nonrepeatable", f"{e.name}: repeated evaluation of the same input differs (max rel {_rel(single, again):.2e})",
                            {"op": "repeat", "entry": e.name, "h": h, "w": w, "seed": seed})
        yield from _history_checks(ctx, e, m, x, single, h, w, seed, coils, deep)
        yield from _layout_checks(ctx, e, m, x, single, h, w, seed, coils, deep, batch_too=(h, w) == sizes[0])
        # (a) batch of k vs alone; companions of ordinary, extreme, zero magnitude, or copies of the sample itself
        configs = [(k, pos, sc) for k in ((2, 3, 4) if deep else (2, 3)) for pos in range(k) for sc in (1.0, 1e4, 1e-4, 0.0, "dup")]
        if not deep:
            configs = rng.sample([c for c in configs if c[2] in (1.0, 1e4, 1e-4)], 4) + [(2, 1, 1e4), (2, rng.randrange(2), 0.0), (3, rng.randrange(3), "dup")]
        elif search:
            configs = rng.sample(configs, 14)
        for k, pos, sc in configs:
            if sc == "dup":
                comps = [x] * (k - 1)
                sc = -1.0
            else:
                comps = [_inputs(e, 1, h, w, seed + 10 + j, scale=sc, coils=coils) for j in range(k - 1)]
            items = comps[:pos] + [x] + comps[pos:]
            ctx.count((e.name, "batch", h, w, k, pos, sc), True,
                      sample={"entry": e.name, "size": [h, w], "batch": k, "position": pos, "companion_scale": sc},
                      bucket=f"oracle/batch{k}/scale{sc:g}")
            rep = {"op": "batch", "entry": e.name, "h": h, "w": w, "seed": seed, "batch": k, "position": pos, "companion_scale": sc}
            try:
                out = _run(e, m, _cat(e, items))[pos:pos + 1]
            except Exception as ex:  # noqa: BLE001
                yield Violation(f"{e.name}:raises-{err_name(ex)}",
                                f"{e.name} fails on a batch of {k} although the single sample works: {str(ex)[:150]}", rep)
                continue
            r = _rel(single, out)
            if not (r <= e.tol):
                rep["observed_rel_diff"] = r
                yield Violation(f"{e.name}:batch-dependence",
                                f"{e.name}: output of a sample differs by {r:.2e} (relative) between batch of {k} (position {pos}, "
                                f"companions x{sc:g}) and alone; tolerance {e.tol:g}", rep)
        # (c) coil permutation
        if e.kind in ("recon", "recon3d", "mc") or (e.kind == "opt" and "nocoil" not in e.tags):
            perms = list(itertools.permutations(range(coils))) if deep else [(2, 0, 1), (1, 0, 2)]
            for perm in perms[1:] if deep else perms:
                perm = list(perm)
                ctx.count((e.name, "perm", h, w, tuple(perm)), True, bucket="oracle/coil-perm/" + ("image" if e.coil_invariant else "kspace"))
                out = _run(e, m, _permute_coils(e, x, perm))
                ref = single if e.coil_invariant else single[:, perm]
                r = _rel(ref, out)
                if not (r <= max(e.tol, _PERM_TOL)):
                    yield Violation(f"{e.name}:coil-order",
                                    f"{e.name}: permuting the coils of k-space and maps together changes the reconstruction by {r:.2e}",
                                    {"op": "perm", "entry": e.name, "h": h, "w": w, "seed": seed, "perm": perm, "observed_rel_diff": r})


def _history_checks(ctx, e, m, x, single, h, w, seed, coils, deep):
    """call histories and evaluation contexts that must not change the answer for `x` (bit-identical unless a tolerance is
    stated): train() → eval() toggles, autograd recording on, a non-contiguous copy of the input, a batch evaluated in a
    different order, a second instance of the same model interleaved with the first"""
    rng = ctx.rng
    rep = {"entry": e.name, "h": h, "w": w, "seed": seed}
    which = ["toggle", "grad", "fresh-instance"] + (["order", "noncontig"] if deep else [])
    for kind in which:
        ctx.count((e.name, kind, h, w), True, bucket=f"oracle/history/{kind}")
        try:
            if kind == "toggle":
                m.train()
                m.eval()
                out, exact = _run(e, m, x), True
            elif kind == "grad":
                out, exact = _run_grad(e, m, x), True
            elif kind == "noncontig":
                out, exact = _run(e, m, _noncontiguous(x)), False
            elif kind == "fresh-instance":
                # another instance (same seed, hence the same weights), built after the first one has been used: class-level
                # or module-level state written by the first instance would show here; then the first one again
                m2 = _instantiate(e)
                out, exact = _run(e, m2, x), True
                if deep and torch.equal(out, single):
                    _run(e, m2, _inputs(e, 2, h, w, seed + 3, scale=7.0, coils=coils))
                    out = _run(e, m, x)
            else:
                items = [_inputs(e, 1, h, w, seed + 20 + j, coils=coils) for j in range(2)] + [x]
                a = _run(e, m, _cat(e, items))
                b = _run(e, m, _cat(e, [items[2], items[0], items[1]]))
                out, exact = b[0:1], False
                if _rel(a[2:3], out) > e.tol or _rel(a[0:1], b[1:2]) > e.tol:
                    out = b[0:1] + float("nan")
        except Exception as ex:  # noqa: BLE001
            yield Violation(f"{e.name}:raises-{err_name(ex)}", f"{e.name} fails in the `{kind}` evaluation although the plain one works: {str(ex)[:150]}",
                            {"op": "history", "kind": kind, **rep})
            continue
        bad = (not torch.equal(out, single)) if exact else not (_rel(single, out) <= e.tol)
        if bad and exact and _rel(single, out) <= 0.0:
            bad = False                      # -0.0 vs +0.0
        if bad:
            yield Violation(f"{e.name}:{kind}-dependence",
                            f"{e.name}: the output for the same input differs (max rel {_rel(single, out):.2e}) under `{kind}` "
                            "(train→eval toggle / autograd on / non-contiguous input / batch order / second instance)",
                            {"op": "history", "kind": kind, "observed_rel_diff": _rel(single, out), **rep})


# ------------------------------------------------------------------------------------------------------------------
# size ladders: thresholds on the coil count or the batch size (chunked "memory saving" paths, `n // K` loops) only show
# beyond the threshold and off its multiples
COIL_LADDER = [1, 2, 3, 4, 5, 6, 7, 8, 9, 12, 15, 16, 17, 20, 33]
BATCH_LADDER = [1, 2, 3, 8, 9, 16, 17, 33]
_LADDER_SIZES = [(4, 5), (6, 5), (8, 9), (9, 12), (17, 20), (18, 20)]


class _Block:
    """a data-consistency / likelihood block called directly (tiny spatial size): `call(module, inputs)`; `out` says
    whether the result carries a coil axis (equivariant) or not (invariant)"""

    def __init__(self, name, build, call, coil_invariant=True, tol=1e-5):
        self.name, self.build, self.call, self.coil_invariant, self.tol = name, build, call, coil_invariant, tol
        self.kind, self.family, self.tags = "block", "block", ()
        self._m = None

    def admissible(self, h, w, z=None):
        return True

    def module(self):
        if self._m is None:
            torch.manual_seed(77)
            self._m = self.build().eval()
        return self._m


def _blocks():
    from direct.data import transforms as T
    from direct.nn.conjgradnet.conjgrad import ConjGrad
    from direct.nn.conv.conv import Conv2d
    from direct.nn.multidomainnet.multidomainnet import StandardizationLayer
    from direct.nn.rim.rim import MRILogLikelihood
    from direct.nn.varnet.varnet import EndToEndVarNetBlock

    fwd, bwd = Z._ops()

    def dc(_m, d):
        S, K, M = d["sensitivity_map"], d["masked_kspace"], d["sampling_mask"]
        r = torch.where(M == 0, torch.zeros(1), fwd(T.expand_operator(d["image"], S, 1), dim=(2, 3)) - K)
        return T.reduce_operator(bwd(r, dim=(2, 3)), S, 1)

    ident = torch.nn.Identity
    return [
        _Block("block/MRILogLikelihood", lambda: MRILogLikelihood(fwd, bwd),
               lambda m, d: m(d["image"].permute(0, 3, 1, 2), d["masked_kspace"], d["sensitivity_map"], d["sampling_mask"])),
        _Block("block/reduce_operator", ident, lambda m, d: T.reduce_operator(bwd(d["masked_kspace"], dim=(2, 3)), d["sensitivity_map"], 1)),
        _Block("block/data-consistency", ident, dc),
        _Block("block/StandardizationLayer", lambda: StandardizationLayer(1, -1),
               lambda m, d: m(bwd(d["masked_kspace"], dim=(2, 3)), d["sensitivity_map"]), coil_invariant=False),
        _Block("block/ConjGrad/tol0", lambda: ConjGrad(fwd, bwd, num_iters=3, tol=0.0),
               lambda m, d: m(d["masked_kspace"], d["sensitivity_map"], d["sampling_mask"], d["image"], torch.tensor([0.3])), tol=1e-4),
        _Block("block/EndToEndVarNetBlock", lambda: EndToEndVarNetBlock(fwd, bwd, Conv2d(2, 2, 4, n_convs=2)),
               lambda m, d: m(d["masked_kspace"] * 0.5, d["masked_kspace"], d["sampling_mask"], d["sensitivity_map"]), coil_invariant=False),
    ]


_BLOCKS = None


def blocks():
    global _BLOCKS
    if _BLOCKS is None:
        _BLOCKS = _blocks()
    return _BLOCKS


def _ladder_inputs(e, n, h, w, seed, coils):
    """one sample per seed, concatenated: a sample is the same tensor alone and inside any batch"""
    items = []
    for i in range(n):
        if e.kind == "block":
            d = Z.recon_inputs(1, coils, h, w, seed=seed + i)
            d["image"] = torch.randn((1, h, w, 2), generator=torch.Generator().manual_seed(seed + i + 5000))
        else:
            d = _inputs(e, 1, h, w, seed + i, coils=coils)
        items.append(d)
    return items


def _ladder_run(e, m, inp):
    if e.kind == "block":
        with torch.no_grad():
            return e.call(m, inp)
    return _run(e, m, inp)


def _train_mode_irrelevant(m) -> bool:
    """no dropout with p > 0 and no batch norm: the module computes the same function in train() and eval()"""
    from torch import nn
    for sub in m.modules():
        if isinstance(sub, nn.modules.batchnorm._BatchNorm):
            return False
        if isinstance(sub, (nn.Dropout, nn.Dropout2d, nn.Dropout3d, nn.AlphaDropout)) and sub.p > 0:
            return False
    return True


def _ladder_case(e, m, kind, count, h, w, seed, train, pos=None):
    """-> (relative difference, tolerance) of one ladder case; raises what the implementation raises"""
    if train:
        m.train()
    try:
        if kind == "coil":
            x = _cat(e, _ladder_inputs(e, 1, h, w, seed, count))
            ref = _ladder_run(e, m, x)
            worst = 0.0
            perms = [list(range(count))[::-1], [(i + 3) % count for i in range(count)]] if count > 1 else [[0]]
            for perm in perms:
                out = _ladder_run(e, m, _permute_coils(e, x, perm))
                worst = max(worst, _rel(ref if e.coil_invariant else ref[:, perm], out))
            return worst, max(e.tol, _PERM_TOL)
        items = _ladder_inputs(e, count, h, w, seed, 3)
        pos = count - 1 if pos is None else pos
        single = _ladder_run(e, m, items[pos])
        out = _ladder_run(e, m, _cat(e, items))[pos:pos + 1]
        # tiny spatial sizes and large batches: measured rounding differences up to 1.2e-5 (instance norm over 2x2 bottlenecks,
        # FFT kernels chosen by batch size); a threshold effect drops or mixes whole samples and is of order 1e-2 .. 1
        return _rel(single, out), max(e.tol, _LADDER_TOL)
    finally:
        if train:
            m.eval()


def _ladders(ctx, deep):
    """coil-count ladder for the coil-order check and batch-size ladder for the batch-independence check: the DC / likelihood
    blocks (every rung, eval and train mode) and the cheapest model of every family (quick: the rungs next to the usual
    thresholds 8, 16, 32; thorough: every rung; train mode where it is irrelevant)"""
    rng = ctx.rng
    fam = {}
    for e in zoo():
        if e.kind in ("recon", "den2d", "gru", "mc") and e.family not in fam and not e.finding:
            fam[e.family] = e
    targets = [(b, b.module()) for b in blocks()] + [(e, model_of(e)) for e in fam.values()]
    for e, m in targets:
        size = next(((h, w) for (h, w) in _LADDER_SIZES if e.admissible(h, w, 3)), None)
        if size is None:
            continue
        h, w = size
        is_block = e.kind == "block"
        irrelevant = _train_mode_irrelevant(m)
        plans = []
        if e.kind in ("block", "recon", "mc"):
            rungs = COIL_LADDER if (deep or is_block) else [9, 12, 17] + rng.sample([1, 5, 8, 15, 16, 20, 33], 1)
            plans += [("coil", c) for c in rungs]
        rungs = BATCH_LADDER if (deep or is_block) else [9, 17] + rng.sample([8, 16, 33], 1)
        plans += [("batch", n) for n in rungs]
        for kind, count in plans:
            modes = [False] + ([True] if irrelevant and (deep or is_block or count in (9, 12)) else [])
            for train in modes:
                seed = rng.randrange(2 ** 20)
                pos = rng.randrange(count) if kind == "batch" else None
                ctx.count((e.name, "ladder", kind, count, train), count >= 2,
                          sample={"entry": e.name, "ladder": kind, "count": count, "size": [h, w], "train_mode": train},
                          bucket=f"oracle/ladder/{kind}/{count}" + ("/train" if train else ""))
                rep = {"op": "ladder", "entry": e.name, "ladder": kind, "count": count, "h": h, "w": w, "seed": seed,
                       "train_mode": train, "position": pos}
                try:
                    r, tol = _ladder_case(e, m, kind, count, h, w, seed, train, pos)
                except Exception as ex:  # noqa: BLE001
                    yield Violation(f"{e.name}:raises-{err_name(ex)}",
                                    f"{e.name} fails with {count} {'coils' if kind == 'coil' else 'samples'}: {str(ex)[:150]}", rep)
                    continue
                if not (r <= tol):
                    rep["observed_rel_diff"] = r
                    mode = " (train mode, which is irrelevant for this module)" if train else ""
                    if kind == "coil":
                        yield Violation(f"{e.name}:coil-order",
                                        f"{e.name}: with {count} coils, permuting the coils of k-space and maps together changes the "
                                        f"output by {r:.2e}{mode}", rep)
                    else:
                        yield Violation(f"{e.name}:batch-dependence",
                                        f"{e.name}: output of a sample differs by {r:.2e} (relative) between a batch of {count} "
                                        f"(position {pos}) and alone{mode}; tolerance {tol:g}", rep)


def _stateful_modules(ctx, e):
    """`.eval()` must switch every stochastic / statistics-updating module off; dropout entries must be live in train mode
    (so that the check is not vacuous)"""
    from torch import nn

    m = model_of(e)
    ctx.count((e.name, "eval-flags"), True, bucket="oracle/eval-flags")
    left_on = [n for n, sub in m.named_modules() if sub.training]
    if left_on:
        yield Violation(f"{e.name}:train-flag-after-eval", f"{e.name}: modules still in training mode after eval(): {left_on[:5]}",
                        {"op": "evalflags", "entry": e.name, "modules": left_on[:20]})
    nostats = [n for n, sub in m.named_modules() if isinstance(sub, nn.modules.batchnorm._BatchNorm)
               and (not sub.track_running_stats or sub.running_mean is None)]
    if nostats:
        yield Violation(f"{e.name}:batchnorm-without-running-stats",
                        f"{e.name}: batch-norm layers without running statistics use the statistics of the batch in eval mode: {nostats[:5]}",
                        {"op": "evalflags", "entry": e.name, "modules": nostats[:20]})
    stoch = [n for n, sub in m.named_modules()
             if isinstance(sub, (nn.Dropout, nn.Dropout2d, nn.Dropout3d, nn.AlphaDropout)) and sub.p > 0]
    if "dropout" in e.tags:
        ctx.count((e.name, "dropout-live"), True, bucket="oracle/dropout-live")
        if not stoch:
            yield Violation(f"{e.name}:dropout-entry-has-no-dropout", f"{e.name}: the dropout zoo entry contains no dropout module with p > 0",
                            {"op": "evalflags", "entry": e.name})


def oracle(ctx: Ctx, deep: bool = False):
    search = deep and not ctx.thorough          # an obligation broke: the failing-input search also covers the engine entries
    deep = deep or ctx.thorough
    entries = zoo()
    if search:
        have = {e.name for e in entries}
        entries = entries + [e for e in Z.zoo(thorough=True) if e.name not in have and e.finding not in _UNUSABLE]
    found = 0
    for e in entries:
        for v in itertools.chain(_stateful_modules(ctx, e), _check_entry(ctx, e, deep, search)):
            found += v.key not in PENDING_FINDINGS
            yield v
        if search and found >= 6:
            return                  # the failing-input search has its inputs
    yield from _ladders(ctx, deep)
    # the normalisation functions themselves on float batches: statistics and normalised sample identical alone / batched,
    # and un-normalisation inverts
    from direct.nn.recurrent.recurrent import NormConv2dGRU
    from direct.nn.unet.unet_2d import NormUnetModel2d

    rng = ctx.rng
    for _ in range(ctx.budget(40, 400)):
        cls = rng.choice([NormUnetModel2d, NormConv2dGRU])
        b, c, h, w = rng.randint(2, 4), rng.choice([2, 4, 6]), rng.randint(2, 9), rng.randint(2, 9)
        g = torch.Generator().manual_seed(rng.randrange(2 ** 20))
        x = torch.randn((b, c, h, w), generator=g) * torch.tensor([1.0, 1e4, 1e-4, 3.0])[:b].reshape(b, 1, 1, 1)
        k = rng.randrange(b)
        ctx.count(("normfn", cls.__name__, b, c, h, w, k), True, bucket="oracle/norm-function")
        o, mu, sd = cls.norm(x, 2)
        o1, mu1, sd1 = cls.norm(x[k:k + 1], 2)
        ok = _rel(o1, o[k:k + 1]) <= 1e-5 and _rel(mu1, mu[k:k + 1]) <= 1e-5 and _rel(sd1, sd[k:k + 1]) <= 1e-5
        back = cls.unnorm(o, mu, sd, 2)
        if not ok:
            yield Violation(f"{cls.__name__}.norm:batch-dependence", f"{cls.__name__}.norm gives a sample different statistics in a batch",
                            {"op": "normfn", "cls": cls.__name__, "shape": [b, c, h, w], "k": k})
        if _rel(x[k], back[k]) > 1e-4:
            yield Violation(f"{cls.__name__}.unnorm:not-inverse", f"{cls.__name__}.unnorm(norm(x)) != x",
                            {"op": "normfn", "cls": cls.__name__, "shape": [b, c, h, w], "k": k})


def replay(rep: dict) -> bool:
    op = rep.get("op")
    if op == "ladder":
        e = next((b for b in blocks() if b.name == rep["entry"]), None)
        m = e.module() if e is not None else None
        if e is None:
            e = next((x for x in Z.zoo(thorough=True) + extra_entries() + optional_arg_entries() if x.name == rep["entry"]), None)
            if e is None:
                return True
            m = model_of(e)
        try:
            r, tol = _ladder_case(e, m, rep["ladder"], rep["count"], rep["h"], rep["w"], rep["seed"], rep.get("train_mode", False), rep.get("position"))
        except Exception:  # noqa: BLE001
            return True
        return not (r <= tol)
    if op not in ("batch", "single", "repeat", "perm", "history", "layout"):
        return True
    e = next((x for x in Z.zoo(thorough=True) + extra_entries() + optional_arg_entries() if x.name == rep["entry"]), None)
    if e is None:
        return True
    m = model_of(e)
    h, w, seed = rep["h"], rep["w"], rep["seed"]
    x = _inputs(e, 1, h, w, seed)
    try:
        single = _run(e, m, x)
        if op == "single":
            return False
        if op == "repeat":
            return not torch.equal(single, _run(e, m, x))
        if op == "layout":
            class _C2:
                rng = __import__("random").Random(0)
                thorough = False
                def count(self, *a, **k):
                    pass
            if rep["layout"] == "contiguous":
                snap = _snapshot(x)
                _run(e, m, x)
                return bool(_changed(x, snap))
            return any(True for _v in _layout_checks(_C2(), e, m, x, single, h, w, seed, 3, True, only=rep["layout"]))
        if op == "history":
            class _C:                       # a minimal ctx for the generator
                rng = __import__("random").Random(0)
                def count(self, *a, **k):
                    pass
            return any(v.key.endswith(rep["kind"] + "-dependence") or "raises" in v.key
                       for v in _history_checks(_C(), e, m, x, single, h, w, seed, 3, True))
        if op == "perm":
            out = _run(e, m, _permute_coils(e, x, rep["perm"]))
            ref = single if e.coil_invariant else single[:, rep["perm"]]
            return _rel(ref, out) > max(e.tol, _PERM_TOL)
        k, pos, sc = rep["batch"], rep["position"], rep["companion_scale"]
        comps = [x] * (k - 1) if sc < 0 else [_inputs(e, 1, h, w, seed + 10 + j, scale=sc) for j in range(k - 1)]
        out = _run(e, m, _cat(e, comps[:pos] + [x] + comps[pos:]))[pos:pos + 1]
        return not (_rel(single, out) <= e.tol)
    except Exception:  # noqa: BLE001
        return True
