"""C18 — in evaluation mode a sample's reconstruction is independent of its batch."""
from __future__ import annotations

import itertools
import warnings

import boot  # noqa: F401
import torch

from core import Ctx, Violation, err_name, ints, line

from . import zoo_common as Z

torch.set_num_threads(1)
# reference convolution kernels: with oneDNN off, torch convolves sample by sample, so that batched and single evaluation
# are bit-identical for most of the zoo (68 of 89 models) and within 1e-6 for the rest — the tolerance then separates
# algorithmic batch dependence from rounding with a wide margin
torch.backends.mkldnn.enabled = False
warnings.filterwarnings("ignore")

PROP = "C18"
MANIFEST = {
    "text": "Lean 4 theorems: separable batched operations (f xs = xs.map f1) give every sample the same output alone or with arbitrary "
            "companions at any position and batch size; separability is closed under composition and element-wise combination; every "
            "reduction of any table whose entries avoid the batch axis is separable for any combining function (the table generated "
            "from the normalisation code and coil reductions of /repo satisfies the predicate by `decide`), a reduction over axis 0 is "
            "not; a module whose methods never assign to self.* answers repeated calls identically after any history; coil sums, "
            "reduce/expand and expand/reduce data-consistency blocks are invariant/equivariant under any coil permutation (any "
            "commutative monoid, any coil count).",
    "note": "Trusted: Lean kernel (+propext, Classical.choice, Quot.sound), the AST scanners (reduction-axis table, self-assignment "
            "table), torch semantics of reshape/reduction axes (validated by the `persample` correspondence). Whole networks are "
            "covered by the theorems only through the closure lemmas over their primitives (conv, element-wise ops, eval-mode batch "
            "norm, instance norm are per-sample by construction of torch); rounding differences between batched and single kernels and "
            "the whole-network behaviour are tolerance-checked on the real zoo (1e-5 relative), not proved. Train-mode batch norm is "
            "outside the property.",
    "technique": "Lean 4 proof (list induction, Mathlib Equiv.sum_comp) + generated structural tables discharged by decide + exact "
                 "integer differential correspondence of the normalisation / coil-combination functions + batch-vs-single oracle",
}
TRUSTED = [
    "Lean 4.33 kernel; axioms ⊆ {propext, Classical.choice, Quot.sound}",
    "harness/translate recipes c18: reduction-axis scanner, global-reduction scanner, self-assignment scanner",
    "torch: reshape is row-major, reductions over axes other than 0 act per sample (checked empirically by the `persample` cases)",
    "conv / element-wise / instance-norm / eval-mode batch-norm kernels are per-sample (torch); checked on the zoo by the oracle only",
]
ASSUMPTIONS = [
    "group statistics are compared as exact integers (n, sum, sum (n x - S)^2) on integer-valued float64 tensors; groups of one "
    "element (std = NaN) are excluded",
    "batch-vs-single tolerance 1e-5 relative to the output scale (float32, oneDNN disabled so that most models are bit-identical; "
    "1e-4 for KIKINet with a normalised U-Net on k-space, 1e-3 for ConjGradNet whose CG tolerance bounds its own accuracy)",
    "coil-permutation tolerance 1e-4 (float32 coil sums are re-ordered; measured rounding effect <= 1.3e-5)",
    "evaluation mode only",
]
RULE = ("integer batches (b 1..4, c, h, w small, groups dividing) for the normalisation functions; Gaussian-integer coil stacks "
        "(1..5 coils) for reduce/expand/standardise; the whole zoo in eval mode with companions of magnitude 1, 1e4, 1e-4 at every "
        "batch position, repeated evaluation, all/ random coil permutations. non-trivial = batch >= 2 or coils >= 2; distinct = "
        "distinct protocol line / (entry, size, batch, position, scale)")

PENDING_FINDINGS = [
    # listed as `known:` by the lead; the oracle keeps yielding it
    "ConjGradNet/conv-sense-FR/tol1e-3:batch-dependence",
]
# configurations that cannot be evaluated at all on the current tree (reported by C17)
_UNUSABLE = {"normunet-zero-group"}

# permuting the coils changes the order of every float32 coil summation: rounding differences up to 1.3e-5 (relative) were
# measured through the deeper networks; a coil-order dependence changes the output by O(1)
_PERM_TOL = 1e-4

_ZOO = None
_MODELS: dict = {}


_THOROUGH = False


def prepare(ctx: Ctx):
    global _THOROUGH, _ZOO
    if ctx.thorough != _THOROUGH:
        _THOROUGH, _ZOO = ctx.thorough, None


def zoo():
    global _ZOO
    if _ZOO is None:
        _ZOO = [e for e in Z.zoo(thorough=_THOROUGH) if e.finding not in _UNUSABLE]
    return _ZOO


def model_of(e):
    if e.name not in _MODELS:
        _MODELS[e.name] = e.model()
    return _MODELS[e.name]


def _guard(fn):
    def run():
        try:
            return fn()
        except Exception as ex:  # noqa: BLE001
            return "err " + err_name(ex)
    return run


# ------------------------------------------------------------------------------------------------------------------
def _int_tensor(rng, shape, lo=-6, hi=6):
    n = 1
    for s in shape:
        n *= s
    return torch.tensor([rng.randint(lo, hi) for _ in range(n)], dtype=torch.float64).reshape(shape)


def _stats_answer(mean, std, n):
    """(b, groups, 1) float64 statistics -> per sample [n, S, Q] per group as exact integers"""
    out = []
    for bi in range(mean.shape[0]):
        row = []
        for g in range(mean.shape[1]):
            s = mean[bi, g, 0].item() * n
            q = (std[bi, g, 0].item() ** 2) * (n - 1) * n * n
            row += [n, round(s), round(q)]
        out.append(row)
    return "ok " + " | ".join(ints(r) for r in out)


def correspondence(ctx: Ctx):
    from direct.data import transforms as T
    from direct.nn.multidomainnet.multidomainnet import StandardizationLayer
    from direct.nn.recurrent.recurrent import NormConv2dGRU
    from direct.nn.unet.unet_2d import NormUnetModel2d
    from direct.nn.unet.unet_3d import NormUnetModel3d

    rng = ctx.rng
    norms = [("NormUnetModel2d", NormUnetModel2d.norm, 2), ("NormConv2dGRU", NormConv2dGRU.norm, 2), ("NormUnetModel3d", NormUnetModel3d.norm, 3)]
    # ---- group statistics, sample by sample
    for _ in range(ctx.budget(90, 900)):
        name, fn, nsp = rng.choice(norms)
        b = rng.choice([1, 2, 2, 3, 4])
        c = rng.choice([2, 2, 4, 6, 3])
        sp = [rng.randint(1, 4) for _ in range(nsp)]
        groups = rng.choice([1, 2, 2, 2, 3])
        per = c
        for s in sp:
            per *= s
        x = _int_tensor(rng, [b, c] + sp)
        valid = per % groups == 0
        if valid and per // groups < 2:
            continue

        def impl(fn=fn, x=x, groups=groups, per=per):
            out, mean, std = fn(x, groups)
            assert out.shape == x.shape
            return _stats_answer(mean, std, per // groups)
        yield {"line": line("normstats", [groups], [b, per], [int(v) for v in x.reshape(-1).tolist()]), "impl": _guard(impl),
               "nontrivial": b >= 2, "bucket": f"normstats/{name}/" + ("b1" if b == 1 else "batched") + ("" if valid else "-reject")}
    # ---- coil reduce / expand / standardise / data-consistency on Gaussian integers; batched call, one sample compared
    std_layer = StandardizationLayer(coil_dim=1, channel_dim=-1)
    for _ in range(ctx.budget(80, 800)):
        b, coil, h, w = rng.choice([1, 2, 3]), rng.randint(1, 5), rng.randint(1, 3), rng.randint(1, 3)
        k = rng.randrange(b)
        S = _int_tensor(rng, [b, coil, h, w, 2], -3, 3).float()
        X = _int_tensor(rng, [b, coil, h, w, 2], -4, 4).float()
        img = _int_tensor(rng, [b, h, w, 2], -4, 4).float()
        flat = lambda t: [int(v) for v in t.reshape(-1).tolist()]  # noqa: E731
        npix = h * w
        which = rng.choice(["reduce", "expand", "standardize", "dc"])
        nt = b >= 2 or coil >= 2
        if which == "reduce":
            yield {"line": line("reduce", [coil, npix], flat(S[k]), flat(X[k])),
                   "impl": _guard(lambda S=S, X=X, k=k: "ok " + ints(flat(T.reduce_operator(X, S, dim=1)[k]))),
                   "nontrivial": nt, "bucket": "coil/reduce"}
        elif which == "expand":
            yield {"line": line("expand", [coil, npix], flat(S[k]), flat(img[k])),
                   "impl": _guard(lambda S=S, img=img, k=k: "ok " + ints(flat(T.expand_operator(img, S, dim=1)[k]))),
                   "nontrivial": nt, "bucket": "coil/expand"}
        elif which == "standardize":
            yield {"line": line("standardize", [coil, npix], flat(S[k]), flat(X[k])),
                   "impl": _guard(lambda S=S, X=X, k=k: "ok " + ints(flat(std_layer(X, S)[k]))),
                   "nontrivial": nt, "bucket": "coil/standardize"}
        else:
            def impl(S=S, X=X, img=img, k=k):
                r = T.reduce_operator(T.expand_operator(img, S, dim=1) - X, S, dim=1)
                return "ok " + ints(flat(r[k]))
            yield {"line": line("dc", [coil, npix], flat(S[k]), flat(X[k]), flat(img[k])), "impl": _guard(impl),
                   "nontrivial": nt, "bucket": "coil/dc"}
    # ---- what "per sample" means for torch reductions (semantics of the table predicate)
    for _ in range(ctx.budget(60, 500)):
        rank = rng.randint(2, 5)
        k = rng.randint(0, 2)
        axes = rng.sample(list(range(-rank - 1, rank + 1)), k)
        if axes and rng.random() < 0.2:          # the same axis named twice (positive and negative): torch rejects it
            a = axes[0]
            axes = axes + [a - rank if a >= 0 else a + rank]
        bf = rng.choice([1, 1, 1, 0])
        op = rng.choice(["sum", "mean", "amax"])

        def impl(rank=rank, axes=axes, bf=bf, op=op):
            g = torch.Generator().manual_seed(rank * 100 + len(axes))
            shape = [3] + [2] * (rank - 1)
            x = torch.randint(-5, 6, shape, generator=g).double()
            if not bf:
                return "ok 0"      # the view merged the batch into another axis: nothing per-sample can be said
            try:
                full = getattr(x, op)(dim=axes) if axes else getattr(x, op)()
                one = getattr(x[1:2], op)(dim=axes) if axes else getattr(x[1:2], op)()
            except (IndexError, RuntimeError):
                return "ok 0"
            ok = full.dim() >= 1 and full.shape[0] == 3 and one.shape[0] == 1 and torch.equal(full[1], one[0])
            # duplicates such as [-1, rank-1] raise above; a reduction that happens to give equal numbers is excluded by the
            # random data
            return "ok " + ("1" if ok else "0")
        yield {"line": line("persample", [rank, bf], axes), "impl": impl, "nontrivial": True,
               "bucket": "persample/" + ("none" if not axes else "dup" if len({a % rank for a in axes}) < len(axes) else
                                          "axis0" if any(a % rank == 0 for a in axes if -rank <= a < rank) else "inner")}


# ------------------------------------------------------------------------------------------------------------------
def _rel(a, b):
    s = max(float(a.abs().max()), 1e-30)
    d = (a - b).abs()
    if not bool(torch.isfinite(d).all()):
        return float("inf")
    return float(d.max()) / s


def _inputs(e, n, h, w, seed, scale=1.0, coils=3):
    if e.kind in ("den2d", "gru"):
        g = torch.Generator().manual_seed(seed)
        return torch.randn((n, e.in_ch, h, w), generator=g) * scale
    if e.kind == "den3d":
        g = torch.Generator().manual_seed(seed)
        return torch.randn((n, e.in_ch, 3, h, w), generator=g) * scale
    inp = Z.recon_inputs(n, coils, h, w, seed=seed, scale=scale, slices=3 if e.kind == "recon3d" else None)
    inp["scaling_factor"] = torch.tensor([0.6 + 0.37 * ((seed + i) % 5) for i in range(n)])
    return inp


def _cat(e, items):
    if isinstance(items[0], dict):
        return Z.cat_inputs(items)
    return torch.cat(items, 0)


def _run(e, m, inp):
    return Z.run_entry(e, m, (inp, None) if e.kind == "gru" else inp)


def _size_for(e, rng, deep):
    cands = [(9, 12), (12, 9), (17, 20), (8, 8), (11, 11), (18, 17), (6, 10)] if deep else [(9, 12), (17, 20), (10, 12), (18, 20)]
    ok = [s for s in cands if e.admissible(s[0], s[1], 3)]
    if e.finding == "normunet-5ch-groups":
        ok = [s for s in ok if (s[0] * s[1]) % 2 == 0]
    return ok


def _check_entry(ctx, e, deep):
    rng = ctx.rng
    m = model_of(e)
    sizes = _size_for(e, rng, deep)
    if not sizes:
        return
    sizes = sizes if deep else sizes[:1]
    for (h, w) in sizes:
        seed = rng.randrange(2 ** 20)
        coils = 3
        x = _inputs(e, 1, h, w, seed, coils=coils)
        try:
            single = _run(e, m, x)
        except Exception as ex:  # noqa: BLE001
            yield Violation(f"{e.name}:raises-{err_name(ex)}", f"{e.name} fails on a single sample {(h, w)}: {str(ex)[:150]}",
                            {"op": "single", "entry": e.name, "h": h, "w": w, "seed": seed})
            continue
        # (b) repeated evaluation, with a different batch evaluated in between
        try:
            _run(e, m, _inputs(e, 2, h, w, seed + 1, scale=10.0, coils=coils))
        except Exception:  # noqa: BLE001
            pass
        again = _run(e, m, x)
        ctx.count((e.name, "repeat", h, w), True, bucket="oracle/repeat")
        if not torch.equal(single, again):
            yield Violation(f"{e.name}:nonrepeatable", f"{e.name}: repeated evaluation of the same input differs (max rel {_rel(single, again):.2e})",
                            {"op": "repeat", "entry": e.name, "h": h, "w": w, "seed": seed})
        # (a) batch of k vs alone
        configs = [(k, pos, sc) for k in ((2, 3, 4) if deep else (2, 3)) for pos in range(k) for sc in (1.0, 1e4, 1e-4)]
        if not deep:
            configs = rng.sample(configs, 5) + [(2, 1, 1e4)]
        for k, pos, sc in configs:
            comps = [_inputs(e, 1, h, w, seed + 10 + j, scale=sc, coils=coils) for j in range(k - 1)]
            items = comps[:pos] + [x] + comps[pos:]
            ctx.count((e.name, "batch", h, w, k, pos, sc), True,
                      sample={"entry": e.name, "size": [h, w], "batch": k, "position": pos, "companion_scale": sc},
                      bucket=f"oracle/batch{k}/scale{sc:g}")
            rep = {"op": "batch", "entry": e.name, "h": h, "w": w, "seed": seed, "batch": k, "position": pos, "companion_scale": sc}
            try:
                out = _run(e, m, _cat(e, items))[pos:pos + 1]
            except Exception as ex:  # noqa: BLE001
                yield Violation(f"{e.name}:raises-{err_name(ex)}",
                                f"{e.name} fails on a batch of {k} although the single sample works: {str(ex)[:150]}", rep)
                continue
            r = _rel(single, out)
            if not (r <= e.tol):
                rep["observed_rel_diff"] = r
                yield Violation(f"{e.name}:batch-dependence",
                                f"{e.name}: output of a sample differs by {r:.2e} (relative) between batch of {k} (position {pos}, "
                                f"companions x{sc:g}) and alone; tolerance {e.tol:g}", rep)
        # (c) coil permutation
        if e.kind in ("recon", "recon3d"):
            perms = list(itertools.permutations(range(coils))) if deep else [(2, 0, 1), (1, 0, 2)]
            for perm in perms[1:] if deep else perms:
                perm = list(perm)
                ctx.count((e.name, "perm", h, w, tuple(perm)), True, bucket="oracle/coil-perm/" + ("image" if e.coil_invariant else "kspace"))
                out = _run(e, m, Z.permute_coils(x, perm))
                ref = single if e.coil_invariant else single[:, perm]
                r = _rel(ref, out)
                if not (r <= max(e.tol, _PERM_TOL)):
                    yield Violation(f"{e.name}:coil-order",
                                    f"{e.name}: permuting the coils of k-space and maps together changes the reconstruction by {r:.2e}",
                                    {"op": "perm", "entry": e.name, "h": h, "w": w, "seed": seed, "perm": perm, "observed_rel_diff": r})


def _stateful_modules(ctx, e):
    """`.eval()` must switch every stochastic / statistics-updating module off; dropout entries must be live in train mode
    (so that the check is not vacuous)"""
    from torch import nn

    m = model_of(e)
    ctx.count((e.name, "eval-flags"), True, bucket="oracle/eval-flags")
    left_on = [n for n, sub in m.named_modules() if sub.training]
    if left_on:
        yield Violation(f"{e.name}:train-flag-after-eval", f"{e.name}: modules still in training mode after eval(): {left_on[:5]}",
                        {"op": "evalflags", "entry": e.name, "modules": left_on[:20]})
    stoch = [n for n, sub in m.named_modules()
             if isinstance(sub, (nn.Dropout, nn.Dropout2d, nn.Dropout3d, nn.AlphaDropout)) and sub.p > 0]
    if "dropout" in e.tags:
        ctx.count((e.name, "dropout-live"), True, bucket="oracle/dropout-live")
        if not stoch:
            yield Violation(f"{e.name}:dropout-entry-has-no-dropout", f"{e.name}: the dropout zoo entry contains no dropout module with p > 0",
                            {"op": "evalflags", "entry": e.name})


def oracle(ctx: Ctx, deep: bool = False):
    deep = deep or ctx.thorough
    for e in zoo():
        yield from _stateful_modules(ctx, e)
        yield from _check_entry(ctx, e, deep)
    # the normalisation functions themselves on float batches: statistics and normalised sample identical alone / batched,
    # and un-normalisation inverts
    from direct.nn.recurrent.recurrent import NormConv2dGRU
    from direct.nn.unet.unet_2d import NormUnetModel2d

    rng = ctx.rng
    for _ in range(ctx.budget(40, 400)):
        cls = rng.choice([NormUnetModel2d, NormConv2dGRU])
        b, c, h, w = rng.randint(2, 4), rng.choice([2, 4, 6]), rng.randint(2, 9), rng.randint(2, 9)
        g = torch.Generator().manual_seed(rng.randrange(2 ** 20))
        x = torch.randn((b, c, h, w), generator=g) * torch.tensor([1.0, 1e4, 1e-4, 3.0])[:b].reshape(b, 1, 1, 1)
        k = rng.randrange(b)
        ctx.count(("normfn", cls.__name__, b, c, h, w, k), True, bucket="oracle/norm-function")
        o, mu, sd = cls.norm(x, 2)
        o1, mu1, sd1 = cls.norm(x[k:k + 1], 2)
        ok = _rel(o1, o[k:k + 1]) <= 1e-5 and _rel(mu1, mu[k:k + 1]) <= 1e-5 and _rel(sd1, sd[k:k + 1]) <= 1e-5
        back = cls.unnorm(o, mu, sd, 2)
        if not ok:
            yield Violation(f"{cls.__name__}.norm:batch-dependence", f"{cls.__name__}.norm gives a sample different statistics in a batch",
                            {"op": "normfn", "cls": cls.__name__, "shape": [b, c, h, w], "k": k})
        if _rel(x[k], back[k]) > 1e-4:
            yield Violation(f"{cls.__name__}.unnorm:not-inverse", f"{cls.__name__}.unnorm(norm(x)) != x",
                            {"op": "normfn", "cls": cls.__name__, "shape": [b, c, h, w], "k": k})


def replay(rep: dict) -> bool:
    op = rep.get("op")
    if op not in ("batch", "single", "repeat", "perm"):
        return True
    e = next((x for x in Z.zoo(thorough=True) if x.name == rep["entry"]), None)
    if e is None:
        return True
    m = model_of(e)
    h, w, seed = rep["h"], rep["w"], rep["seed"]
    x = _inputs(e, 1, h, w, seed)
    try:
        single = _run(e, m, x)
        if op == "single":
            return False
        if op == "repeat":
            return not torch.equal(single, _run(e, m, x))
        if op == "perm":
            out = _run(e, m, Z.permute_coils(x, rep["perm"]))
            ref = single if e.coil_invariant else single[:, rep["perm"]]
            return _rel(ref, out) > max(e.tol, _PERM_TOL)
        k, pos, sc = rep["batch"], rep["position"], rep["companion_scale"]
        comps = [_inputs(e, 1, h, w, seed + 10 + j, scale=sc) for j in range(k - 1)]
        out = _run(e, m, _cat(e, comps[:pos] + [x] + comps[pos:]))[pos:pos + 1]
        return not (_rel(single, out) <= e.tol)
    except Exception:  # noqa: BLE001
        return True
