"""C17 — every network in the zoo honours its shape contract for all input sizes."""
from __future__ import annotations

import itertools
import os
import warnings

import boot  # noqa: F401
import torch

from core import Ctx, Violation, err_name, ints, line

from . import c17_zoo as X
from . import zoo_common as Z

torch.set_num_threads(1)
warnings.filterwarnings("ignore")

PROP = "C17"
MANIFEST = {
    "text": "Lean 4 theorems for all sizes (2-D and 3-D, any number of levels/scales/blocks) about the FULL shape (batch, channels, "
            "spatial...): spatial shape identity of UnetModel2d/3d (induction on the pooling depth with the pad-by-one lemma), "
            "NormUnet (((n-1)|15)+1 proved to be the least multiple of 16 >= n; pad/unpad inverse), MWCNN (DWT/IWT/reflect-pad/crop), "
            "DIDN/DUB (strided conv, pixel-shuffle, crop), ResNet, Conv2d, Conv2dGRU, combined with a register-machine model of the "
            "channel axis: for ALL widths and depths every convolution sees its in_channels (filters doubling per U-Net level, "
            "transposed conv halving, skip concatenation, DWT x4 / IWT /4, PixelShuffle /4, the c*num_dubs concatenation of DIDN, "
            "residual sums), the output has out_channels, the batch axis is carried to every hook, and the spatial and channel "
            "programs emit at the same hooks. Minimum sizes characterised in closed form for U-Net, NormUnet, 3-D U-Nets (some axis "
            ">= 2^(L+1) after padding), MWCNN, DUB (>= 2), DIDN (>= 3); ResNet/Conv/GRU have none; failure (never a wrong size) proved "
            "below the minimum for U-Net 2-D/3-D, NormUnet 2-D/3-D, MWCNN (success iff every axis admissible), DUB, DIDN, "
            "instance-normalised GRU. Unrolled networks: compositions of shape-preserving blocks; every (argument permute, result permute) pair "
            "around a denoiser call is proved a round trip from a decidable inverse check. Tied to /repo by translated pad/unpad/crop "
            "arithmetic, by spatial AND channel programs read from the AST of every forward on instantiated modules (bridge: equal to "
            "the hand-written parametric programs), by block schedules and permute pairs read from the AST of every unrolled forward, "
            "and by comparing, hook by hook, the full shapes recorded on the real networks with the executed programs.",
    "note": "Trusted: Lean kernel (+propext, Classical.choice, Quot.sound), the AST translators (pad/crop kernels, forward shape "
            "programs, channel programs, schedule scanner), torch's layer shape laws as encoded by convOut/poolOut/convTOut "
            "(validated against torch layers on random hyper-parameters every run, not proved), torch's channel rules as encoded by "
            "the register machine (conv/batch-norm check in_channels, cat adds, + needs equal counts; validated hook by hook), "
            "forward hooks as the observation of the real block structure. 'Finite values' is a run-time check on random inputs, "
            "not a theorem. Conv2dGRU and RIMInit/RecurrentInit channel programs are checked per instance (bridge: the program read "
            "from forward runs, ends with out_channels, leaves no register), not for all widths. MultiDomainUnet2d: channel program mdUnetC (each MultiDomainConv2d = k-space conv and image conv "
            "with out_channels // 2 filters on the same input, concatenated) read from the AST and bridged for 4 width/depth "
            "combinations, mdunet_full_shape / mdunet_channels proved for ALL in/out channels, depths and every EVEN num_filters "
            "(odd num_filters fail: mdunet_odd_filters_fail, instances); the FFT idiom cat([op(t) for t in split(x.permute(0,2,3,1), 2, -1)], "
            "-1).permute(0,3,1,2) is recognised syntactically as channel preserving (operator assumed shape preserving; that it needs an "
            "even in_channels is not modelled). The glue of the unrolled networks between the denoiser calls (FFT, coil sums, buffer concatenations) is "
            "covered through the block schedule, the permute-pair table and the full shapes of every denoiser call, not line by line. "
            "Two known findings (MRIVarSplitNet normunet variants).",
    "technique": "Lean 4 proof (structural induction over shape programs, Hoare-style calculus for the channel register machine, "
                 "omega, decide) + AST translation bridges + hook-trace differential correspondence + exhaustive-size oracle on the "
                 "real zoo (190 entries)",
}
TRUSTED = [
    "Lean 4.33 kernel; axioms ⊆ {propext, Classical.choice, Quot.sound}",
    "harness/translate recipes c17 (pad/unpad/crop/pow2/IWT/GRU kernels, F.pad order and mode tables, pooling literals), "
    "c17_forward (spatial programs), c17_channels (channel programs: token tracking of torch.cat / + operands; the multi-domain "
    "FFT-per-complex-pair idiom is matched on the AST and treated as channel preserving), c17_sched "
    "(block schedules, argument/result permutes)",
    "torch layer shape laws (Conv/ConvTranspose/AvgPool/PixelShuffle/reflect-pad limits) as encoded in Model/Shapes.lean — "
    "compared with real torch layers on random hyper-parameters every run",
    "torch channel rules as encoded in Model/ShapesChan.lean (conv / batch norm require their in_channels, cat adds, element-wise "
    "ops require equal counts, IWT floors, PixelShuffle must divide) — compared hook by hook with the real networks every run",
    "forward hooks on the real modules observe every top-level block output (full shapes)",
    "per-model block schedules of the unrolled networks are READ from each forward (c17_sched) and compared with the hand-written "
    "Shapes.Sched in the bridge and with hooks on the real calls",
]
ASSUMPTIONS = [
    "finite outputs are asserted on seeded random inputs (run-time check, not proof)",
    "layer hyper-parameters are isotropic (same kernel/stride/padding on every spatial axis); the harness refuses otherwise",
    "admissible size = the architecture's own minimum (model-characterised; below it the real network is checked to raise, "
    "every kind of entry, never to return a wrong size)",
    "tiny channel widths (pairwise different where the architecture allows) stand for all widths in the bridge; the theorems are "
    "for all widths",
]
RULE = ("zoo of real networks at tiny widths (every regulariser / initialisation / sharing / call option; building blocks; engine "
        "paths in the thorough tier); sizes: odd, even, prime, non-square, non-power-of-two, 1 along an axis, the architecture "
        "minimum and below it, up to 48 (exhaustive in the thorough tier) and a few above; batch 1..3 (explicit batch 1 vs > 1), "
        "coils 1..5 (explicit single coil), non-contiguous inputs, repeated calls on one instance. non-trivial = an odd or "
        "non-square or non-power-of-two size with some axis >= 2 (or an error case below the minimum); distinct = distinct (entry, "
        "size, batch, coils) / protocol line")

# keys of violations of the property on the CURRENT tree (reported as findings; see the final report)
PENDING_FINDINGS = [
    # listed as `known:` by the lead (not minimal patches); the oracle keeps yielding them
    "MRIVarSplitNet/unet-normunet-sense:raises-RuntimeError",
    "MRIVarSplitNet/normunet-None-zero_filled:nonfinite",
]

_ZOO = None
_MODELS: dict = {}


_THOROUGH = False


def prepare(ctx: Ctx):
    global _THOROUGH, _ZOO
    if ctx.thorough != _THOROUGH:
        _THOROUGH, _ZOO = ctx.thorough, None


def zoo():
    global _ZOO
    if _ZOO is None:
        _ZOO = Z.zoo(thorough=_THOROUGH) + X.extra_zoo(thorough=_THOROUGH)
    return _ZOO


def model_of(e):
    if e.name not in _MODELS:
        _MODELS[e.name] = e.model()
    return _MODELS[e.name]


def _nontrivial(h, w, z=None):
    dims = [d for d in (z, h, w) if d is not None]
    pow2 = all(d & (d - 1) == 0 for d in dims)
    return max(dims) >= 2 and (any(d % 2 for d in dims) or h != w or not pow2)


def _bucket(h, w):
    par = ("odd" if h % 2 else "even") + "x" + ("odd" if w % 2 else "even")
    sq = "square" if h == w else "nonsquare"
    p2 = "pow2" if (h & (h - 1) == 0 and w & (w - 1) == 0) else "nonpow2"
    return f"{par}/{sq}/{p2}"


def _size_sample(rng, e, k, lim=26):
    """stratified sizes for entry e: minimum corner, parity classes, non-square, powers of two, a few random"""
    adm = [(h, w) for h in range(1, lim) for w in range(1, lim) if e.admissible(h, w, 3)]
    if not adm:
        return []
    out = []
    hmin = min(h for h, _ in adm)
    out.append(min(adm))                                   # smallest admissible
    out.append(min(adm, key=lambda t: (t[1], t[0])))
    for ph, pw in ((1, 1), (0, 0), (1, 0), (0, 1)):
        c = [(h, w) for h, w in adm if h % 2 == ph and w % 2 == pw and h != w]
        if c:
            out.append(rng.choice(c))
    c = [(h, w) for h, w in adm if h == w and h % 2]
    if c:
        out.append(rng.choice(c))
    for s in ((16, 16), (17, 16), (15, 17), (16, 24), (8, 8)):
        if s in adm:
            out.append(s)
    while len(out) < k:
        out.append(rng.choice(adm))
    seen, res = set(), []
    for s in out:
        if s not in seen:
            seen.add(s)
            res.append(s)
    return res[:k]


def _run_case(e, m, n, coils, h, w, z, seed, noncontig=False):
    """Run the real network; returns (category, detail).  category: ok | wrong-shape | nonfinite | raises-<Exc>.
    `noncontig`: the inputs are non-contiguous views (a permuted channels-last tensor for the denoisers, spatially transposed
    storage for the reconstruction inputs)."""
    try:
        if noncontig and e.kind in ("den2d", "gru"):
            x = torch.randn((n, h, w, e.in_ch), generator=torch.Generator().manual_seed(seed)).permute(0, 3, 1, 2)
            assert not x.is_contiguous() or min(h, w, e.in_ch) == 1
            out = Z.run_entry(e, m, (x, None) if e.kind == "gru" else x)
        elif noncontig and e.kind == "recon":
            inp = {k: (v.transpose(2, 3) if v.ndim == 5 else v) for k, v in Z.recon_inputs(n, coils, w, h, seed=seed).items()}
            out = Z.run_entry(e, m, inp)
        elif e.kind == "den2d":
            x = torch.randn((n, e.in_ch, h, w), generator=torch.Generator().manual_seed(seed))
            out = Z.run_entry(e, m, x)
        elif e.kind == "den3d":
            x = torch.randn((n, e.in_ch, z, h, w), generator=torch.Generator().manual_seed(seed))
            out = Z.run_entry(e, m, x)
        elif e.kind == "gru":
            x = torch.randn((n, e.in_ch, h, w), generator=torch.Generator().manual_seed(seed))
            out = Z.run_entry(e, m, (x, None))
        else:
            inp = Z.recon_inputs(n, coils, h, w, seed=seed, slices=z if e.kind == "recon3d" else None)
            out = Z.run_entry(e, m, inp)
    except Exception as ex:  # noqa: BLE001
        return "raises-" + err_name(ex), f"{err_name(ex)}: {str(ex)[:160]}"
    exp = Z.expected_shape(e, n, coils, h, w, z)
    if exp is None:
        if not Z.auto_shape_ok(tuple(out.shape), n, coils, h, w, z):
            return "wrong-shape", f"output shape {tuple(out.shape)} is none of the documented image / k-space layouts"
    elif tuple(out.shape) != exp:
        return "wrong-shape", f"output shape {tuple(out.shape)}, documented {exp}"
    if not bool(torch.isfinite(out).all()):
        return "nonfinite", f"{int((~torch.isfinite(out)).sum())} non-finite values of {out.numel()}"
    return "ok", ""


# ------------------------------------------------------------------------------------------------------------------
# correspondence
def _trace_impl(e, m, hooks, h, w, z, n=1, full=False):
    def run():
        torch.manual_seed(0)
        sp = (h, w) if z is None else (z, h, w)
        x = torch.randn((n, e.in_ch) + sp)
        nsp = len(sp)
        with Z.Recorder(hooks) as rec:
            try:
                out = Z.run_entry(e, m, (x, None) if e.kind == "gru" else x)
            except Exception as ex:  # noqa: BLE001
                nm = err_name(ex)
                return "err " + (nm if nm in ("RuntimeError", "ValueError") else "RuntimeError:" + nm)
            if full:
                shapes = [list(o) for _i, o in rec.calls] + [list(out.shape)]
            else:
                shapes = [list(o[-nsp:]) for _i, o in rec.calls] + [list(out.shape[-nsp:])]
        return "ok " + " | ".join(ints(s) for s in shapes)
    return run


def _full_spec(e, m, n):
    """driver op + groups for the FULL-shape trace (batch, channels, spatial…) of a building-block denoiser: the spatial
    hyper-parameters of `Z.trace_spec` plus the widths read from the instantiated layers; None: spatial trace only"""
    from torch import nn

    m = getattr(m, "inner", m) if type(m).__name__ == "CallWith" else m
    op, groups, hooks, _std = Z.trace_spec(e, m)
    fam = e.name.split("/")[0]

    def convs_of(mod):
        return [c for c in mod.modules() if isinstance(c, (nn.Conv2d, nn.Conv3d))]

    def has_bn(mod):
        return int(any(isinstance(c, (nn.BatchNorm2d, nn.BatchNorm3d)) for c in mod.modules()))

    if fam in ("UnetModel2d", "UnetModel3d", "NormUnetModel2d", "NormUnetModel3d"):
        u = getattr(m, "unet2d", None) or getattr(m, "unet3d", None) or m
        cs = convs_of(u)
        ch = [n, cs[0].in_channels, cs[-1].out_channels, cs[0].out_channels]
        if fam.startswith("Norm"):
            return op + "F", [groups[0], groups[1], [m.norm_groups], ch], hooks
        return op + "F", [groups[0], groups[1], ch], hooks
    if fam == "MultiDomainUnet2d":
        first = m.down_sample_layers[0].layers[0]
        return "mdunetF", [groups[0], groups[1], [n, first.image_conv.in_channels, m.up_conv[-1][-1].out_channels, m.num_filters]], hooks
    if fam == "MWCNN":
        cs = convs_of(m.down[0])
        return "mwcnnF", [groups[0], groups[1], [n, cs[0].in_channels, cs[0].out_channels, has_bn(m)]], hooks
    if fam == "DUB":
        return "dubF", [groups[0], groups[1], [n, m.in_channels]], hooks
    if fam == "DIDN":
        return "didnF", [groups[0], groups[1], [n, m.conv_in[0].in_channels, m.conv_out.out_channels, m.down.in_channels]], hooks
    if fam == "ResNet":
        return "resnetF", [groups[0], [n, m.conv_in.in_channels, m.conv_out[-1].out_channels, m.conv_in.out_channels,
                                        has_bn(m.resblocks)]], hooks
    if fam == "Conv2d":
        cs = convs_of(m)
        return "convnetF", [groups[0], [n, cs[0].in_channels, cs[-1].out_channels, cs[0].out_channels]], hooks
    if fam in ("Conv2dGRU", "NormConv2dGRU"):
        g = getattr(m, "convgru", m)
        c0, cl = convs_of(g.conv_blocks[0])[0], convs_of(g.conv_blocks[-1])[0]
        return "gruF", [groups[0], groups[1], [n, c0.in_channels, g.hidden_channels, cl.out_channels]], hooks
    return None


def _kernel_cases(ctx: Ctx):
    from direct.nn.didn.didn import DIDN, DUB
    from direct.nn.mwcnn.mwcnn import DWT, IWT, MWCNN
    from direct.nn.unet.unet_2d import NormUnetModel2d
    from direct.nn.unet.unet_3d import NormUnetModel3d, pad_to_pow_of_2

    rng = ctx.rng

    def guard(fn):
        def run():
            try:
                return fn()
            except Exception as ex:  # noqa: BLE001
                return "err " + err_name(ex)
        return run

    # NormUnetModel2d.pad / unpad (the bit trick): every length 1..70 once, then pairs
    sizes = list(range(1, ctx.budget(50, 130)))
    for n in sizes:
        w = rng.choice(sizes)

        def impl(h=n, w=w):
            out, (h_pad, w_pad, h_mult, w_mult) = NormUnetModel2d.pad(torch.zeros(1, 1, h, w))
            assert tuple(out.shape[-2:]) == (h_mult, w_mult)
            return "ok " + ints([h_mult, w_mult]) + " | " + ints(w_pad + h_pad)
        yield {"line": line("pad16", [n, w]), "impl": guard(impl), "nontrivial": n % 16 != 0, "bucket": "kernel/pad16"}

        def impl2(h=n, w=w):
            x = torch.zeros(1, 1, ((h - 1) | 15) + 1, ((w - 1) | 15) + 1)
            _o, ps = NormUnetModel2d.pad(torch.zeros(1, 1, h, w))
            return "ok " + ints(NormUnetModel2d.unpad(x, *ps).shape[-2:])
        yield {"line": line("unpad16", [n, w], [((n - 1) | 15) + 1, ((w - 1) | 15) + 1]), "impl": guard(impl2),
               "nontrivial": n % 16 != 0, "bucket": "kernel/unpad16"}
    for _ in range(ctx.budget(12, 60)):
        z, h, w = rng.randint(1, 20), rng.randint(1, 40), rng.randint(1, 40)

        def impl3(z=z, h=h, w=w):
            out, (h_pad, w_pad, z_pad, hm, wm, zm) = NormUnetModel3d.pad(torch.zeros(1, 1, z, h, w))
            assert tuple(out.shape[-3:]) == (zm, hm, wm)
            return "ok " + ints([zm, hm, wm]) + " | " + ints(w_pad + h_pad + z_pad)
        yield {"line": line("pad16", [z, h, w]), "impl": guard(impl3), "nontrivial": True, "bucket": "kernel/pad16-3d"}
    # MWCNN.pad / DUB.pad and the three crop_to_shape
    for _ in range(ctx.budget(50, 400)):
        h, w = rng.choice([1, 1, 2, 3, 4, 5, 6, 7, 9, 12]), rng.choice([1, 2, 3, 4, 5, 8, 11])
        fn = rng.choice([MWCNN.pad, DUB.pad])
        yield {"line": line("padeven", [h, w]),
               "impl": guard(lambda fn=fn, h=h, w=w: "ok " + ints(fn(torch.zeros(1, 1, h, w)).shape[-2:])),
               "nontrivial": (h % 2 or w % 2), "bucket": "kernel/padeven" + ("-reject" if (h == 1 or w == 1) else "")}
        th, tw = rng.randint(1, 12), rng.randint(1, 12)
        fn2 = rng.choice([MWCNN.crop_to_shape, DUB.crop_to_shape, DIDN.crop_to_shape])
        yield {"line": line("crop", [th, tw], [h, w]),
               "impl": guard(lambda fn2=fn2, h=h, w=w, th=th, tw=tw: "ok " + ints(fn2(torch.zeros(1, 1, h, w), (th, tw)).shape[-2:])),
               "nontrivial": h > th or w > tw, "bucket": "kernel/crop"}
    # pad_to_pow_of_2
    for _ in range(ctx.budget(30, 200)):
        k = rng.randint(0, 4)
        dims = [rng.randint(1, 20) for _ in range(3)]

        def impl4(k=k, dims=dims):
            out, pad = pad_to_pow_of_2(torch.zeros([1, 1] + dims), k)
            return "ok " + ints(out.shape[2:]) + " | " + ints(pad)
        yield {"line": line("pow2", [k], dims), "impl": guard(impl4), "nontrivial": any(d <= 2 ** k for d in dims), "bucket": "kernel/pow2"}
    # DWT / IWT
    dwt, iwt = DWT(), IWT()
    for _ in range(ctx.budget(24, 120)):
        h, w = rng.randint(1, 14), rng.randint(1, 14)
        yield {"line": line("dwt", [h, w]), "impl": guard(lambda h=h, w=w: "ok " + ints(dwt(torch.zeros(1, 2, h, w)).shape[-2:])),
               "nontrivial": True, "bucket": "kernel/dwt" + ("-reject" if (h % 2 or w % 2) else "")}
        yield {"line": line("iwt", [iwt._r], [h, w]), "impl": guard(lambda h=h, w=w: "ok " + ints(iwt(torch.zeros(1, 4, h, w)).shape[-2:])),
               "nontrivial": True, "bucket": "kernel/iwt"}
    # the trusted layer laws against real torch layers (random hyper-parameters, including rejected ones)
    for _ in range(ctx.budget(80, 600)):
        k, s, p, d = rng.randint(1, 5), rng.randint(1, 3), rng.randint(0, 3), rng.randint(1, 3)
        h, w = rng.randint(1, 12), rng.randint(1, 12)
        conv = torch.nn.Conv2d(1, 1, k, stride=s, padding=p, dilation=d)
        ok = all(n + 2 * p >= d * (k - 1) + 1 for n in (h, w))
        yield {"line": line("conv1", [k, s, p, d], [h, w]),
               "impl": guard(lambda conv=conv, h=h, w=w: "ok " + ints(conv(torch.zeros(1, 1, h, w)).shape[-2:])),
               "nontrivial": True, "bucket": "law/conv" + ("" if ok else "-reject")}
    for _ in range(ctx.budget(30, 200)):
        k, s = rng.randint(1, 4), rng.randint(1, 3)
        p = rng.randint(0, min(1, (k - 1) // 2))
        h, w = rng.randint(1, 9), rng.randint(1, 9)
        ct = torch.nn.ConvTranspose2d(1, 1, k, stride=s, padding=p)
        yield {"line": line("convt1", [k, s, p], [h, w]),
               "impl": guard(lambda ct=ct, h=h, w=w: "ok " + ints(ct(torch.zeros(1, 1, h, w)).shape[-2:])),
               "nontrivial": True, "bucket": "law/convT"}
        k2, s2 = rng.randint(1, 3), rng.randint(1, 3)
        yield {"line": line("pool1", [k2, s2], [h, w]),
               "impl": guard(lambda k2=k2, s2=s2, h=h, w=w: "ok " + ints(
                   torch.nn.functional.avg_pool2d(torch.zeros(1, 1, h, w), kernel_size=k2, stride=s2, padding=0).shape[-2:])),
               "nontrivial": True, "bucket": "law/pool" + ("" if min(h, w) >= k2 else "-reject")}
    # full-shape glue: permute, broadcast, coil_to_batch, group reshape
    perms = [[0, 3, 1, 2], [0, 2, 3, 1], [0, 1, 4, 2, 3], [0, 1, 3, 4, 2], [0, 4, 1, 2, 3], [0, 2, 3, 4, 1]]
    for _ in range(ctx.budget(30, 150)):
        perm = rng.choice(perms)
        shape = [rng.randint(1, 4) for _ in perm]
        yield {"line": line("permute", perm, shape),
               "impl": guard(lambda perm=perm, shape=shape: "ok " + ints(torch.zeros(shape).permute(*perm).shape)),
               "nontrivial": True, "bucket": "glue/permute"}
        n, hh, ww = rng.randint(1, 4), rng.randint(1, 4), rng.randint(1, 4)
        b = rng.choice([[n], [n, 1, 1, 1], [1], [n, 1, 1, 2], [hh, 1, 2]])
        yield {"line": line("broadcast", [n, hh, ww, 2], b),
               "impl": guard(lambda n=n, hh=hh, ww=ww, b=b: "ok " + ints((torch.zeros(n, hh, ww, 2) / torch.ones(b)).shape)),
               "nontrivial": True, "bucket": "glue/broadcast"}
        c = rng.randint(1, 4)

        def impl5(n=n, c=c, hh=hh, ww=ww):
            x = torch.zeros(n, c, hh, ww, 2)
            y = x.reshape(n * c, hh, ww, 2)
            return "ok " + ints(y.shape) + " | " + ints(y.reshape(n, c, hh, ww, -1).shape)
        yield {"line": line("coil2batch", [n, c, hh, ww, 2]), "impl": guard(impl5), "nontrivial": True, "bucket": "glue/coil2batch"}
        g, ch = rng.choice([(2, 2), (2, 4), (2, 5), (2, 6), (3, 2)]), None
        groups, ch = g

        def impl6(groups=groups, ch=ch, hh=hh, ww=ww):
            try:
                torch.zeros(1, ch, hh, ww).reshape(1, groups, -1)
                return "ok 1"
            except RuntimeError:
                return "ok 0"
        yield {"line": line("groupreshape", [groups, ch], [hh, ww]), "impl": impl6, "nontrivial": True, "bucket": "glue/groupreshape"}


def correspondence(ctx: Ctx):
    rng = ctx.rng
    yield from _kernel_cases(ctx)
    # ---- building-block denoisers: hook traces vs shape programs, admissible and inadmissible sizes
    seen_std = set()
    for e in zoo():
        if e.kind not in ("den2d", "den3d", "gru"):
            continue
        m = model_of(e)
        try:
            op, groups, hooks, std = Z.trace_spec(e, getattr(m, "inner", m) if type(m).__name__ == "CallWith" else m)
        except KeyError:
            continue                 # no shape program for this building block (initialisers): oracle only
        if std and std[0] not in seen_std:
            seen_std.add(std[0])
            kind = {"unet": 0, "mwcnn": 1, "didn": 2}[std[0]]
            yield {"line": line("stdparams", [kind], std[1]), "impl": lambda: "ok 1", "nontrivial": True, "bucket": "trace/stdparams"}
        sizes = _size_sample(rng, e, ctx.budget(9, 40))
        small = [(h, w) for h in range(1, 7) for w in range(1, 7)]
        sizes += rng.sample(small, ctx.budget(5, 20))
        # size classes named by the property: 1 along an axis, primes, larger than any size the repo's tests use
        sizes += [(1, rng.choice([7, 12, 33])), (rng.choice([5, 16, 31]), 1), (rng.choice([37, 41, 43, 47]), rng.choice([29, 31, 53])),
                  (rng.choice([64, 75, 97]), rng.choice([50, 66, 81]))]
        for h, w in sizes:
            zs = [None] if e.kind != "den3d" else [rng.choice([1, 2, 3, 5])]
            if e.kind == "den3d" and max(h, w) > 48:
                continue
            for z in zs:
                dims = [h, w] if z is None else [z, h, w]
                adm = e.admissible(h, w, z)
                n = rng.choice([1, 1, 2, 3])
                fs = _full_spec(e, m, n)
                if fs is not None:
                    fop, fgroups, fhooks = fs
                    yield {"line": line(fop, *fgroups, dims), "impl": _trace_impl(e, m, fhooks, h, w, z, n=n, full=True),
                           "nontrivial": _nontrivial(h, w, z) or not adm,
                           "bucket": f"fulltrace/{e.family}/" + ("adm" if adm else "below-min") + ("/batch>1" if n > 1 else "")}
                else:
                    yield {"line": line(op, *groups, dims), "impl": _trace_impl(e, m, hooks, h, w, z),
                           "nontrivial": _nontrivial(h, w, z) or not adm,
                           "bucket": f"trace/{e.family}/" + ("adm" if adm else "below-min")}
    # ---- unrolled networks: denoiser calls seen by hooks vs the block schedule READ FROM THE AST of each forward
    # (Gen.C17.sched_* is the same table; Bridge/C17.lean equates it with the hand-written Shapes.Sched)
    from translate.recipes.c17_sched import io_channels, scan_schedule

    for e in zoo():
        if e.kind not in ("recon", "recon3d") or e.finding:
            continue
        m = model_of(e)
        sch = X.schedule(e, m)
        if sch is None:
            continue
        mods = sch[0]
        try:
            calls = scan_schedule(m, mods)
            chan = {}
            blocks = []
            for mod, dom, _perm in calls:
                if id(mod) not in chan:
                    chan[id(mod)] = io_channels(mod)
                blocks += [dom, *chan[id(mod)]]
        except Exception:  # noqa: BLE001 - unreadable forward: fall back to the hand-written schedule
            _mods, pre, body, iters = sch
            blocks = [v for b in list(pre) + list(body) * iters for v in b]
        if "history" in e.tags:
            blocks = blocks * 2          # the entry calls the model twice (second call continues from the first)
        for h, w in _size_sample(rng, e, ctx.budget(2, 8), lim=20):
            n, coils = rng.randint(1, 3), rng.randint(1, 5)
            z = rng.choice([2, 3]) if e.kind == "recon3d" else None
            sp = [h, w] if z is None else [z, h, w]

            def impl(e=e, m=m, mods=mods, n=n, coils=coils, h=h, w=w, z=z):
                inp = Z.recon_inputs(n, coils, h, w, seed=3, slices=z)
                with Z.Recorder(mods) as rec:
                    Z.run_entry(e, m, inp)
                    return "ok " + " | ".join(ints(s) for c in rec.calls for s in c)
            yield {"line": line("unrolled", [n, coils, 0], sp, blocks, []), "impl": impl,
                   "nontrivial": True, "bucket": f"unrolled/{e.family}"}


# ------------------------------------------------------------------------------------------------------------------
# oracle: the property stated on the real networks
def _violation(e, cat, detail, n, coils, h, w, z, seed):
    what = {"wrong-shape": "returns a shape different from the documented one",
            "nonfinite": "returns non-finite values"}.get(cat, "fails instead of producing an output")
    return Violation(f"{e.name}:{cat}", f"{e.name} {what} for batch={n} coils={coils} size={(z, h, w) if z else (h, w)}: {detail}",
                     {"op": "forward", "entry": e.name, "batch": n, "coils": coils, "h": h, "w": w, "z": z, "seed": seed,
                      "expected_shape": list(Z.expected_shape(e, n, coils, h, w, z) or []), "observed": detail})


def _oracle_entry(e, cases):
    """cases: list of (n, coils, h, w, z, seed); returns list of (case, category, detail)"""
    m = model_of(e)
    return [(c, *_run_case(e, m, *c)) for c in cases]


def _worker(args):
    global _THOROUGH, _ZOO
    name, cases = args
    torch.set_num_threads(1)
    if not _THOROUGH:
        _THOROUGH, _ZOO = True, None
    e = next(x for x in zoo() if x.name == name)
    return name, _oracle_entry(e, cases)


_PRIMES = [2, 3, 5, 7, 11, 13, 17, 19, 23, 29, 31, 37, 41, 43, 47]


def _class_sizes(rng, e, k, big):
    """the size classes the property names, beyond the parity classes of `_size_sample`: 1 along an axis, prime x prime,
    strongly non-square, larger than any size used by the repo's tests (<= 48 is the property's exhaustive range; a few
    sizes above it are cheap and catch anything tied to a table of 'known' sizes)"""
    cands = [(1, rng.choice([2, 9, 16, 31])), (rng.choice([2, 7, 16, 33]), 1), (1, 1),
             (rng.choice(_PRIMES[3:]), rng.choice(_PRIMES[3:])), (rng.choice(_PRIMES), rng.choice(_PRIMES[6:])),
             (rng.choice([3, 4, 5]), rng.choice([40, 45, 48])), (rng.choice([44, 47, 48]), rng.choice([3, 6, 7])),
             (48, 48), (47, 48)]
    if big:
        cands += [(rng.choice([49, 57, 64]), rng.choice([50, 63, 72])), (rng.choice([80, 96, 101]), rng.choice([51, 65, 90]))]
    adm = [s for s in cands if e.admissible(s[0], s[1], 3)]
    rng.shuffle(adm)
    # always keep a size-1 axis and a prime pair when the architecture admits them
    first = [s for s in adm if 1 in s][:1] + [s for s in adm if s[0] in _PRIMES[3:] and s[1] in _PRIMES[3:]][:1]
    out = []
    for s in first + adm:
        if s not in out:
            out.append(s)
    return out[:k]


def _cases_for(ctx, e, deep):
    rng = ctx.rng
    cases = []
    if ctx.thorough or deep:
        lim = 49
        if e.kind in ("den2d", "gru"):
            sizes = [(h, w) for h in range(1, lim) for w in range(1, lim) if e.admissible(h, w)]
            if e.family == "multidomainnet":
                sizes = [s for s in sizes if (s[0] + s[1]) % 3 == 0 or min(s) <= 6]      # budget (FFT in every conv): every third diagonal
        else:
            sizes = _size_sample(rng, e, 400 if e.kind == "recon" else 150, lim=49)
        sizes = sizes + _class_sizes(rng, e, 11, big=e.kind != "recon3d")
    else:
        sizes = _size_sample(rng, e, 8 if e.kind in ("den2d", "gru") else 5)
        sizes = sizes + [s for s in _class_sizes(rng, e, 3 if e.kind in ("den2d", "gru") else 2,
                                                 big=e.kind in ("den2d", "gru")) if s not in sizes]
    for i, (h, w) in enumerate(sizes):
        z = None
        if e.kind in ("den3d", "recon3d"):
            z = rng.choice([1, 2, 3, 5])
            if max(h, w) > 48:
                continue
            if not e.admissible(h, w, z):
                continue
        cases.append((1 + i % 3, 1 + (i * 7 + h) % 5, h, w, z, rng.randrange(2 ** 20)))
    # batch 1 vs > 1 and a single coil, explicitly (the sensitivity refinement of the engines is skipped for one coil; coil
    # reductions degenerate; `squeeze`-like bugs show only for batch 1)
    if sizes and e.kind in ("recon", "recon3d"):
        h, w = sizes[0] if len(sizes) < 3 else sizes[2]
        z = rng.choice([2, 3]) if e.kind == "recon3d" else None
        if e.admissible(h, w, z) and max(h, w) <= 48:
            for n, coils in ((1, 1), (3, 1), (1, 5)):
                cases.append((n, coils, h, w, z, rng.randrange(2 ** 20)))
    return cases


def oracle(ctx: Ctx, deep: bool = False):
    work = [(e, _cases_for(ctx, e, deep)) for e in zoo()]
    results = []
    if (ctx.thorough or deep) and os.cpu_count() and os.cpu_count() > 2:
        import multiprocessing as mp
        from concurrent.futures import ProcessPoolExecutor

        # split big entries into chunks so that the pool is balanced
        jobs = []
        for e, cases in work:
            for i in range(0, len(cases), 300):
                jobs.append((e.name, cases[i:i + 300]))
        with ProcessPoolExecutor(max_workers=min(12, os.cpu_count()), mp_context=mp.get_context("spawn")) as ex:
            for name, res in ex.map(_worker, jobs):
                results.append((next(x for x in zoo() if x.name == name), res))
    else:
        for e, cases in work:
            results.append((e, _oracle_entry(e, cases)))
    for e, res in results:
        for (n, coils, h, w, z, seed), cat, detail in res:
            ctx.count((e.name, n, coils, h, w, z), _nontrivial(h, w, z),
                      sample={"entry": e.name, "batch": n, "coils": coils, "size": [z, h, w] if z else [h, w], "result": cat},
                      bucket=f"oracle/{e.kind}/" + _bucket(h, w))
            if cat != "ok":
                yield _violation(e, cat, detail, n, coils, h, w, z, seed)
    # argument forms: non-contiguous inputs (views produced by permute / transpose, as the unrolled networks hand them on)
    for e in zoo():
        if e.finding or e.kind in ("den3d", "recon3d"):
            continue
        size = next((s for s in ((7, 10), (9, 12), (17, 20), (33, 36)) if e.admissible(*s)), None)
        if size is None:
            continue
        h, w = size
        n, coils = ctx.rng.choice([1, 2]), ctx.rng.choice([1, 3])
        cat, detail = _run_case(e, model_of(e), n, coils, h, w, None, 5, noncontig=True)
        ctx.count((e.name, "noncontig", n, coils, h, w), True, bucket=f"oracle/forms/noncontiguous/{e.kind}")
        if cat != "ok":
            v = _violation(e, cat, "non-contiguous input: " + detail, n, coils, h, w, None, 5)
            v.replay["noncontig"] = True
            yield v
    # below the minimum the networks must fail loudly (never a wrong size): every kind, small sizes
    for e in zoo():
        if e.finding:
            continue
        m = model_of(e)
        if e.kind in ("den2d", "gru"):
            grid = [(h, w, None) for h, w in itertools.product(range(1, 6), repeat=2)]
        elif e.kind == "den3d":
            grid = [(h, w, z) for z, h, w in itertools.product((1, 2, 4, 7), (1, 3, 4, 7), (1, 2, 5, 7))]
        elif ctx.thorough or deep:
            grid = [(h, w, 2 if e.kind == "recon3d" else None) for h, w in itertools.product(range(1, 6), repeat=2)]
        else:
            grid = [(h, w, 2 if e.kind == "recon3d" else None) for h, w in ((1, 1), (1, 4), (2, 2), (3, 2))]
        for h, w, z in grid:
            if e.admissible(h, w, z):
                continue
            cat, detail = _run_case(e, m, 2 if e.kind in ("recon", "recon3d") else 1, 2, h, w, z, 0)
            ctx.count((e.name, "below", h, w, z), True, bucket=f"oracle/below-min/{e.kind}")
            if cat in ("wrong-shape",):
                yield _violation(e, cat, "below the architecture minimum: " + detail, 1, 2, h, w, z, 0)


def replay(rep: dict) -> bool:
    if rep.get("op") != "forward":
        return True
    e = next((x for x in Z.zoo(thorough=True) + X.extra_zoo(thorough=True) if x.name == rep["entry"]), None)
    if e is None:
        return True
    cat, _detail = _run_case(e, model_of(e), rep["batch"], rep["coils"], rep["h"], rep["w"], rep.get("z"), rep.get("seed", 0),
                             noncontig=bool(rep.get("noncontig")))
    return cat != "ok"
