"""C07 — the realised sampling budget matches the requested acceleration."""
from __future__ import annotations

import math
from fractions import Fraction

from core import Ctx, Violation, line
from props import rng_common as RC

PROP = "C07"
MANIFEST = {
    "text": "Lean 4 theorems over exact rationals about the count formulas as coded. Random: L + (N-L)*prob = N/R, prob in [0,1] when "
            "feasible, count = #ACS + #(non-ACS columns with u < prob) for every draw vector and every frame of a dynamic / multislice "
            "call, and the expectation as a theorem under an explicit finite-uniform draw model (average over ALL k^N grid draw "
            "vectors = L + (N-L)*ceil(prob*k)/k: within (N-L)/k of N/R, exactly N/R when prob*k is whole). Gaussian 1-D/2-D: the "
            "rejection loop adds exactly k+1 new cells on every candidate stream on which it returns, so with "
            "k = round_half_even(N/R - #ACS - 1) the count is within 1/2 sample of N/R when #ACS + 1/2 <= N/R and equals #ACS "
            "otherwise - at EVERY step of a one-process call history (history_budget), given that the arrays handed to the in-place "
            "kernels are freshly bound and the module keeps no memo / mutable default / container (generated tables, decided). "
            "VD-Poisson: whenever the bisection returns, |R_actual - R| < tol for every sequence of kernel results, for the "
            "RETURNED mask (post table), with the slope interval inside the model: any midpoint function (binary64 midpoint in "
            "the driver), interval refinement of the flag model, probed slopes inside the configured `slopes`, exact halving, "
            "raising only as a binary64 effect. Equispaced: adjusted-acceleration algebra, grid size, rounded grid strictly "
            "increasing, count = #ACS + #(grid points outside the ACS block), |count - N/R| <= 2 for all N, L, R >= 2, offset "
            "(attained); at exact ties the model takes the tie directions as inputs (equal to the exact model with half-even "
            "choices, irrelevant away from ties). Magic (offset) masks: exact count formula in (N, #ACS, integer step, offset) and "
            "the bracket |count - #ACS - (N-#ACS)/step| <= 2 + 2/step; deviation from N/R by design is a witness theorem. CIRCUS: "
            "at most M cells per nested square, <= rows*cols/acceleration on even squares (one-sided). choose_acceleration pairs "
            "acceleration and centre fraction by the same drawn index for every generator and rejects uniform_range. Tied to the "
            "code by translated rational / integer expressions (bridge lemmas), generated structure tables (Magic frame loop, "
            "bisection update / initial interval / option use, post statements, .pyx loops, choose_acceleration, process state, "
            "kernel arrays) and exact differential correspondence on recorded draws, replayed libc candidate streams, traced "
            "accelerations, slopes and pick counts.",
    "note": "Judged on the implementation: Gaussian <= 1 sample, equispaced <= 2 columns (sampled + every offset enumerated on "
            "N = 32..400, R in {2..12, 2.5, 5.5}), VD-Poisson < tol (options tol / crop_corner / slopes / max_attempts; "
            "max_attempts forwarding), random masks 6 sigma per frame in static / dynamic / multislice mode, Magic against its own "
            "step formula and comb bracket (not against N/R), CIRCUS against its pick budget (not against N/R), every step of "
            "one-process call histories, argument forms of `shape`, CreateSamplingMask / apply_mask call sites, unseeded calls. "
            "Kt generators are reported per frame and per volume, not judged (nothing numeric is documented). Known finding: "
            "_poisson.pyx active-list overrun (crash or spin) for max_attempts > 10. The bound 2 for equispaced needs R >= 2 "
            "(for 1 < R < 2, outside the property's range, N/R - 2 - 1/(2a) <= count < N/R + 2). Partial: the statement about "
            "numpy itself (that `uniform` realises the finite-uniform grid model) is an assumption, checked statistically; "
            "binary64 rounding of the bisection midpoint is an executable model validated against every traced slope, not a "
            "theorem about IEEE arithmetic; the Gaussian statements are conditional on the loop returning (C04).",
    "technique": "Lean 4 proof (field arithmetic, list/counting inductions, half-even rounding lemmas, finite averaging over all "
                 "draw vectors) + AST translation bridge + differential correspondence on recorded draw logs and call histories + "
                 "exhaustive enumeration + statistical test",
}
TRUSTED = [
    "Lean 4.33 kernel; axioms ⊆ {propext, Classical.choice, Quot.sound}",
    "harness/translate/recipes/c07.py (rational / integer expressions, .pyx loop text, bisection / Magic / process-state tables)",
    "recording / forcing RandomState subclass; libc srand/rand + Box-Muller replica through ctypes (candidate streams); "
    "sys.settrace observation of actual_acceleration / slope / M",
    "float64 evaluation of the budget expressions agrees with exact rational evaluation away from exact ties; at exact ties of the "
    "equispaced grid the harness (exact Fractions) only chooses between the two candidate columns the real mask shows",
    "ref_acs: the centre region of a request from first principles (documented formulas) used to judge call-history steps",
    "numpy uniform realises independent uniform draws on the 53-bit grid (only for the statement about random masks)",
    "the opaque kernels (_poisson geometry, candidate distribution) enter only through recorded results",
]
ASSUMPTIONS = [
    "accelerations used for exact correspondence are integers or dyadic rationals (2.5, 5.5, 3.25, 7.75, 10.5)",
    "Gaussian loop: statements are conditional on the loop returning (termination is C04's concern)",
    "VD-Poisson: the model compares the exact rational value of the double `rows*cols/count` the code computes with the "
    "exact values of the doubles R and tol (float subtraction of nearby doubles is exact); the binary64 midpoint model `rnd53` "
    "ignores the exponent range (slopes lie between 2^-60 and 2^10)",
    "equispaced: tie-fragile configurations with an adjusted acceleration below 2 (R < 2, outside the quantifier) are checked by the "
    "oracle bound only",
    "CIRCUS: the traced M may be one below the exact floor when the exact quotient is a whole number (binary64 division)",
]
RULE = ("one case = one frame of one real mask (or one (N, R, L) triple with all its offsets for the enumeration, one step of a "
        "one-process call history, one argument form / call site): widths 32..400, 2-D sizes up to 128x128, accelerations 2..12 "
        "incl. non-integers, feasible centre fractions (+ an infeasible stream the code must reject or answer with the bare ACS), "
        "modes static/dynamic/multislice, several (acceleration, centre fraction) pairs per instance, several seeds. non-trivial = "
        "the frame samples at least one column/cell outside the ACS (or the case is an expected rejection); distinct = distinct "
        "protocol line")
# the Cython kernel `_poisson` overruns its active list (size nx*ny, boundscheck off) when the sampling radius is ~1 and
# max_attempts is large: segmentation fault instead of a mask or a ValueError (reported to the lead; C04 territory)
PENDING_FINDINGS: list[str] = ["generator-crashes/VariableDensityPoisson/active-list-overrun"]   # listed as known: by the lead
MOD = "props.c07"
# property-level theorems kept in their own modules (fast builds) + the helper lemmas: hygiene-checked and axiom-audited too
EXTRA_LEAN_MODULES = ["DirectVerif.Lemmas.C07", "DirectVerif.Lemmas.C07Equi", "DirectVerif.Lemmas.C07Magic",
                      "DirectVerif.Lemmas.C07Bisect", "DirectVerif.Lemmas.C07Random", "DirectVerif.Lemmas.C07RandomProps", "DirectVerif.Lemmas.C07State", "DirectVerif.Lemmas.C07Ties",
                      "DirectVerif.Lemmas.C07Circus"]
DYADIC_R = [2.5, 5.5, 3.25, 7.75, 10.5]
ENUM_R = [2, 3, 4, 5, 6, 7, 8, 9, 10, 11, 12, 2.5, 5.5]
ENUM_CF = [0.02, 0.04, 0.06, 0.08]


def frac(x) -> Fraction:
    return Fraction(*float(x).as_integer_ratio())


def rnd_half_even(q: Fraction) -> int:
    f = math.floor(q)
    r = q - f
    if r < Fraction(1, 2):
        return f
    if r > Fraction(1, 2):
        return f + 1
    return f if f % 2 == 0 else f + 1


def is_dyadic(q: Fraction) -> bool:
    d = q.denominator
    return d & (d - 1) == 0


def equi_fragile(N: int, L: int, R: Fraction, off: int | None = None) -> bool:
    """float evaluation may legitimately differ from the exact one: non-dyadic step with an exact tie"""
    den = L * R - N
    if den == 0:
        return False
    a = R * (L - N) / den
    if a <= 0 or is_dyadic(a):
        return False
    offs = range(max(rnd_half_even(a), 0)) if off is None else [off]
    for o in offs:
        qlen = (N - 1 - o) / a
        if qlen.denominator == 1:
            return True
        m = max(math.ceil(qlen), 0)
        for j in range(m):
            if (2 * (o + j * a)).denominator == 1 and (o + j * a).denominator != 1:
                return True
    return False


def equi_tie_inputs(N: int, L: int, R: Fraction, off: int, sampled: set[int]) -> tuple[list[int], int, int] | None:
    """for a tie-fragile configuration: which exact ties the code rounded up and whether its grid got one more point, read
    off the real mask (`sampled` = sampled columns).  Exact rational arithmetic; only decides between the two candidate
    columns of an exact half-integer grid point (the model ignores the answer everywhere else)."""
    den = L * R - N
    if den == 0:
        return None
    a = R * (L - N) / den
    if a < 2:
        return None          # neighbours could hit a tie's candidate columns: outside the property's range (R >= 2)
    pad = (N - L + 1) // 2
    in_acs = lambda c: pad <= c < pad + L  # noqa: E731
    qlen = (N - 1 - off) / a
    m = max(math.ceil(qlen), 0)
    ups, nties = [], 0
    for j in range(m):
        x = off + j * a
        if x.denominator == 2:
            nties += 1
            k = math.floor(x)
            lo_s, hi_s = k in sampled, (k + 1) in sampled
            if hi_s and (not lo_s or (in_acs(k) and not in_acs(k + 1))):
                ups.append(j)
    extra = 1 if (qlen.denominator == 1 and (N - 1) in sampled and not in_acs(N - 1)) else 0
    return ups, extra, nties


# =================================================================================================
# worker side
def _libc():
    import ctypes

    lib = ctypes.CDLL("libc.so.6")
    lib.rand.restype = ctypes.c_int
    lib.srand.argtypes = [ctypes.c_uint]
    return lib


RAND_MAX = 2147483647


def _cands_1d(seed: int, k: int, n: int, center: int, std: float, mask0: list[int]):
    """replay the libc stream of gaussian_mask_1d: the candidate columns it consumed"""
    lib = _libc()
    lib.srand(seed & 0xFFFFFFFF)
    mask = list(mask0)
    cands, count = [], 0
    while count <= k and len(cands) < 2_000_000:
        u1 = float(lib.rand()) / RAND_MAX
        r = math.sqrt(-2 * math.log(u1)) if u1 > 0 else float("inf")
        theta = 2 * math.pi * (float(lib.rand()) / RAND_MAX)
        x = center + r * math.cos(theta) * std
        ind = int(x) if math.isfinite(x) and abs(x) < 2 ** 31 else -1
        cands.append(ind)
        if 0 <= ind < n and mask[ind] != 1:
            mask[ind] = 1
            count += 1
    return cands


def _cands_2d(seed: int, k: int, nrow: int, ncol: int, cx: int, cy: int, sx: float, sy: float, mask0):
    lib = _libc()
    lib.srand(seed & 0xFFFFFFFF)
    mask = [list(r) for r in mask0]
    cands, count = [], 0
    while count <= k and len(cands) < 4_000_000:
        u1 = float(lib.rand()) / RAND_MAX
        r = math.sqrt(-2 * math.log(u1)) if u1 > 0 else float("inf")
        theta = 2 * math.pi * (float(lib.rand()) / RAND_MAX)
        x = cx + r * math.cos(theta) * sx
        y = cy + r * math.sin(theta) * sy
        ix = int(x) if math.isfinite(x) and abs(x) < 2 ** 31 else -1
        iy = int(y) if math.isfinite(y) and abs(y) < 2 ** 31 else -1
        cands += [ix, iy]
        if 0 <= ix < nrow and 0 <= iy < ncol and mask[ix][iy] != 1:
            mask[ix][iy] = 1
            count += 1
    return cands


def _frames(arr, conf, shape):
    """(frames, rows, cols) boolean array of a returned mask"""
    rows, cols = shape[-3], shape[-2]
    dyn = conf.get("mode", "static") != "static" or conf["gen"] in RC.KT
    f = shape[-4] if dyn else 1
    return arr.reshape(f, rows, cols)


def ref_acs(conf: dict, shape, cf) -> dict | None:
    """the ACS region of a request from first principles (independent of anything the process under test has cached):
    line generators: `num_low_freqs` centre columns at pad = (N - L + 1) // 2; 2-D generators: the centred disc of
    radius int(sqrt(rows * cols * cf / pi)).  The float glue is the documented formula."""
    gen = conf["gen"]
    rows, cols = shape[-3], shape[-2]
    dyn = conf.get("mode", "static") != "static" or gen in RC.KT
    F = shape[-4] if dyn else 1
    if gen in ("Gaussian2D", "VariableDensityPoisson"):
        radius = int(math.sqrt(rows * cols * cf / math.pi))
        cx, cy = rows // 2, cols // 2
        bits = [1 if (x - cx) ** 2 + (y - cy) ** 2 < radius ** 2 else 0 for x in range(rows) for y in range(cols)]
        return {"acs_count": [sum(bits)] * F, "acs_row": [bits[:cols]] * F, "acs_bits": [bits] * F}
    if gen in ("FastMRIRandom", "CartesianRandom", "FastMRIEquispaced", "CartesianEquispaced", "Gaussian1D"):
        L = int(round(cols * cf)) if (cf < 1.0 or gen == "Gaussian1D") else int(cf)
        pad = (cols - L + 1) // 2
        row = [1 if pad <= i < pad + L else 0 for i in range(cols)]
        return {"acs_count": [sum(row) * rows] * F, "acs_row": [row] * F}
    return None


def job_case(args: dict) -> dict:
    """one real call (plus the return_acs call for the ACS) with everything the model needs"""
    return _one_case(RC.build(args["conf"]), args["conf"], args["shape"], args["seed"])


def job_history(args: dict) -> list:
    """a call history inside THIS process: several generator objects (same and different classes, fresh and reused)
    created and called in sequence, sharing k-space sizes and centre fractions.  Mask steps are recorded like `job_case`
    but with the ACS region from first principles (`acs_ref`), so that nothing the process may have cached or overwritten
    can vouch for itself; ACS steps record what `return_acs=True` answers at that point of the history."""
    insts: dict = {}
    out = []
    for st in args["steps"]:
        conf, shape, seed = st["conf"], st["shape"], st["seed"]
        key = st.get("inst")
        if key is None or key not in insts:
            mf = RC.build(conf)
            if key is not None:
                insts[key] = mf
        else:
            mf = insts[key]
        if st["kind"] == "acs":
            r = RC.run_call(mf, shape, True, seed)
            rec = {"err": r["err"]}
            if r["err"] is None:
                rec["count"] = [int(x.sum()) for x in _frames(r.pop("_array"), conf, shape)]
            out.append(rec)
        else:
            out.append(_one_case(mf, conf, shape, seed, acs_ref=st["acs_ref"]))
    return out


def _one_case(mf, conf: dict, shape, seed, acs_ref: dict | None = None) -> dict:
    import numpy as np

    rows, cols = shape[-3], shape[-2]
    if acs_ref is not None:
        acs = {"err": None}
        out = dict(acs_ref, acs_err=None)
    else:
        acs = RC.run_call(mf, shape, True, seed)
        out = {"acs_err": acs["err"]}
    if acs["err"] is None and acs_ref is None:
        a = _frames(acs.pop("_array"), conf, shape)
        out["acs_count"] = [int(x.sum()) for x in a]
        out["acs_row"] = [[int(v) for v in x[0]] for x in a]
        if conf["gen"] in RC.TWO_D:
            out["acs_bits"] = [[int(v) for v in x.reshape(-1)] for x in a]
    if len(conf["accelerations"]) > 1 and not conf.get("kwargs", {}).get("uniform_range"):
        # what each configured pair alone gives as ACS: single-pair instances of the same generator (real code, no glue)
        out["pair_L"] = []
        for a_i, c_i in zip(conf["accelerations"], conf["center_fractions"]):
            one = RC.run_call(RC.build(dict(conf, accelerations=[a_i], center_fractions=[c_i])), shape, True, seed)
            if one["err"] is not None:
                out["pair_L"].append(-1)
                continue
            arr = _frames(one.pop("_array"), conf, shape)
            out["pair_L"].append(int(arr[0].sum()) if conf["gen"] in RC.TWO_D else int(arr[0].sum()) // rows)
    pframes = []      # one record per `poisson` invocation (= per frame): accelerations the tolerance test saw, returned count
    if conf["gen"] == "VariableDensityPoisson":
        import sys

        pcode = mf.poisson.__func__.__code__

        def tracer(frame, event, arg):
            if event == "call" and frame.f_code is pcode:
                rec = {"tested": [], "slopes": [], "ret": None, "last": None}
                pframes.append(rec)

                def local(frame, event, arg):
                    v = frame.f_locals.get("actual_acceleration")
                    if v is not None and v is not rec["last"]:
                        rec["last"] = v
                        rec["tested"].append(float(v))
                        rec["slopes"].append(float(frame.f_locals.get("slope", float("nan"))))
                    if event == "return" and arg is not None:
                        rec["ret"] = int(np.asarray(arg).sum())      # the mask the caller gets
                    return local

                return local
            return None

        sys.settrace(tracer)
    circus_m: list = []
    if conf["gen"] in ("Radial", "Spiral"):
        import sys

        ccodes = {mf.circus_radial_mask.__func__.__code__, mf.circus_spiral_mask.__func__.__code__}

        def ctracer(frame, event, arg):
            if event == "call" and frame.f_code in ccodes:
                def local(frame, event, arg):
                    if event == "return":
                        circus_m.append(int(frame.f_locals.get("M", -1)))
                    return local
                return local
            return None

        sys.settrace(ctracer)
    try:
        r = RC.run_call(mf, shape, False, seed, keep_values=True)
    finally:
        if conf["gen"] in ("VariableDensityPoisson", "Radial", "Spiral"):
            sys.settrace(None)
    out["circus_M"] = circus_m
    for rec in pframes:
        rec.pop("last", None)
    out["err"] = r["err"]
    out["errmsg"] = r.get("errmsg")
    out["log"] = [{k: e.get(k) for k in ("kind", "method", "value", "name", "seed", "ints", "func", "lineno", "req")} for e in r["log"]]
    out["poisson_frames"] = pframes
    if r["err"] is None:
        m = _frames(r.pop("_array"), conf, shape)
        out["count"] = [int(x.sum()) for x in m]
        out["row"] = [[int(v) for v in x[0]] for x in m]
        out["rows_identical"] = bool((m == m[:, :1, :]).all())
        if conf["gen"] in RC.TWO_D:
            out["bits"] = [[int(v) for v in x.reshape(-1)] for x in m] if rows * cols <= 4096 else None
    # candidate streams of the Gaussian kernels
    kern = [e for e in r["log"] if e["kind"] == "kernel"]
    if conf["gen"] == "Gaussian1D" and acs["err"] is None and r["err"] is None:
        out["cands"] = []
        for f, e in enumerate(kern):
            k, n, center = e["ints"][0], e["ints"][1], e["ints"][2]
            out["cands"].append(_cands_1d(e["seed"], k, n, center, 6 * math.sqrt(cols // 2),
                                          out["acs_row"][min(f, len(out["acs_row"]) - 1)]))
    if conf["gen"] == "Gaussian2D" and acs["err"] is None and r["err"] is None:
        out["cands"] = []
        for f, e in enumerate(kern):
            k = e["ints"][0]
            a2 = np.array(out["acs_bits"][min(f, len(out["acs_bits"]) - 1)]).reshape(rows, cols).tolist()
            out["cands"].append(_cands_2d(e["seed"], k, rows, cols, rows // 2, cols // 2, 6 * math.sqrt(rows // 2),
                                          6 * math.sqrt(cols // 2), a2))
    return out


def job_forms(args: dict) -> dict:
    """the same seeded call through every way the repository reaches a generator: argument forms of `shape` (tuple, list,
    numpy array as `apply_mask` builds it, torch.Size, extra leading axes), `CreateSamplingMask` (shape from the k-space,
    seed from the file name, fixed / partly fixed shapes), `apply_mask` (mask function form), and an unseeded call"""
    import numpy as np
    import torch
    from direct.data import transforms as T
    from direct.data.mri_transforms import CreateSamplingMask

    conf, shape, seed = args["conf"], tuple(args["shape"]), args["seed"]
    rows, cols = shape[-3], shape[-2]
    mf = RC.build(conf)
    out = {"forms": {}, "err": None}

    def frames(m):
        return [int(x) for x in _frames(np.asarray(m), conf, shape).reshape(-1, rows * cols).sum(1)]

    try:
        base = mf(shape, seed=seed)
    except Exception as e:  # noqa: BLE001
        out["err"] = type(e).__name__
        return out
    out["base"] = frames(base)
    out["acs"] = frames(mf(shape, return_acs=True, seed=seed))

    def same(name, thunk, expect=None):
        try:
            m = thunk()
            ref = base if expect is None else expect
            ok = m.numel() == ref.numel() and bool((m.reshape(ref.shape) == ref).all()) and m.dtype == ref.dtype
            out["forms"][name] = {"same": ok, "counts": frames(m) if m.numel() == base.numel() else None, "shape": list(m.shape)}
        except Exception as e:  # noqa: BLE001
            out["forms"][name] = {"err": f"{type(e).__name__}: {e}"[:160]}

    same("list", lambda: mf(list(shape), seed=seed))
    same("ndarray", lambda: mf(np.array(shape), seed=seed))
    same("torch.Size", lambda: mf(torch.Size(shape), seed=seed))
    same("keyword", lambda: mf(shape=shape, seed=seed, return_acs=False))

    def after_history():
        # a fresh instance that first served another width / another seed / an ACS request must answer the same
        m2 = RC.build(conf)
        other = shape[:-2] + (cols + 7, 2)
        for sh, sd, acs in ((other, seed + 1, False), (other, seed + 2, True), (shape, seed + 3, False)):
            try:
                m2(sh, return_acs=acs, seed=sd)
            except Exception:  # noqa: BLE001 - an infeasible neighbour request is not the point here
                pass
        return m2(shape, seed=seed)

    same("after-history", after_history)
    if conf["gen"] not in RC.KT:
        same("leading-axes", lambda: mf((2, 3) + shape, seed=seed))
    # call sites
    fname = "file_%d.h5" % (seed % 1000)
    fseed = tuple(map(ord, fname))
    ks = torch.ones((3,) + shape)
    try:
        ref = mf(shape, seed=fseed)
    except Exception as e:  # noqa: BLE001 - e.g. VD-Poisson's documented "cannot generate mask" for this seed: nothing to compare
        ref = None
        out["skipped"] = f"CreateSamplingMask forms: reference call raises {type(e).__name__}"
    if ref is not None:
        same("CreateSamplingMask", lambda: CreateSamplingMask(mf, use_seed=True)({"kspace": ks, "filename": fname})["sampling_mask"], ref)
        same("CreateSamplingMask/fixed-shape",
             lambda: CreateSamplingMask(mf, shape=shape[:-1], use_seed=True)({"kspace": ks[..., :1, :], "filename": fname})["sampling_mask"], ref)
        same("CreateSamplingMask/none-entries",
             lambda: CreateSamplingMask(mf, shape=tuple(None if i % 2 else v for i, v in enumerate(shape[:-1])), use_seed=True)(
                 {"kspace": ks, "filename": fname})["sampling_mask"], ref)
        same("CreateSamplingMask/acs+mask",
             lambda: CreateSamplingMask(mf, use_seed=True, return_acs=True)({"kspace": ks, "filename": fname})["sampling_mask"], ref)
    same("apply_mask", lambda: T.apply_mask(ks, mf, seed=seed)[1])
    try:
        mk = T.apply_mask(ks, mf, seed=seed, return_mask=False)
        nz = (mk != 0).all(-1).all(0)          # coil- and complex-wise: a position is kept or dropped as a whole
        out["forms"]["apply_mask/kept"] = {"same": bool((nz == base[0, ..., 0].expand(nz.shape)).all()),
                                           "counts": frames(nz), "shape": list(nz.shape)}
    except Exception as e:  # noqa: BLE001
        out["forms"]["apply_mask/kept"] = {"err": f"{type(e).__name__}: {e}"[:160]}
    # unseeded: budget only
    try:
        out["unseeded"] = frames(mf(shape))
    except Exception as e:  # noqa: BLE001
        out["unseeded_err"] = type(e).__name__
    return out


def job_equi_enum(args: dict) -> list:
    """every offset of every (N, R, cf) of the chunk on the real generator (offset forced through the rng)"""
    import numpy as np

    class Forced(np.random.RandomState):
        off = 0

        def randint(self, low, high=None, *a, **k):
            v = super().randint(low, high, *a, **k)
            if high is not None and high > 1 and low == 0:
                return self.off
            return v

    res = []
    for (gen, R, cf) in args["pairs"]:
        mf = RC.build({"gen": gen, "accelerations": [R], "center_fractions": [cf], "mode": "static"})
        frc = Forced()
        mf.rng = frc
        for N in args["widths"]:
            shape = (1, N, 2)
            try:
                L = int(mf(shape, return_acs=True, seed=0).sum())
            except Exception as e:  # noqa: BLE001
                res.append({"gen": gen, "R": R, "cf": cf, "N": N, "err": type(e).__name__})
                continue
            Rq = Fraction(*float(R).as_integer_ratio())
            den = L * Rq - N
            if den == 0:
                bound = None
            else:
                bound = rnd_half_even(Rq * (L - N) / den)
            counts, err, rows_out = [], None, []
            fragile = bound is not None and bound > 0 and equi_fragile(N, L, Rq)
            if bound is None or bound <= 0:
                try:
                    mf(shape, seed=0)
                    err = "no-error"
                except Exception as e:  # noqa: BLE001
                    err = type(e).__name__
            else:
                for off in range(bound):
                    frc.off = off
                    try:
                        mk = mf(shape, seed=0)
                        counts.append(int(mk.sum()))
                        if fragile:
                            rows_out.append([int(i) for i in np.flatnonzero(mk.reshape(-1).numpy())])
                    except Exception as e:  # noqa: BLE001
                        err = type(e).__name__
                        break
            res.append({"gen": gen, "R": R, "cf": cf, "N": N, "L": L, "counts": counts, "err": err,
                        "rows": rows_out if fragile else None})
    return res


def job_random_stats(args: dict) -> dict:
    """per-frame sums of the sampled-column count over many seeds (every frame of a dynamic / multislice call is its own
    Bernoulli experiment)"""
    import numpy as np

    conf = args["conf"]
    mf = RC.build(conf)
    shape = tuple(args["shape"])
    rows = shape[-3]
    L = int(_frames(np.asarray(mf(shape, return_acs=True, seed=0)), conf, shape)[0].sum()) // rows
    F = shape[-4] if conf.get("mode", "static") != "static" else 1
    tot, tot2 = [0] * F, [0] * F
    for s_ in args["seeds"]:
        fr = _frames(np.asarray(mf(shape, seed=s_)), conf, shape)
        for f in range(F):
            c = int(fr[f].sum()) // rows
            tot[f] += c
            tot2[f] += c * c
    return {"L": L, "n": len(args["seeds"]), "sum": tot, "sumsq": tot2}


# =================================================================================================
# parent side: case generation
def _R(rng, allow_dyadic=True):
    return rng.choice(DYADIC_R) if allow_dyadic and rng.random() < 0.25 else rng.randint(2, 12)


def _cf_for(R, rng, two_d=False):
    # feasible centre fraction: cf * R < 1 with some margin
    top = 0.8 / float(R)
    return round(rng.uniform(0.15 * top, top), 3)


def gen_cases(ctx: Ctx) -> list[dict]:
    rng = ctx.rng
    cases = []

    def add(gen, n, sizes, two_d=False, modes=RC.MODES, cart=False, infeasible=0.0, multi=0, uniform=False):
        for i in range(n):
            mode = modes[i % len(modes)]
            R = _R(rng)
            if two_d:
                rows, cols = rng.choice(sizes), rng.choice(sizes)
            else:
                rows, cols = rng.choice([1, 2, 5]), (rng.randint(32, 400) if sizes is None else rng.choice(sizes))
            cf = _cf_for(R, rng, two_d)
            bad = rng.random() < infeasible
            if bad:
                cf = round(rng.uniform(1.0, 1.6) / float(R), 3)
            if cart:
                cf = max(1, int(round(cols * cf)))
                if cf == 1:
                    cf = 2      # a "fraction" of exactly 1 is read as 100 %
            dyn = mode != "static"
            shape = ([rng.randint(2, 3)] if dyn else []) + [rows, cols, 2]
            seed = rng.randrange(2 ** 31) if rng.random() < 0.6 else [rng.randrange(256) for _ in range(6)]
            conf = {"gen": gen, "accelerations": [R], "center_fractions": [cf], "mode": mode}
            if multi:        # several (acceleration, centre fraction) pairs per instance: the call draws which one it uses
                Rs = [_R(rng) for _ in range(multi)]
                conf["accelerations"] = Rs
                cfs = [_cf_for(r, rng, two_d) for r in Rs]
                if cart:
                    cfs = [max(2, int(round(cols * x))) for x in cfs]
                conf["center_fractions"] = cfs
            if uniform:      # public API with uniform_range=True: documented as not implemented, must be rejected
                conf["kwargs"] = {"uniform_range": True}
            if gen == "VariableDensityPoisson":
                # constructor options that affect the budget
                kw = {"crop_corner": i % 2 == 1}
                if i % 8 == 5:
                    # a tolerance finer than the granularity of rows*cols/count on a small grid: the bisection runs until
                    # the binary64 midpoint stops moving, then the code must raise ValueError (never return, never spin)
                    rows, cols = rng.choice([24, 32]), rng.choice([24, 32])
                    shape = ([rng.randint(2, 3)] if dyn else []) + [rows, cols, 2]
                    kw["tol"] = rng.choice([0.001, 0.002])
                elif rng.random() < 0.4:
                    kw["tol"] = rng.choice([0.1, 0.3, 0.5])
                if rng.random() < 0.3:
                    kw["max_attempts"] = rng.choice([5, 30])
                if i % 8 == 2:
                    kw["slopes"] = [0.5, 60]        # a lower end other than the default 0, in every run
                elif rng.random() < 0.3:
                    kw["slopes"] = rng.choice([[0, 20], [0.5, 60], [0, 200]])
                conf["kwargs"] = kw
            if gen in ("Radial", "Spiral") and i % 3 == 2:
                conf["center_fractions"] = [0]          # no centre disc requested: the ACS is searched inside the pattern
            if gen == "KtRadial":
                conf["mode"] = "dynamic"
                conf["kwargs"] = {"crop_corner": i % 2 == 1}
            cases.append({"conf": conf, "shape": shape, "seed": seed, "infeasible_by_design": bad})

    q = ctx.budget
    add("FastMRIRandom", q(18, 90), None)
    add("CartesianRandom", q(12, 60), None, cart=True)
    add("FastMRIEquispaced", q(24, 120), None, infeasible=0.15)
    add("CartesianEquispaced", q(18, 90), None, cart=True, infeasible=0.15)
    add("Gaussian1D", q(24, 120), None, infeasible=0.2)
    add("Gaussian2D", q(9, 36), [16, 24, 32, 33, 48, 64], two_d=True, infeasible=0.15)
    add("VariableDensityPoisson", q(16, 60), [32, 40, 48, 51, 64, 65, 96, 128], two_d=True)
    add("KtRadial", q(4, 12), [32, 48, 64], two_d=True, modes=["dynamic"])      # crop_corner on/off: reported, not judged
    add("Gaussian1D", q(6, 40), None, multi=3)
    add("Gaussian2D", q(4, 16), [16, 24, 32, 48, 64], two_d=True, multi=2)
    add("Gaussian1D", q(3, 9), None, uniform=True)
    add("Gaussian2D", q(2, 6), [16, 32], two_d=True, uniform=True)
    # the pairing (same drawn index for acceleration and centre fraction) and the uniform_range rejection, every family
    add("FastMRIRandom", q(3, 12), None, multi=3)
    add("CartesianRandom", q(3, 12), None, cart=True, multi=2)
    add("FastMRIEquispaced", q(3, 12), None, multi=3)
    add("CartesianEquispaced", q(3, 12), None, cart=True, multi=2)
    add("FastMRIMagic", q(3, 12), None, multi=2)
    add("VariableDensityPoisson", q(2, 8), [32, 48], two_d=True, multi=2)
    for g in ("FastMRIRandom", "CartesianEquispaced", "FastMRIMagic"):
        add(g, q(1, 3), None, cart=g.startswith("Cartesian"), uniform=True)
    # CIRCUS: no documented number; the pick arithmetic (M per nested square, ACS-adjusted acceleration) is tied and the
    # one-sided pick budget judged
    add("Radial", q(4, 16), [24, 32, 33, 40, 48], two_d=True)
    add("Spiral", q(4, 16), [24, 32, 33, 40, 48], two_d=True)
    add("KtUniform", q(4, 16), [32, 48, 64, 96], two_d=True, modes=["dynamic"])       # budgets reported, not judged
    add("KtGaussian1D", q(4, 16), [32, 48, 64, 96], two_d=True, modes=["dynamic"])
    add("FastMRIMagic", q(9, 40), None, infeasible=0.2)     # characterised exactly (count formula), not judged against N/R
    add("CartesianMagic", q(6, 20), None, cart=True, infeasible=0.2)
    if ctx.thorough:
        add("Gaussian2D", 6, [96, 128], two_d=True, modes=["static"])
    return cases


def gen_histories(ctx: Ctx) -> list[list[dict]]:
    """process-level call histories: several generator objects of the same and of different classes, created and called
    in sequence in one process, sharing the k-space size and the centre fraction (so that anything cached per size /
    centre fraction, or any array shared between calls, is hit again with another acceleration, mode or class)"""
    rng = ctx.rng
    out = []

    def step(kind, gen, accs, cfs, shape, mode="static", inst=None, **kw):
        conf = {"gen": gen, "accelerations": list(accs), "center_fractions": list(cfs), "mode": mode}
        if kw:
            conf["kwargs"] = kw
        st = {"kind": kind, "conf": conf, "shape": list(shape), "seed": rng.randrange(2 ** 31), "inst": inst}
        if kind == "mask":
            st["acs_ref"] = None if len(set(cfs)) > 1 else ref_acs(conf, shape, cfs[0])
        return st

    for _ in range(ctx.budget(2, 10)):
        steps = []
        rows, cols = rng.choice([24, 32, 40]), rng.choice([24, 32, 48])
        cf2 = round(rng.uniform(0.02, 0.06), 3)
        lo, hi, mid = rng.choice([2, 3]), rng.choice([6, 8, 10]), rng.choice([4, 5])
        s2, d2 = [rows, cols, 2], [2, rows, cols, 2]
        steps += [
            step("mask", "Gaussian2D", [lo], [cf2], s2),
            step("mask", "Gaussian2D", [hi], [cf2], s2),                       # another object, same size and centre fraction
            step("acs", "Gaussian2D", [hi], [cf2], s2),
            step("mask", "VariableDensityPoisson", [mid], [cf2], s2),
            step("acs", "VariableDensityPoisson", [mid], [cf2], s2),
            step("mask", "Gaussian2D", [hi], [cf2], d2, mode="dynamic"),
            step("mask", "Gaussian2D", [lo, hi], [cf2, cf2], s2, inst="g2multi"),  # one function, two accelerations, one centre fraction
            step("mask", "Gaussian2D", [lo, hi], [cf2, cf2], s2, inst="g2multi"),
            step("mask", "Gaussian2D", [lo, hi], [cf2, cf2], s2, inst="g2multi"),
            step("mask", "VariableDensityPoisson", [hi], [cf2], s2, crop_corner=True),
            step("mask", "Gaussian2D", [mid], [cf2], s2),
        ]
        N, N2 = rng.randint(48, 200), rng.randint(48, 200)
        cf1 = round(rng.uniform(0.03, 0.07), 3)
        r1 = rng.choice([1, 3])
        s1, t1, d1 = [r1, N, 2], [r1, N2, 2], [3, r1, N, 2]
        steps += [
            step("mask", "Gaussian1D", [lo], [cf1], s1, inst="g1"),
            step("mask", "Gaussian1D", [hi], [cf1], s1),
            step("acs", "Gaussian1D", [hi], [cf1], s1),
            step("mask", "FastMRIEquispaced", [hi], [cf1], s1, inst="eq"),
            step("mask", "FastMRIRandom", [mid], [cf1], s1),
            step("mask", "Gaussian1D", [lo], [cf1], t1, inst="g1"),                 # same object, other width
            step("mask", "FastMRIEquispaced", [hi], [cf1], d1[:1] + t1, mode="dynamic"),
            step("mask", "FastMRIEquispaced", [hi], [cf1], t1, inst="eq"),
            step("mask", "Gaussian1D", [lo, hi], [cf1, cf1], s1, inst="g1multi"),
            step("mask", "Gaussian1D", [lo, hi], [cf1, cf1], s1, inst="g1multi"),
            step("acs", "FastMRIEquispaced", [hi], [cf1], s1, inst="eq"),
            step("mask", "Gaussian1D", [mid], [cf1], d1, mode="multislice"),
        ]
        out.append(steps)
    return out


def _run_history(steps: list[dict], budget: float = 240) -> list | None:
    """the whole history in one FRESH process"""
    w = RC.Worker()
    try:
        return w.call(MOD, "job_history", {"steps": steps}, budget=budget)
    finally:
        w.close()


def _history_cases(steps: list[dict], recs: list[dict]) -> tuple[list[dict], list[dict]]:
    """(mask steps as cases for the correspondence / the budget oracle, ACS steps with their reference)"""
    cases, acs = [], []
    for i, (st, rec) in enumerate(zip(steps, recs)):
        prefix = [{k: v for k, v in s_.items() if k != "acs_ref"} for s_ in steps[:i + 1]]
        rep = {"op": "history", "steps": prefix, "step": i}
        if st["kind"] == "mask":
            if st.get("acs_ref") is None:
                # equal centre fractions were required for a reference; otherwise skip
                continue
            cases.append({"conf": st["conf"], "shape": st["shape"], "seed": st["seed"], "res": rec, "infeasible_by_design": False,
                          "rep": rep, "history_step": i})
        else:
            ref = ref_acs(st["conf"], st["shape"], st["conf"]["center_fractions"][0])
            acs.append({"st": st, "rec": rec, "ref": ref, "rep": rep})
    return cases, acs


_RUN: dict = {}


def _classify_crash(case: dict, how: str) -> dict:
    conf = case["conf"]
    rec = {"case": case, "how": how[:200], "key": f"generator-crashes/{conf['gen']}"}
    if conf["gen"] == "VariableDensityPoisson" and conf.get("kwargs", {}).get("max_attempts", 10) > 10 and (
            "died" in how or "exited" in how):
        # the known class: radius ~ 1, many attempts, a point accepted into an occupied cell, num_actives > nx*ny.
        # confirm through the .pyx front-end (bounds-checked Python) when that is cheap
        rec["key"] += "/active-list-overrun"
        if case["shape"][-3] * case["shape"][-2] > 48 * 48:
            rec["frontend"] = "not attempted (pure-Python kernel too slow for this size)"
            return rec
        w = RC.Worker({"VERIF_FORCE_FRONTEND": "1"})
        try:
            r = w.call(MOD, "job_case", case, budget=25)
            rec["frontend"] = f"{r.get('err')}: {r.get('errmsg')}"
        except RC.Hang:
            rec["frontend"] = "not confirmed within 25 s (pure-Python kernel too slow for this size)"
        except RC.WorkerFailure as e:
            rec["frontend"] = "front-end run failed: " + str(e)[:80]
        finally:
            w.close()
    return rec


def _safe(store: dict, w, fn: str, args: dict, budget: float, what: dict):
    """a worker call that can never take the check down: hang / death become recorded findings"""
    try:
        return w.call(MOD, fn, args, budget=budget)
    except RC.Hang as e:
        store["hangs"].append({"case": what, "budget": e.budget})
    except RC.WorkerFailure as e:
        store["crashes"].append(_classify_crash(what, str(e)))
    return None


def _run_cases(ctx: Ctx, store: dict, more_cases: bool = False):
    import time as _t

    t0 = _t.time()
    marks = []
    w = RC.Worker()
    store["cases"], store["hangs"], store["crashes"] = [], [], []
    nhang: dict = {}
    try:
        w.start()
        if more_cases and not ctx.thorough:
            old = ctx.tier
            ctx.tier = "thorough"
            try:
                todo = gen_cases(ctx)
            finally:
                ctx.tier = old
        else:
            todo = gen_cases(ctx)
        for c in todo:
            if nhang.get(c["conf"]["gen"], 0) >= 1:
                store.setdefault("skipped_after_hangs", []).append(c["conf"]["gen"])
                continue      # a call of this generator already failed to return: the finding is made, keep the run bounded
            try:
                c["res"] = w.call(MOD, "job_case", {"conf": c["conf"], "shape": c["shape"], "seed": c["seed"]}, budget=90)
            except RC.Hang as e:
                what = {k: c[k] for k in ("conf", "shape", "seed")}
                if c["conf"]["gen"] == "VariableDensityPoisson" and c["conf"].get("kwargs", {}).get("max_attempts", 10) > 10:
                    # the active-list overrun is undefined behaviour: it kills the process or corrupts the heap and spins;
                    # both are the recorded class
                    store["crashes"].append({"case": what, "how": f"no answer within {e.budget} s (undefined behaviour after the overrun)",
                                             "key": "generator-crashes/VariableDensityPoisson/active-list-overrun"})
                else:
                    store["hangs"].append({"case": what, "budget": e.budget})
                    nhang[c["conf"]["gen"]] = nhang.get(c["conf"]["gen"], 0) + 1
                continue
            except RC.WorkerFailure as e:
                # the process running the real code died (or the job failed): a finding with its arguments, never exit 2;
                # the next call starts a fresh worker and the remaining cases still run
                store["crashes"].append(_classify_crash({k: c[k] for k in ("conf", "shape", "seed")}, str(e)))
                continue
            store["cases"].append(c)
        marks.append(("cases", _t.time() - t0))
        # process-level call histories (each in a fresh process)
        store["hist_cases"], store["hist_acs"] = [], []
        for steps in gen_histories(ctx):
            if any(st["conf"]["gen"] in nhang for st in steps):
                store.setdefault("skipped_after_hangs", []).append("history")
                continue
            for st in steps:          # the reference needs the step's own ACS reference filled in for multi-pair steps too
                if st["kind"] == "mask" and st.get("acs_ref") is None and len(set(st["conf"]["center_fractions"])) == 1:
                    st["acs_ref"] = ref_acs(st["conf"], st["shape"], st["conf"]["center_fractions"][0])
            try:
                recs = _run_history(steps, budget=150)
            except RC.Hang as e:
                store["hangs"].append({"case": {"conf": {"gen": "history"}, "shape": None, "seed": None, "steps": steps}, "budget": e.budget})
                for st in steps:
                    nhang[st["conf"]["gen"]] = nhang.get(st["conf"]["gen"], 0) + 1
                continue
            except RC.WorkerFailure as e:
                store["crashes"].append({"case": {"conf": {"gen": "history"}, "shape": None, "seed": None, "steps": steps},
                                         "how": str(e)[:200], "key": "generator-crashes/history"})
                continue
            hc, ha = _history_cases(steps, recs)
            store["hist_cases"] += hc
            store["hist_acs"] += ha
        marks.append(("histories", _t.time() - t0))
        # argument forms and call sites (CreateSamplingMask, apply_mask)
        store["forms"] = []
        fr = ctx.rng
        fgens = ["FastMRIRandom", "FastMRIEquispaced", "CartesianEquispaced", "Gaussian1D", "Gaussian2D", "VariableDensityPoisson",
                 "FastMRIMagic", "CartesianRandom"]
        for i in range(ctx.budget(16, 64)):
            g = fgens[i % len(fgens)]
            mode = RC.MODES[(i // len(fgens) + i) % 3]
            R = _R(fr)
            two_d = g in RC.TWO_D
            rows, cols = (fr.choice([24, 32, 40]), fr.choice([24, 33, 48])) if two_d else (fr.choice([1, 3]), fr.randint(32, 200))
            cf = _cf_for(R, fr, two_d)
            if g.startswith("Cartesian"):
                cf = max(2, int(round(cols * cf)))
            shape = ([fr.randint(2, 3)] if mode != "static" else []) + [rows, cols, 2]
            conf = {"gen": g, "accelerations": [R], "center_fractions": [cf], "mode": mode}
            fc = {"conf": conf, "shape": shape, "seed": fr.randrange(2 ** 31)}
            if g in nhang:
                continue
            nh = len(store["hangs"])
            r = _safe(store, w, "job_forms", fc, 60, fc)
            if len(store["hangs"]) > nh:
                nhang[g] = nhang.get(g, 0) + 1
            if r is not None:
                store["forms"].append(dict(fc, res=r))
        marks.append(("forms", _t.time() - t0))
        # equispaced enumeration on the implementation
        widths = list(range(32, 401)) if ctx.thorough else sorted(set(range(32, 401, 13)) | {33, 399, 400})
        pairs = [("FastMRIEquispaced", R, cf) for R in ENUM_R for cf in ENUM_CF]
        store["enum"] = []
        for i in range(0, len(pairs), 4):
            store["enum"] += _safe(store, w, "job_equi_enum", {"pairs": pairs[i:i + 4], "widths": widths}, 600,
                                   {"conf": {"gen": "FastMRIEquispaced"}, "shape": None, "seed": None, "pairs": pairs[i:i + 4]}) or []
        # the integer-count flavour (CartesianEquispaced) on a coarser grid
        cw = widths[::3]
        cpairs = [("CartesianEquispaced", R, L) for R in (2, 4, 5.5, 8, 12) for L in (2, 5, 9, 16)]
        store["enum"] += _safe(store, w, "job_equi_enum", {"pairs": cpairs, "widths": cw}, 600,
                               {"conf": {"gen": "CartesianEquispaced"}, "shape": None, "seed": None}) or []
        marks.append(("enumeration", _t.time() - t0))
        # statistics of the random masks
        store["stats"] = []
        nseed = 2000 if ctx.thorough else 400
        base = ctx.rng.randrange(2 ** 30)
        for gen, cart in (("FastMRIRandom", False), ("CartesianRandom", True)):
            for j in range(6 if ctx.thorough else 3):
                N = ctx.rng.randint(32, 400)
                R = _R(ctx.rng)
                cf = _cf_for(R, ctx.rng)
                if cart:
                    cf = max(2, int(round(N * cf)))
                smode = ["static", "dynamic", "multislice"][j % 3]
                conf = {"gen": gen, "accelerations": [R], "center_fractions": [cf], "mode": smode}
                sshape = [1, N, 2] if smode == "static" else [2, 1, N, 2]
                seeds = [base + 7919 * k + j for k in range(nseed)]
                r = _safe(store, w, "job_random_stats", {"conf": conf, "shape": sshape, "seeds": seeds}, 300,
                          {"conf": conf, "shape": sshape, "seed": None})
                if r is None:
                    continue
                store["stats"].append({"conf": conf, "N": N, "R": R, "res": r, "seed_base": base, "j": j, "nseed": nseed, "shape": sshape})
        marks.append(("statistics", _t.time() - t0))
        ctx.notes.append("wall seconds of the real-code stages (cumulative): " + ", ".join(f"{k} {v:.1f}" for k, v in marks))
    finally:
        w.close()


def prepare(ctx: Ctx):
    _RUN.clear()
    _run_cases(ctx, _RUN)


# -------------------------------------------------------------------------------------------------
def _q(x):
    f = frac(x)
    return f.numerator, f.denominator


def _choice(res) -> int | None:
    """index drawn by choose_acceleration in the mask call (None when the call never got there)"""
    for e in res.get("log", []):
        if e["kind"] == "draw" and e["func"] == "choose_acceleration" and e.get("value"):
            return int(e["value"][0])
    return None


def _chosen_R(c):
    i = _choice(c["res"])
    accs = c["conf"]["accelerations"]
    return accs[i] if i is not None and i < len(accs) else accs[0]


def _chosen_cf(c):
    i = _choice(c["res"])
    cfs = c["conf"]["center_fractions"]
    return cfs[i] if i is not None and i < len(cfs) else cfs[0]


def _magic_lraw(N: int, cf) -> int:
    """`num_low_freqs` of MagicMaskFunc before the cap, float glue as coded (count when > 1, else rounded fraction)"""
    return int(cf) if cf > 1 else int(round(N * cf))


def _high_of(req: str) -> int | None:
    import re

    m = re.search(r"\('high', (-?\d+)\)", req or "")
    return int(m.group(1)) if m else None


def _frame_draws(log, method):
    return [e for e in log if e["kind"] == "draw" and e["method"] == method and e["func"] != "choose_acceleration"]


_LINE_CASE: dict = {}


def correspondence(ctx: Ctx):
    _LINE_CASE.clear()
    for item in _correspondence(ctx, _RUN):
        src = item.pop("src", None)
        if src is not None:
            _LINE_CASE[item["line"]] = src
        yield item


def _correspondence(ctx: Ctx, run: dict):
    skipped_fragile = 0
    for c in run["cases"] + run.get("hist_cases", []):
        for item in _case_lines(ctx, c):
            item["src"] = c.get("rep") or {"op": "case", "conf": c["conf"], "shape": c["shape"], "seed": c["seed"]}
            if "history_step" in c:
                item["bucket"] = "history/" + item.get("bucket", "")
            yield item
    # exhaustive enumeration: every offset of every (N, R, cf)
    for e in run["enum"]:
        if e.get("err") and "L" not in e:
            continue
        N, L, R = e["N"], e["L"], e["R"]
        Rq = frac(R)
        Rn, Rd = _q(R)
        src = {"op": "enum", "gen": e["gen"], "N": N, "R": R, "cf": e["cf"]}
        if e["err"] is not None:
            exp = "err " + e["err"]
            yield {"line": line("equienum", [N, L, Rn, Rd]), "impl": (lambda a=exp: a), "nontrivial": True,
                   "bucket": f"equienum/rejected-{e['err']}", "src": src}
            continue
        if equi_fragile(N, L, Rq):
            if not e.get("rows") or len(e["rows"]) != len(e["counts"]):
                skipped_fragile += 1
                continue
            pad = (N - L + 1) // 2
            for off, cols_ in enumerate(e["rows"]):
                ti = equi_tie_inputs(N, L, Rq, off, set(cols_))
                if ti is None:
                    skipped_fragile += 1
                    break
                outside = [i for i in cols_ if not pad <= i < pad + L]
                ans = "ok %d %d %d | %s" % (e["counts"][off], len(e["counts"]), ti[2], " ".join(map(str, outside)))
                yield {"line": line("equit", [N, L, Rn, Rd, off, ti[1]], ti[0]), "impl": (lambda a=ans: a),
                       "nontrivial": e["counts"][off] > L, "bucket": f"equit/enum/{e['gen']}" + ("/ties" if ti[2] else "/exact-length"),
                       "src": dict(src, offset=off)}
            continue
        ans = "ok %d | %s" % (len(e["counts"]), " ".join(map(str, e["counts"])))
        yield {"line": line("equienum", [N, L, Rn, Rd]), "impl": (lambda a=ans: a),
               "nontrivial": any(cc > L for cc in e["counts"]), "bucket": f"equienum/{e['gen']}", "src": src}
    skipped_fragile += run.get("_fragile_cases", 0)
    ctx.notes.append(f"equispaced: tie-fragile configurations (non-dyadic adjusted acceleration with an exact half-integer grid "
                     f"point / exact integer grid length) are compared through `equit` with the tie directions read off the real "
                     f"mask; {skipped_fragile} could not be (adjusted acceleration < 2) and are covered by the oracle's bound only")


def _case_lines(ctx: Ctx, c: dict):
    skipped_fragile = 0
    for c in [c]:
        conf, res, shape = c["conf"], c["res"], c["shape"]
        gen, mode = conf["gen"], conf["mode"]
        R = _chosen_R(c)
        Rn, Rd = _q(R)
        N = shape[-2]
        rows = shape[-3]
        multi = len(conf["accelerations"]) > 1
        uniform = bool(conf.get("kwargs", {}).get("uniform_range"))
        if multi or uniform:
            # which pair the call uses (public API: several accelerations per instance / uniform_range=True): the model
            # selects acceleration and #ACS of the drawn position; #ACS of every pair alone comes from single-pair
            # instances of the real generator, the realised #ACS from the return_acs call with the same seed
            flat = lambda xs: [v for x in xs for v in _q(x)]  # noqa: E731
            ch = _choice(res)
            if uniform:
                ans = "err " + str(res["err"] or res["acs_err"])
                pl = []
            elif res.get("acs_count") and ch is not None and res.get("pair_L"):
                real_L = res["acs_count"][0] if gen in RC.TWO_D else res["acs_count"][0] // rows
                ans = "ok %d %d %d %d" % (ch, Rn, Rd, real_L)
                pl = res["pair_L"]
            else:
                ans = pl = None
            if ans is not None:
                yield {"line": line("choose", [1 if uniform else 0, ch if ch is not None else 0], flat(conf["accelerations"]), pl),
                       "impl": (lambda a=ans: a), "nontrivial": True,
                       "bucket": f"choose/{gen}/" + ("uniform_range-rejected" if uniform else f"pair{ch}of{len(conf['accelerations'])}")}
        if res["acs_err"] is not None and gen not in ("FastMRIEquispaced", "CartesianEquispaced"):
            continue
        L = res["acs_count"][0] // rows if res.get("acs_count") and gen not in RC.TWO_D else None
        if gen in ("FastMRIRandom", "CartesianRandom") and res["err"] is None:
            us = _frame_draws(res["log"], "uniform")
            for f, e in enumerate(us):
                ans = "ok %d | %s" % (sum(res["row"][f]), " ".join(map(str, res["row"][f])))
                yield {"line": line("random", [N, L, Rn, Rd], e["value"]), "impl": (lambda a=ans: a),
                       "nontrivial": sum(res["row"][f]) > L, "bucket": f"random/{gen}/{mode}"}
        elif gen in ("FastMRIEquispaced", "CartesianEquispaced"):
            if res["acs_err"] is not None:
                continue
            Rq = frac(R)
            den = L * Rq - N
            if res["err"] is not None:
                # malformed stream: the code rejects an infeasible pair; so must the model
                exp = "err " + res["err"]
                yield {"line": line("equi", [N, L, Rn, Rd, 0]), "impl": (lambda a=exp: a), "nontrivial": True,
                       "bucket": f"equi/{gen}/rejected-{res['err']}"}
                continue
            offs = _frame_draws(res["log"], "randint")
            a = Rq * (L - N) / den
            for f, e in enumerate(offs):
                off = e["value"][0]
                acs_row = res["acs_row"][min(f, len(res["acs_row"]) - 1)]
                cnt = sum(res["row"][f])
                if equi_fragile(N, L, Rq, off):
                    # exact tie(s): the binary64 grid decides their direction; read it off the real mask, the model does the rest
                    ti = equi_tie_inputs(N, L, Rq, off, {i for i, v in enumerate(res["row"][f]) if v})
                    if ti is None:
                        _RUN["_fragile_cases"] = _RUN.get("_fragile_cases", 0) + 1
                        continue
                    outside = [i for i, v in enumerate(res["row"][f]) if v and not acs_row[i]]
                    high = int(e["req"].split("(", 1)[1].split(")")[0].split(",")[1])
                    ans = "ok %d %d %d | %s" % (cnt, high, ti[2], " ".join(map(str, outside)))
                    yield {"line": line("equit", [N, L, Rn, Rd, off, ti[1]], ti[0]), "impl": (lambda a=ans: a),
                           "nontrivial": cnt > L, "bucket": f"equit/{gen}/{mode}"}
                    continue
                # from the real mask: the count, the sampled columns outside the ACS block; from the recorded request
                # `randint(0, high)`: the offset bound
                outside = [i for i, v in enumerate(res["row"][f]) if v and not acs_row[i]]
                high = int(e["req"].split("(", 1)[1].split(")")[0].split(",")[1])
                ans = "ok %d %d %d | %s" % (cnt, cnt, high, " ".join(map(str, outside)))
                yield {"line": line("equi", [N, L, Rn, Rd, off]), "impl": (lambda a=ans: a), "nontrivial": cnt > L,
                       "bucket": f"equi/{gen}/{mode}"}
        elif gen == "Gaussian1D" and res["err"] is None:
            kern = [e for e in res["log"] if e["kind"] == "kernel"]
            for f, e in enumerate(kern):
                k = e["ints"][0]
                ans = "ok %d 1 %d | %s" % (k, sum(res["row"][f]), " ".join(map(str, res["row"][f])))
                yield {"line": line("gauss1d", [N, L, Rn, Rd], res["cands"][f]), "impl": (lambda a=ans: a),
                       "nontrivial": k >= 0, "bucket": f"gauss1d/{mode}/" + ("feasible" if k >= 0 else "infeasible")}
        elif gen == "Gaussian2D" and res["err"] is None:
            if not (rows * N <= 4096 or (ctx.thorough and float(R) >= 8)):
                continue      # Lean's list model is too slow for big, dense 2-D loops; the oracle still checks them
            kern = [e for e in res["log"] if e["kind"] == "kernel"]
            for f, e in enumerate(kern):
                k = e["ints"][0]
                ans = "ok %d 1 %d" % (k, res["count"][f])
                yield {"line": line("gauss2d", [rows, N, Rn, Rd], res["acs_bits"][min(f, len(res["acs_bits"]) - 1)], res["cands"][f]),
                       "impl": (lambda a=ans: a), "nontrivial": k >= 0,
                       "bucket": f"gauss2d/{mode}/" + ("multi/" if multi else "") + ("feasible" if k >= 0 else "infeasible")}
        elif gen in ("Radial", "Spiral") and res["err"] is None and res.get("circus_M"):
            no_disc = _chosen_cf(c) == 0
            Ld = 0 if no_disc else res["acs_count"][0]
            nsq = (max(rows, N) - max(rows, N) % 2) // 2
            for f, m_real in enumerate(res["circus_M"]):
                yield {"line": line("circusm", [rows, N, Rn, Rd, Ld, m_real]), "impl": (lambda a="ok 1 %d" % nsq: a),
                       "nontrivial": m_real > 0, "bucket": f"circus/{gen}/{mode}/" + ("no-disc" if no_disc else "disc")}
        elif gen.endswith("Magic"):
            l_raw = _magic_lraw(N, _chosen_cf(c))
            offs = _frame_draws(res["log"], "randint")
            if res["err"] is not None:
                ans = "err " + res["err"]
                offsets = []
            else:
                offsets = [e["value"][0] for e in offs]
                adj = _high_of(offs[0]["req"]) if offs else None
                ans = "ok %d %d | %s | %s" % (L, adj if adj is not None else -1,
                                             " ".join("%d %d" % (sum(r), sum(r)) for r in res["row"]),
                                             " | ".join(" ".join(map(str, r)) for r in res["row"]))
            yield {"line": line("magic", [N, l_raw, Rn, Rd], offsets), "impl": (lambda a=ans: a),
                   "nontrivial": res["err"] is not None or any(sum(r) > L for r in res["row"]),
                   "bucket": f"magic/{gen}/{mode}" + ("" if res["err"] is None else "/rejected-" + res["err"])}
        elif gen == "VariableDensityPoisson":
            yield from _poisson_cases(c)


def _post_flags():
    from translate.recipes.c07 import poisson_post

    return [1 if m else 0 for _, m in poisson_post()[0]]


def _poisson_cases(c):
    conf, res, shape = c["conf"], c["res"], c["shape"]
    rows, cols = shape[-3], shape[-2]
    R = _chosen_R(c)
    kw = conf.get("kwargs", {})
    tol = kw.get("tol", 0.2)
    Rn, Rd = _q(R)
    tn, td = _q(tol)
    flags = _post_flags()
    opts = "crop" if kw.get("crop_corner") else "nocrop"
    lo0, hi0 = (kw["slopes"][0], kw["slopes"][1]) if kw.get("slopes") else (0, max(rows, cols))
    (lon, lod), (hin, hid) = _q(lo0), _q(hi0)
    for rec in res["poisson_frames"]:
        # the interval bookkeeping (midpoint in binary64, stall test, which end moves) is the model's: it gets the
        # initial interval, the accelerations the tolerance test saw and the slopes the real loop probed
        accs = [v for a in rec["tested"] for v in a.as_integer_ratio()]
        slopes = [v for sl in rec["slopes"] for v in sl.as_integer_ratio()]
        if rec["ret"] is not None:
            # acceleration of the mask the caller gets
            fn, fd = (rows * cols / rec["ret"]).as_integer_ratio() if rec["ret"] else (0, 1)
            ans = "ok 0 %d %d %d -1" % (len(rec["tested"]), fn, fd)
        else:
            ans = "ok 1 %d 0 1 -1" % len(rec["tested"])
        yield {"line": line("bisectiv", [Rn, Rd, tn, td, lon, lod, hin, hid], accs, slopes, flags), "impl": (lambda a=ans: a),
               "nontrivial": len(rec["tested"]) >= 2,
               "bucket": f"poisson/{conf['mode']}/{opts}/" + ("slopes/" if kw.get("slopes") else "")
                         + ("returned" if rec["ret"] is not None else "raised")}


# -------------------------------------------------------------------------------------------------
def oracle(ctx: Ctx, deep: bool = False):
    store = _RUN
    if deep or "cases" not in store:
        # the failing-input search after a broken obligation is BOUNDED: a fresh, larger sample of generator calls (thorough
        # case counts) but the quick-tier enumeration / statistics / histories / forms — about twice a quick run, never more
        store = {}
        _run_cases(ctx, store, more_cases=deep)
    for hg in store["hangs"]:
        yield Violation("call-does-not-return", f"generator call did not return within {hg['budget']} s", {"op": "case", **hg["case"]})
    for cr in store.get("crashes", []):
        yield Violation(cr["key"],
                        f"the process running {cr['case']['conf']['gen']} died instead of returning a mask ({cr['how'][:60]}"
                        + (f"; .pyx front-end: {cr['frontend']}" if cr.get("frontend") else "") + ")",
                        {"op": "case", **cr["case"], "frontend": cr.get("frontend")})
    magic_dev = 0.0
    worst = {"equi": 0.0, "gauss": 0.0, "poisson": 0.0, "poisson_crop": 0.0, "ktradial": 0.0, "ktradial_crop": 0.0}
    n_opts = {"crop_corner": 0, "tol": 0, "max_attempts": 0, "slopes": 0}
    kt_report: dict = {}
    kt_frames: dict = {}
    for ha in store.get("hist_acs", []):
        st, rec, ref = ha["st"], ha["rec"], ha["ref"]
        g = st["conf"]["gen"]
        ctx.count(("hist-acs", g, tuple(st["shape"]), st["seed"], ha["rep"]["step"]), True, bucket=f"oracle/history/acs/{g}")
        if rec["err"] is not None:
            yield Violation(f"acs-after-history/{g}", f"{g}: return_acs=True raises {rec['err']} at step {ha['rep']['step']} of a call history",
                            ha["rep"])
        elif ref is not None and rec["count"] != ref["acs_count"]:
            yield Violation(f"acs-after-history/{g}",
                            f"{g}: at step {ha['rep']['step']} of a call history in one process return_acs=True answers {rec['count']} "
                            f"samples per frame; the centre region of this request has {ref['acs_count']}",
                            dict(ha["rep"], observed=rec["count"], expected=ref["acs_count"]))
    for c in store["cases"] + store.get("hist_cases", []):
        conf, res, shape = c["conf"], c["res"], c["shape"]
        gen = conf["gen"]
        R = float(_chosen_R(c))
        rows, cols = shape[-3], shape[-2]
        rep = c.get("rep") or {"op": "case", "conf": conf, "shape": shape, "seed": c["seed"]}
        two_d = gen in RC.TWO_D
        total = rows * cols if two_d else cols
        target = total / R
        ok_call = res["err"] is None
        ctx.count(("oracle", gen, conf["mode"], tuple(shape), R, str(conf["center_fractions"]), str(c["seed"]), c.get("history_step")),
                  ok_call, sample={"gen": gen, "mode": conf["mode"], "shape": shape, "R": R,
                                   "cf": conf["center_fractions"][0], "count": res.get("count"), "target": round(target, 3)},
                  bucket=("oracle/history/" if "history_step" in c else "oracle/") + f"{gen}/{conf['mode']}"
                         + ("" if ok_call else "/" + str(res["err"])))
        if not ok_call:
            if conf.get("kwargs", {}).get("uniform_range"):
                if res["err"] != "NotImplementedError":
                    yield Violation(f"uniform-range/{gen}", f"uniform_range=True: expected NotImplementedError, got {res['err']}", rep)
                continue
            if gen == "VariableDensityPoisson" and res["err"] == "ValueError":
                continue          # allowed outcome: "cannot generate mask" instead of a mask outside the tolerance
            if c["infeasible_by_design"] or gen.endswith("Magic"):
                continue
            yield Violation(f"feasible-call-raises/{gen}", f"{gen} raises {res['err']} for a feasible pair", dict(rep, observed=res["errmsg"]))
            continue
        counts = res["count"] if two_d else [cc // rows for cc in res["count"]]
        acs = res["acs_count"] if two_d else [cc // rows for cc in res["acs_count"]]
        for f, cnt in enumerate(counts):
            L = acs[min(f, len(acs) - 1)]
            dev = abs(cnt - target)
            if gen in ("Gaussian1D", "Gaussian2D"):
                if L + 0.5 <= target:
                    worst["gauss"] = max(worst["gauss"], dev)
                    if dev > 1.0 + 1e-9:
                        yield Violation(f"gaussian-budget/{gen}", f"{gen}: |count - N/R| = {dev:.3f} > 1 sample",
                                        dict(rep, frame=f, observed=cnt, expected=target, acs=L))
                elif cnt != L:
                    yield Violation(f"gaussian-infeasible/{gen}", f"{gen}: infeasible request but count {cnt} != #ACS {L}",
                                    dict(rep, frame=f, observed=cnt, expected=L))
            elif gen in ("FastMRIEquispaced", "CartesianEquispaced"):
                worst["equi"] = max(worst["equi"], dev)
                if dev > 2.0 + 1e-9:
                    yield Violation(f"equispaced-budget/{gen}", f"{gen}: |count - N/R| = {dev:.3f} > 2 columns",
                                    dict(rep, frame=f, observed=cnt, expected=target, acs=L))
            elif gen == "VariableDensityPoisson":
                kw = conf.get("kwargs", {})
                tol = kw.get("tol", 0.2)
                crop = bool(kw.get("crop_corner"))
                if f == 0:
                    for o in n_opts:
                        n_opts[o] += 1 if kw.get(o) else 0
                d = abs(total / cnt - R) if cnt else float("inf")
                wk = "poisson_crop" if crop else "poisson"
                worst[wk] = max(worst[wk], d / tol)
                if f == 0:
                    seen = sorted({e["ints"][2] for e in res["log"] if e.get("kind") == "kernel" and e.get("name") == "_poisson"
                                   and len(e.get("ints") or []) >= 3})
                    if seen and seen != [kw.get("max_attempts", 10)]:
                        yield Violation("option-not-forwarded/max_attempts",
                                        f"VD-Poisson constructed with max_attempts={kw.get('max_attempts', 10)} runs its kernel with {seen}",
                                        dict(rep, observed=seen, expected=kw.get("max_attempts", 10)))
                if not d < tol:
                    yield Violation("poisson-tolerance" + ("/crop_corner" if crop else ""),
                                    f"VD-Poisson (options {kw}) returned a mask with |R_actual - R| = {d:.3f} >= tol {tol}",
                                    dict(rep, frame=f, observed=cnt, expected=target, realised_acceleration=total / cnt if cnt else None))
            elif gen in ("Radial", "Spiral"):
                # no documented number; judged one-sidedly: M picks on each nested square can sample at most M cells each
                ms = res.get("circus_M") or []
                nsq = (max(rows, cols) - max(rows, cols) % 2) // 2
                worst.setdefault("circus", 0.0)
                worst["circus"] = max(worst["circus"], abs(total / cnt - R) if cnt else float("inf"))
                Ld = 0 if float(_chosen_cf(c)) == 0 else L
                if ms and cnt - Ld > ms[min(f, len(ms) - 1)] * nsq:
                    yield Violation(f"circus-pick-budget/{gen}", f"{gen}: {cnt - Ld} cells outside the centre disc with M = "
                                    f"{ms[min(f, len(ms) - 1)]} picks on each of {nsq} nested squares",
                                    dict(rep, frame=f, observed=cnt, acs=Ld, picks=ms[min(f, len(ms) - 1)] * nsq))
            elif gen in ("KtUniform", "KtGaussian1D"):
                # nothing numeric is documented per frame; reported per frame (columns) and per volume below
                kt_frames.setdefault(gen, []).append(round(cnt - target, 2))
            elif gen == "KtRadial":
                wk = "ktradial_crop" if conf.get("kwargs", {}).get("crop_corner") else "ktradial"
                worst[wk] = max(worst[wk], abs(total / cnt - R) if cnt else float("inf"))
            elif gen.endswith("Magic"):
                # not judged against N/R (integer adjusted acceleration, by design); judged against what the generator
                # documents: step = round(N / (round(N/R) - #ACS)) and a comb of that step over the non-ACS columns
                magic_dev = max(magic_dev, dev)
                offs = _frame_draws(res["log"], "randint")
                adj = _high_of(offs[0]["req"]) if offs else None
                t = int(round(cols / R))
                exp_adj = int(round(cols / (t - L))) if t - L > 0 else 0
                if adj != exp_adj:
                    yield Violation(f"magic-step/{gen}", f"{gen}: offsets drawn below {adj}, expected round(N / (round(N/R) - #ACS)) = {exp_adj}",
                                    dict(rep, frame=f, observed=adj, expected=exp_adj, acs=L))
                elif adj and not (adj * (cnt - L) <= (cols - L) + 2 * (adj - 1) and (cols - L) <= adj * (cnt - L) + 2 * (adj + 1)):
                    yield Violation(f"magic-bracket/{gen}", f"{gen}: {cnt - L} non-ACS columns sampled with step {adj} over {cols - L} "
                                    f"non-ACS columns: outside the comb bracket (N-L)/step -2-2/step .. +2-2/step",
                                    dict(rep, frame=f, observed=cnt, acs=L, step=adj))
        if gen in ("KtUniform", "KtGaussian1D") and sum(counts):
            # k-t masks: the budget is over the whole (frames x rows x cols) volume; reported, not judged
            real = len(counts) * total / sum(counts)
            kt_report.setdefault(gen, []).append(round(real - R, 3))
    # argument forms / call sites: the same seeded request must give the same mask however it reaches the generator
    for fc in store.get("forms", []):
        conf, shape, r = fc["conf"], fc["shape"], fc["res"]
        gen = conf["gen"]
        rep = {"op": "forms", "conf": conf, "shape": shape, "seed": fc["seed"]}
        rows, cols = shape[-3], shape[-2]
        ctx.count(("forms", gen, conf["mode"], tuple(shape), fc["seed"]), r["err"] is None,
                  bucket=f"oracle/forms/{gen}/{conf['mode']}" + ("" if r["err"] is None else "/" + r["err"]))
        if r["err"] is not None:
            # Magic: ACS block may use up the budget; VD-Poisson: "cannot generate mask" is its documented way out
            if not gen.endswith("Magic") and not (gen == "VariableDensityPoisson" and r["err"] == "ValueError"):
                yield Violation(f"feasible-call-raises/{gen}", f"{gen} raises {r['err']} for a feasible pair", rep)
            continue
        for name, fr_ in sorted(r["forms"].items()):
            if fr_.get("err"):
                yield Violation(f"call-form/{name}", f"{gen} reached through `{name}` raises {fr_['err']}", dict(rep, form=name))
            elif not fr_["same"]:
                yield Violation(f"call-form/{name}", f"{gen} reached through `{name}` gives a different mask than the direct seeded call "
                                f"(sampled per frame {fr_['counts']} vs {r['base']}, shape {fr_['shape']})",
                                dict(rep, form=name, observed=fr_["counts"], expected=r["base"]))
        # unseeded call: the budget itself
        uns = r.get("unseeded")
        if uns is None:
            if r.get("unseeded_err") and not gen.endswith("Magic") and not (
                    gen == "VariableDensityPoisson" and r["unseeded_err"] == "ValueError"):
                yield Violation(f"feasible-call-raises/{gen}", f"{gen} unseeded raises {r['unseeded_err']}", dict(rep, seed=None))
            continue
        two_d = gen in RC.TWO_D
        per = 1 if two_d else rows
        tgt = (rows * cols if two_d else cols) / float(conf["accelerations"][0])
        for f, cnt in enumerate(uns):
            cnt, L = cnt // per, r["acs"][min(f, len(r["acs"]) - 1)] // per
            bad = None
            if gen.endswith("Equispaced") and abs(cnt - tgt) > 2 + 1e-9:
                bad = f"|count - N/R| = {abs(cnt - tgt):.3f} > 2 columns"
            elif gen in ("Gaussian1D", "Gaussian2D") and L + 0.5 <= tgt and abs(cnt - tgt) > 1 + 1e-9:
                bad = f"|count - N/R| = {abs(cnt - tgt):.3f} > 1 sample"
            elif gen == "VariableDensityPoisson" and cnt and not abs(rows * cols / cnt - float(conf["accelerations"][0])) < 0.2:
                bad = f"|R_actual - R| = {abs(rows * cols / cnt - float(conf['accelerations'][0])):.3f} >= tol"
            if bad:
                yield Violation(f"unseeded-budget/{gen}", f"{gen} unseeded call: {bad}", dict(rep, seed=None, frame=f, observed=cnt, expected=tgt))
    # enumeration of the equispaced family on the implementation: the property's bound itself
    n_enum = 0
    enum_worst = (0.0, None)
    for e in store["enum"]:
        if e.get("err") is not None or "L" not in e:
            continue
        tgt = e["N"] / float(e["R"])
        for off, cnt in enumerate(e["counts"]):
            n_enum += 1
            dev = abs(cnt - tgt)
            if dev > enum_worst[0]:
                enum_worst = (dev, {"gen": e["gen"], "N": e["N"], "R": e["R"], "cf": e["cf"], "L": e["L"], "offset": off, "count": cnt})
            if dev > 2.0 + 1e-9:
                yield Violation(f"equispaced-budget/{e['gen']}", f"{e['gen']}: |count - N/R| = {dev:.3f} > 2 columns (forced offset)",
                                {"op": "enum", "gen": e["gen"], "N": e["N"], "R": e["R"], "cf": e["cf"], "offset": off,
                                 "observed": cnt, "expected": tgt})
        ctx.count(("enum", e["gen"], e["N"], e["R"], e["cf"]), True, bucket=f"oracle/enum/{e['gen']}")
    # random masks: mean count over seeds vs N/R, 6 sigma — every frame of a dynamic / multislice call separately
    for s in store["stats"]:
        r, N, R = s["res"], s["N"], float(s["R"])
        n, L = r["n"], r["L"]
        p = (N / R - L) / (N - L)
        p = min(max(p, 0.0), 1.0)
        sigma = math.sqrt(max((N - L) * p * (1 - p), 0.0) / n)
        for f, tot in enumerate(r["sum"]):
            mean = tot / n
            dev = abs(mean - N / R)
            ctx.count(("stats", s["conf"]["gen"], s["conf"]["mode"], N, R, L, s["seed_base"], s["j"], f), True,
                      sample={"gen": s["conf"]["gen"], "mode": s["conf"]["mode"], "frame": f, "N": N, "R": R, "L": L, "seeds": n,
                              "mean": round(mean, 4), "target": round(N / R, 4), "sigma_of_mean": round(sigma, 4)},
                      bucket=f"oracle/stats/{s['conf']['gen']}/{s['conf']['mode']}")
            if dev > 6 * sigma + 1e-9:
                yield Violation(f"random-expectation/{s['conf']['gen']}",
                                f"mean count of frame {f} over {n} seeds {mean:.3f} is {dev / sigma if sigma else float('inf'):.1f} sigma "
                                f"from N/R = {N / R:.3f} ({s['conf']['mode']})",
                                {"op": "stats", "conf": s["conf"], "N": N, "seed_base": s["seed_base"], "j": s["j"], "nseed": s["nseed"],
                                 "shape": s.get("shape"), "frame": f, "observed": mean, "expected": N / R, "sigma": sigma})
    ctx.notes.append(f"worst deviations on the implementation: equispaced sampled {worst['equi']:.3f} cols, equispaced enumerated "
                     f"{enum_worst[0]:.3f} cols over {n_enum} (N,R,cf,offset) at {enum_worst[1]}, gaussian {worst['gauss']:.3f} "
                     f"samples, poisson |R_actual-R|/tol {worst['poisson']:.3f} (crop_corner=False) {worst['poisson_crop']:.3f} "
                     f"(crop_corner=True), VD-Poisson cases with options {n_opts}; reported, not judged: Magic generators "
                     f"{magic_dev:.2f} cols, KtRadial |R_actual-R| {worst['ktradial']:.2f} (crop_corner=False) "
                     f"{worst['ktradial_crop']:.2f} (crop_corner=True), Radial/Spiral |R_actual-R| {worst.get('circus', 0.0):.2f} "
                     f"(pick budget judged), realised minus requested acceleration over the k-t volume: "
                     + "; ".join(f"{g} min {min(v):.2f} max {max(v):.2f} over {len(v)}" for g, v in sorted(kt_report.items()))
                     + "; per frame count minus N/R (columns): "
                     + "; ".join(f"{g} min {min(v):.1f} max {max(v):.1f} over {len(v)} frames" for g, v in sorted(kt_frames.items())))


_OP_WHAT = {
    "random": "random line mask of one frame for the recorded uniforms",
    "equi": "equispaced frame (count, offset bound, grid columns outside the ACS) for the drawn offset",
    "equienum": "equispaced counts for every offset the generator can draw",
    "equit": "equispaced frame at exact ties (tie directions read off the real mask; everything else from the model)",
    "gauss1d": "Gaussian 1-D request and mask for the replayed libc candidate stream",
    "gauss2d": "Gaussian 2-D request and count for the replayed libc candidate stream",
    "choose": "which (acceleration, centre fraction) pair the call uses",
    "circusm": "CIRCUS: number of picks per nested square for the (ACS-adjusted) acceleration",
    "magic": "Magic (offset) frame: #ACS, integer step, count and columns for the drawn offsets",
    "bisectiv": "VD-Poisson bisection: outcome, iterations, probed slopes (binary64 midpoint), acceleration of the returned mask",
}


def search(ctx: Ctx, dis: list, lean) -> list:
    """a disagreement between the real code and the model the theorems are about IS a concrete input: report it with the
    generator call behind the protocol line"""
    out, seen = [], set()
    for d in dis:
        op = d["line"].split(" ", 1)[0]
        if op in seen:
            continue
        seen.add(op)
        src = _LINE_CASE.get(d["line"], {})
        out.append(Violation(
            f"model-mismatch:{op}",
            f"{_OP_WHAT.get(op, op)} - the implementation answers differently from the model the C07 theorems are proved about: "
            f"call {json_short(src)} line `{d['line'][:120]}` implementation `{d['impl'][:100]}` model `{d['model'][:100]}`",
            dict(src, op="corr", src_op=src.get("op"), line=d["line"], observed=d["impl"], expected=d["model"])))
    return out


def json_short(x) -> str:
    import json

    return json.dumps(x, default=str)[:200]


def _replay_corr(rep: dict, w) -> bool:
    """re-run the generator call behind a protocol line; True when the implementation still answers differently"""
    ctx = Ctx(PROP, "quick", 0)
    run = {"cases": [], "enum": []}
    try:
        if rep.get("src_op") == "enum":
            run["enum"] = w.call(MOD, "job_equi_enum", {"pairs": [(rep["gen"], rep["R"], rep["cf"])], "widths": [rep["N"]]}, budget=120)
        elif rep.get("src_op") == "history":
            steps = [dict(st) for st in rep["steps"]]
            for st in steps:
                if st["kind"] == "mask" and len(set(st["conf"]["center_fractions"])) == 1:
                    st["acs_ref"] = ref_acs(st["conf"], st["shape"], st["conf"]["center_fractions"][0])
            hc, _ = _history_cases(steps, _run_history(steps))
            run["hist_cases"] = [c for c in hc if c["history_step"] == len(steps) - 1]
        else:
            c = {"conf": rep["conf"], "shape": rep["shape"], "seed": rep["seed"], "infeasible_by_design": False}
            c["res"] = w.call(MOD, "job_case", {"conf": c["conf"], "shape": c["shape"], "seed": c["seed"]}, budget=60)
            run["cases"] = [c]
    except (RC.Hang, RC.WorkerFailure):
        return True
    for item in _correspondence(ctx, run):
        if item["line"].split(" ", 1)[0] == rep["line"].split(" ", 1)[0] and item["line"] == rep["line"]:
            return item["impl"]().strip() != rep["expected"].strip()
    return True      # the call no longer even produces this request: still not what the model says


def replay(rep: dict) -> bool:
    w = RC.Worker()
    try:
        if rep.get("op") == "corr":
            return _replay_corr(rep, w)
        if rep.get("op") == "case":
            c = {"conf": rep["conf"], "shape": rep["shape"], "seed": rep["seed"], "infeasible_by_design": False}
            try:
                c["res"] = w.call(MOD, "job_case", {"conf": c["conf"], "shape": c["shape"], "seed": c["seed"]}, budget=60)
            except (RC.Hang, RC.WorkerFailure):
                return True
            store = {"cases": [c], "hangs": [], "enum": [], "stats": []}
        elif rep.get("op") == "history":
            steps = [dict(st) for st in rep["steps"]]
            for st in steps:
                if st["kind"] == "mask" and len(set(st["conf"]["center_fractions"])) == 1:
                    st["acs_ref"] = ref_acs(st["conf"], st["shape"], st["conf"]["center_fractions"][0])
            try:
                recs = _run_history(steps)
            except (RC.Hang, RC.WorkerFailure):
                return True
            hc, ha = _history_cases(steps, recs)
            last = len(steps) - 1
            store = {"cases": [], "hangs": [], "enum": [], "stats": [],
                     "hist_cases": [c for c in hc if c["history_step"] == last], "hist_acs": [a for a in ha if a["rep"]["step"] == last]}
        elif rep.get("op") == "forms":
            fc = {"conf": rep["conf"], "shape": rep["shape"], "seed": rep["seed"] if rep.get("seed") is not None else 0}
            try:
                r = w.call(MOD, "job_forms", fc, budget=60)
            except (RC.Hang, RC.WorkerFailure):
                return True
            store = {"cases": [], "hangs": [], "enum": [], "stats": [], "forms": [dict(fc, res=r)]}
        elif rep.get("op") == "enum":
            store = {"cases": [], "hangs": [], "stats": [],
                     "enum": w.call(MOD, "job_equi_enum", {"pairs": [(rep["gen"], rep["R"], rep["cf"])], "widths": [rep["N"]]}, budget=60)}
        elif rep.get("op") == "stats":
            seeds = [rep["seed_base"] + 7919 * k + rep["j"] for k in range(rep["nseed"])]
            sshape = rep.get("shape") or [1, rep["N"], 2]
            r = w.call(MOD, "job_random_stats", {"conf": rep["conf"], "shape": sshape, "seeds": seeds}, budget=300)
            store = {"cases": [], "hangs": [], "enum": [],
                     "stats": [{"conf": rep["conf"], "N": rep["N"], "R": rep["conf"]["accelerations"][0], "res": r,
                                "seed_base": rep["seed_base"], "j": rep["j"], "nseed": rep["nseed"], "shape": sshape}]}
        else:
            return True
    finally:
        w.close()
    ctx = Ctx(PROP, "quick", 0)
    _RUN_backup = dict(_RUN)
    _RUN.clear()
    _RUN.update(store)
    try:
        return any(True for _ in oracle(ctx))
    finally:
        _RUN.clear()
        _RUN.update(_RUN_backup)
