"""C13 — samplers partition the data across ranks and never mix volumes in a batch."""
from __future__ import annotations

import collections
import contextlib
import itertools
import math
import pathlib

import boot  # noqa: F401
import torch

from core import Ctx, Violation, err_name, ints, line
from props import c13_hist as H

PROP = "C13"
MANIFEST = {
    "text": "Lean 4 theorems for all layouts / world sizes / ranks / batch sizes / limits / operation histories: chunks() is a "
            "contiguous near-equal split whose pieces concatenate to the input; the rank samplers concatenate to 0..N-1 exactly "
            "once in order and each volume lies on exactly one rank (empty ranks allowed), for every value of the volume limit "
            "(ranks_cover_exactly_once_any_limit); BatchVolumeSampler is a machine with any number of live generator objects "
            "(iter / next / abandon / len in arbitrary interleavings, Model/C13Machine.lean): every pass started in any reachable "
            "state - after complete, abandoned or interleaved passes - yields, per volume in order, its indices cut into pieces of "
            "the batch size, len() of them, then StopIteration (bvs_pass_after_any_history, bvs_machine_batches_single_volume, "
            "bvs_pass_length_eq_len), because no operation writes the object; ConcatDatasetBatchSampler batches lie in the drawn "
            "member's index block; DistributedSampler rank streams dealt round-robin reproduce the one stream of epoch "
            "permutations (no padding / duplication when size is not a multiple of world). Tied to the code by translated kernels "
            "(chunks arithmetic, yield/advance conditions, batch count, offsets, islice arguments) and structural tables with "
            "decided predicates (no method but __init__ writes or advances anything on self, __init__ stores no one-shot "
            "iterator, __iter__ reads only batch_size / end_of_volume / sampler, order limit -> chunks -> select and the "
            "communication defaults of DistributedSequentialSampler.__init__, shared seed of DistributedSampler, call sites of "
            "build_batch_sampler), and by exact differential correspondence of op histories on the real samplers, also built "
            "through Engine.build_batch_sampler and iterated through Engine.build_loader's DataLoader.",
    "note": "Trusted: Lean kernel (+propext, Classical.choice, Quot.sound), the AST translator, harness-side patching of "
            "communication.get_rank/get_world_size/all_gather and recording of random.choices. math.ceil(n / bs) is modelled as "
            "the exact integer ceiling; float_ceil_eq proves the equality for all n < 2^52 for every rounding of the quotient that "
            "is monotone and exact on 53-bit dyadics (the only thing assumed of binary64 division; probed adversarially). No "
            "call site of build_batch_sampler passes a volume limit (table); DistributedSampler has no set_epoch, one generator "
            "seeded once with the shared seed (tables); the concat member is drawn with weights = lengths (table + 6-sigma test "
            "in the thorough tier). Volumes are assumed non-empty (>= 1 slice) as in the property's quantifier: an empty volume "
            "in the middle of the list does make later batches mix volumes (theorem bvs_empty_volume_mixes documents it). The "
            "permutation stream of torch.randperm is an input of the model; multi-process runs are simulated in one process "
            "(ranks patched, all_gather returning rank 0's datum). DataLoader is used with num_workers=0.",
    "technique": "Lean 4 proof (list induction with loop invariant, generator state machine with a 'remaining output' "
                 "refinement, omega) + AST translation bridge + differential correspondence on operation histories",
}
TRUSTED = [
    "Lean 4.33 kernel; axioms ⊆ {propext, Classical.choice, Quot.sound}",
    "harness/translate recipes c13 (Python AST -> Lean) for chunks / BatchVolumeSampler / ConcatDatasetBatchSampler / "
    "DistributedSampler kernels and the structural scans (self reads / writes / iterator-valued attributes, statement order)",
    "torch.utils.data.Sampler base class, OrderedDict / range semantics as encoded by the list model; Python generator "
    "semantics (body runs from yield to yield, nothing runs at iter()) as encoded by Sampler.GenSt / BVS.resume",
    "torch.utils.data.DataLoader (num_workers=0) calls iter(batch_sampler) once per loader iterator and next() once per batch "
    "(observed through the correspondence in mode build_loader)",
    "harness patches direct.utils.communication.get_rank/get_world_size (and all_gather for simulated ranks) and wraps "
    "random.choices to record the drawn member",
    "DistributedSequentialSampler.__init__ (filename slicing, dict building) is hand-modelled; tied by the seq_init_order table "
    "and by correspondence on every rank",
]
ASSUMPTIONS = [
    "binary64 division rounds monotonically and is exact on representable values (IEEE 754 correct rounding implies both): with "
    "that, C13.float_ceil_eq proves math.ceil(n / bs) = integer ceiling for all n < 2^52, bs >= 1 (probed exhaustively for "
    "n <= 600, bs <= 32 and adversarially up to 2^52)",
    "every volume has at least one slice (property quantifier: 1..9 slices)",
    "torch.randperm / torch.arange epochs are supplied to the model as data; that each is a permutation is checked by the oracle",
    "abandoning a generator (del / close() / exception thrown into it / leaked reference) runs no code of __iter__ "
    "(there is no try/finally in it; a write added there would show in bvs_iter_self_writes)",
]
RULE = ("dataset layouts = compositions of up to 6 volumes with 1..9 slices (+ fixed corners: one-slice volumes, batch 1, batch > "
        "largest volume, world > volumes, non-dividing worlds, limits beyond / negative); world 1..8, every rank; batch 1..10; "
        "volume limits; histories of 1..5 iter/len operations with 1..3 passes, and machine histories of 8..150 iter/next/abandon/"
        "len operations with up to 5 live iterators (abandon after k batches, peek, zip, lagging zip, random interleaving, complete "
        "passes) on objects built directly, by Engine.build_batch_sampler, or iterated through Engine.build_loader. non-trivial = "
        "at least 2 volumes in the (limited) layout, or for chunks/dist/concat a split into >= 2 parts of a list with >= 2 "
        "elements; distinct = distinct protocol line")
PENDING_FINDINGS: list[str] = []
EXTRA_LEAN_MODULES = ["DirectVerif.Lemmas.C13Machine", "DirectVerif.Lemmas.C13Bvs", "DirectVerif.Lemmas.C13Chunks",
                      "DirectVerif.Lemmas.C13Misc"]   # helper lemmas: hygiene-checked and axiom-audited too


# --------------------------------------------------------------------------------------------------
class FakeDataset:
    """What the samplers read from a dataset: `volume_indices` (OrderedDict filename -> range)."""

    def __init__(self, layout):
        self.volume_indices = collections.OrderedDict()
        off = 0
        for v, n in enumerate(layout):
            self.volume_indices[pathlib.Path(f"vol_{v:02d}.h5")] = range(off, off + n)
            off += n
        self.n = off

    def __len__(self):
        return self.n


class Sized:
    def __init__(self, n):
        self.n = n

    def __len__(self):
        return self.n


@contextlib.contextmanager
def patched_comm(rank: int, world: int):
    import direct.utils.communication as comm

    old = comm.get_rank, comm.get_world_size
    comm.get_rank, comm.get_world_size = (lambda: rank), (lambda: world)
    try:
        yield
    finally:
        comm.get_rank, comm.get_world_size = old


class _RecordingRandom:
    """stands in for the `random` module inside direct.data.samplers: records what `choices` returns"""

    def __init__(self, real):
        self._real = real
        self.draws = []

    def choices(self, population, weights=None, **kw):
        r = self._real.choices(population, weights=weights, **kw)
        self.draws.append(int(r[0]))
        return r

    def __getattr__(self, name):
        return getattr(self._real, name)


@contextlib.contextmanager
def recorded_choices():
    import direct.data.samplers as S

    real = S.random
    rec = _RecordingRandom(real)
    S.random = rec
    try:
        yield rec
    finally:
        S.random = real


def _vol_ids(sampler):
    return [int(p.stem.split("_")[1]) for p in sampler.volume_indices.keys()]


def _make_seq(layout, world, rank, limit):
    from direct.data.samplers import DistributedSequentialSampler

    return DistributedSequentialSampler(FakeDataset(layout), num_replicas=world, rank=rank,
                                        limit_number_of_volumes=(limit if limit != 0 else None))


def _fmt_ops(results):
    groups = []
    for kind, val in results:
        if kind == "iter":
            groups.append(ints(len(b) for b in val))
            groups.append(ints(i for b in val for i in b))
        else:
            groups.append(str(int(val)))
    return ("ok " + " | ".join(groups)).strip()


def _run_ops(bvs, ops):
    out = []
    for o in ops:
        if o == 0:
            out.append(("iter", [list(map(int, b)) for b in bvs]))
        else:
            out.append(("len", len(bvs)))
    return out


def _catch(fn):
    def run():
        try:
            return fn()
        except (ValueError, TypeError, IndexError, ZeroDivisionError, AssertionError, StopIteration, KeyError) as e:
            return "err " + err_name(e)
    return run


def _rand_layout(rng, max_vols=6):
    return [rng.randint(1, 9) for _ in range(rng.randint(1, max_vols))]


def _rand_ops(rng):
    n_it = rng.randint(1, 3)
    ops = [0] * n_it + [1] * rng.randint(0, 2)
    rng.shuffle(ops)
    return ops


# --------------------------------------------------------------------------------------------------
def correspondence(ctx: Ctx):
    from direct.data.samplers import (BatchVolumeSampler, ConcatDatasetBatchSampler, DistributedSampler)
    from direct.utils import chunks
    from torch.utils.data.sampler import Sampler

    rng = ctx.rng

    # ---- chunks
    def impl_chunks(n, k):
        return ("ok " + " | ".join(ints(c) for c in chunks(list(range(n)), k))).strip()

    pairs = [(n, k) for n in range(0, 13) for k in range(1, 10)] if ctx.thorough else \
        [(rng.randint(0, 14), rng.randint(1, 9)) for _ in range(40)]
    pairs += [(5, 0), (0, 0), (7, 12), (0, 3)]
    for n, k in pairs:
        yield {"line": line("chunks", [n, k]), "impl": _catch(lambda n=n, k=k: impl_chunks(n, k)),
               "nontrivial": n >= 2 and k >= 2, "bucket": "chunks/" + ("err" if k == 0 else "k>n" if k > n else "k<=n")}

    # ---- sequential sampler + batch volume sampler: operation histories
    def seq_case(layout, world, rank, limit):
        def impl():
            s = _make_seq(layout, world, rank, limit)
            return ("ok " + ints(s) + " | " + ints(_vol_ids(s))).strip()
        nvol = len(layout) if limit == 0 else len(layout[:limit])
        return {"line": line("seq", layout, [world, rank, limit]), "impl": _catch(impl), "nontrivial": nvol >= 2,
                "bucket": "seq/" + ("bad" if not (0 <= rank < world) else "empty-rank" if rank >= nvol else
                                    "limit" if limit else "plain")}

    def bvs_case(layout, world, rank, limit, bs, ops):
        def impl():
            s = _make_seq(layout, world, rank, limit)
            b = BatchVolumeSampler(s, batch_size=bs)
            return _fmt_ops(_run_ops(b, ops))
        nvol = len(layout) if limit == 0 else len(layout[:limit])
        passes = sum(1 for o in ops if o == 0)
        return {"line": line("bvs", layout, [world, rank, limit, bs], ops), "impl": _catch(impl), "nontrivial": nvol >= 2,
                "bucket": f"bvs/passes={passes}/" + ("bad" if not (0 <= rank < world) or bs <= 0 else
                                                     "empty-rank" if rank >= nvol else "world>1" if world > 1 else "world=1")}

    def rand_cfg(layout):
        world = rng.choice([1, 1, 2, 2, 3, 4, 5, 6, 7, 8])
        rank = rng.randrange(world)
        limit = rng.choice([0, 0, 0, rng.randint(1, 7)])
        bs = rng.randint(1, 10)
        return world, rank, limit, bs

    layouts = []
    if ctx.thorough:   # exhaustive for <= 3 volumes
        for k in (1, 2, 3):
            layouts += [list(t) for t in itertools.product(range(1, 10), repeat=k)]
    layouts += [_rand_layout(rng) for _ in range(ctx.budget(160, 1500))]
    for layout in layouts:
        world, rank, limit, bs = rand_cfg(layout)
        yield bvs_case(layout, world, rank, limit, bs, _rand_ops(rng))
        if rng.random() < 0.4:
            yield seq_case(layout, world, rank, limit)
    # fixed corners in every run: one-slice volumes, batch size 1 and > the largest volume, ranks > volumes, world sizes
    # that do not divide the number of volumes, single volume, limits larger than the list / negative
    for layout, world, rank, limit, bs in (
            ([1, 1, 1], 1, 0, 0, 1), ([1, 1, 1], 2, 1, 0, 5), ([9, 9], 1, 0, 0, 10), ([9, 1, 9], 1, 0, 0, 1),
            ([2, 3], 8, 7, 0, 2), ([2, 3], 8, 1, 0, 2), ([5], 3, 0, 0, 2), ([5], 3, 2, 0, 2), ([1], 1, 0, 0, 1),
            ([3, 4, 5, 6, 7, 8], 4, 3, 0, 3), ([3, 4, 5, 6, 7], 3, 1, 0, 4), ([3, 4, 5], 2, 0, -1, 2),
            ([3, 4, 5], 2, 1, 9, 2), ([3, 4, 5, 2], 3, 2, 2, 3)):
        c = bvs_case(layout, world, rank, limit, bs, [0, 1, 0])
        c["bucket"] = "corner/" + c["bucket"]
        yield c
        yield seq_case(layout, world, rank, limit)
    # all ranks of some configurations (partition seen by the model, too)
    for _ in range(ctx.budget(12, 120)):
        layout = _rand_layout(rng)
        world = rng.randint(1, 8)
        limit = rng.choice([0, 0, rng.randint(1, 6)])
        for rank in range(world):
            yield seq_case(layout, world, rank, limit)
    # malformed stream: the code must reject (or treat) these exactly as the model says
    for _ in range(ctx.budget(30, 200)):
        layout = _rand_layout(rng, 4)
        kind = rng.choice(["rank>=world", "world=0", "neg-rank", "bs=0", "neg-limit", "world<0"])
        world, rank, limit, bs = rng.randint(1, 4), 0, 0, rng.randint(1, 5)
        if kind == "rank>=world":
            rank = world + rng.randint(0, 2)
        elif kind == "world=0":
            world = 0
        elif kind == "world<0":
            world = -rng.randint(1, 3)
        elif kind == "neg-rank":
            rank = -rng.randint(1, world + 1)
        elif kind == "bs=0":
            bs, world, rank = 0, rng.randint(1, 6), 0
            rank = rng.randrange(world)
        elif kind == "neg-limit":
            limit = -rng.randint(1, 4)
        c = bvs_case(layout, world, rank, limit, bs, [0, 1]) if rng.random() < 0.6 or kind == "bs=0" \
            else seq_case(layout, world, rank, limit)
        c["bucket"] = "malformed/" + kind
        c["nontrivial"] = False
        yield c

    # ---- several live iterators over one BatchVolumeSampler object: abandoned passes, interleavings, DataLoader
    def nbound(layout, bs):
        return sum(-(-n // max(bs, 1)) for n in layout)

    def bvsm_case(layout, world, rank, limit, bs, mode, scenario=None):
        ops, kinds, scen = H.gen_ops(rng, nbound(layout, bs), scenario)

        def impl():
            _ds, _s, _b, iterable = H.build(layout, world, rank, limit, bs, mode)
            return H.fmt(H.run_ops(iterable, ops, kinds))
        nvol = len(layout) if limit == 0 else len(layout[:limit])
        return {"line": line("bvsm", layout, [world, rank, limit, bs, mode], H.flat(ops)), "impl": _catch(impl),
                "nontrivial": nvol >= 2, "bucket": f"bvsm/{H.MODES[mode]}/{scen}"}

    for scen in ("abandon", "peek", "zip", "zip-lag", "random", "complete"):      # fixed corner layouts, every scenario
        for layout, world, rank, bs in (([3, 5, 2, 4], 1, 0, 2), ([1, 1, 1, 1], 2, 1, 1), ([2, 9, 1], 1, 0, 10),
                                        ([4, 4], 3, 2, 3), ([7], 1, 0, 3), ([1, 6, 2], 2, 0, 4)):
            yield bvsm_case(layout, world, rank, 0, bs, rng.choice([0, 0, 1, 2]), scen)
    for _ in range(ctx.budget(110, 1200)):
        layout = _rand_layout(rng)
        world, rank, limit, bs = rand_cfg(layout)
        yield bvsm_case(layout, world, rank, limit, bs, rng.choice([0, 0, 0, 1, 2]))

    # ---- BatchVolumeSampler over an arbitrary inner sampler (gaps, empty volumes, no volumes)
    class RawSampler(Sampler):
        def __init__(self, indices, vols):
            super().__init__()
            self.indices = indices
            self.volume_indices = collections.OrderedDict((f"v{i}", range(a, b)) for i, (a, b) in enumerate(vols))

        def __iter__(self):
            return iter(self.indices)

        def __len__(self):
            return len(self.indices)

    for _ in range(ctx.budget(60, 600)):
        nv = rng.randint(0, 4)
        vols, off = [], rng.randint(0, 3)
        for _v in range(nv):
            n = rng.choice([0, 1, 2, 3, 4, 5])
            vols.append((off, off + n))
            off += n + rng.choice([0, 0, 0, 1, 2])
        mode = rng.random()
        if mode < 0.6:
            indices = [i for a, b in vols for i in range(a, b)]
        elif mode < 0.8:
            indices = sorted(rng.sample(range(0, off + 2), min(off + 2, rng.randint(0, 8))))
        else:
            indices = [rng.randint(0, off + 1) for _ in range(rng.randint(0, 8))]
        bs = rng.randint(1, 5)
        ops = _rand_ops(rng)

        def impl(indices=indices, vols=vols, bs=bs, ops=ops):
            return _fmt_ops(_run_ops(BatchVolumeSampler(RawSampler(indices, vols), bs), ops))
        empty_vol = any(a == b for a, b in vols)
        yield {"line": line("bvsraw", indices, [a for a, _ in vols], [b for _, b in vols], [bs], ops), "impl": _catch(impl),
               "nontrivial": nv >= 2, "bucket": "bvsraw/" + ("no-volumes" if nv == 0 else "empty-volume" if empty_vol else
                                                            "consistent" if mode < 0.6 else "inconsistent")}
        if rng.random() < 0.5:
            mops, kinds, scen = H.gen_ops(rng, len(indices) + 1)

            def implm(indices=indices, vols=vols, bs=bs, mops=mops, kinds=kinds):
                return H.fmt(H.run_ops(BatchVolumeSampler(RawSampler(indices, vols), bs), mops, kinds))
            yield {"line": line("bvsmraw", indices, [a for a, _ in vols], [b for _, b in vols], [bs], H.flat(mops)),
                   "impl": _catch(implm), "nontrivial": nv >= 2, "bucket": "bvsmraw/" + scen}

    # ---- ConcatDatasetBatchSampler: offsets and batching, drawn member recorded
    for _ in range(ctx.budget(40, 400)):
        sizes = [rng.randint(1, 7) for _ in range(rng.randint(1, 4))]
        bs = rng.randint(1, 5)
        if rng.random() < 0.3:                       # a member smaller than the batch: its batches span several epochs
            sizes[rng.randrange(len(sizes))] = rng.choice([1, 2])
            bs = rng.randint(3, 6)
        seed = rng.randrange(2 ** 20)
        world = rng.choice([1, 1, 2, 3])
        rank = rng.randrange(world)
        ndraws = rng.randint(1, 8)
        bad = rng.random() < 0.1
        if bad:
            if rng.random() < 0.5:
                bs = rng.choice([0, -1])
            else:
                sizes[rng.randrange(len(sizes))] = 0
        state = {}

        def run(sizes=sizes, bs=bs, seed=seed, world=world, rank=rank, ndraws=ndraws, state=state):
            with patched_comm(rank, world), recorded_choices() as rec:
                s = ConcatDatasetBatchSampler([Sized(n) for n in sizes], batch_size=bs, seed=seed)
                batches = [list(map(int, next(s))) for _ in range(ndraws)]
                streams = []
                for n in sizes:
                    ds = DistributedSampler(n, shuffle=True, seed=seed)
                    streams.append([int(i) for i in itertools.islice(iter(ds), ndraws * bs)])
            state["draws"], state["streams"] = rec.draws, streams
            return ("ok " + " | ".join(ints(b) for b in batches)).strip()

        try:
            ans = run()
        except (ValueError, AssertionError) as e:
            ans = "err " + err_name(e)
            state["draws"], state["streams"] = [], [[] for _ in sizes]
        yield {"line": line("concat", sizes, [bs], state["draws"], *state["streams"]), "impl": (lambda ans=ans: ans),
               "nontrivial": len(sizes) >= 2 and not bad, "bucket": "concat/" + ("bad" if bad else "member<bs" if min(sizes) < bs else f"members={len(sizes)}")}

    # ---- the training path: Engine.build_batch_sampler(list of datasets, bs, "random") -> seed=None -> one
    # communication.shared_random_seed() (= np.random.randint(2**31)) per member, in member order; streams rebuilt here from
    # those seeds with torch.randperm directly (independent of DistributedSampler)
    import numpy as np
    from direct.engine import Engine
    for _ in range(ctx.budget(12, 120)):
        sizes = [rng.randint(1, 7) for _ in range(rng.randint(1, 4))]
        bs = rng.randint(1, 5)
        ndraws, k = rng.randint(1, 8), rng.randrange(2 ** 20)
        st = np.random.get_state()
        try:
            np.random.seed(k)
            seeds = [int(np.random.randint(2 ** 31)) for _ in sizes]
            np.random.seed(k)
            with recorded_choices() as rec:
                smp = Engine.build_batch_sampler([H.IndexDataset([n]) for n in sizes], bs, "random")
                batches = [list(map(int, next(smp))) for _ in range(ndraws)]
        finally:
            np.random.set_state(st)
        streams = []
        for n, sd in zip(sizes, seeds):
            g = torch.Generator()
            g.manual_seed(sd)
            need = ndraws * bs
            streams.append([int(i) for _e in range(need // n + 1) for i in torch.randperm(n, generator=g)][:need])
        ans = ("ok " + " | ".join(ints(b) for b in batches)).strip()
        yield {"line": line("concat", sizes, [bs], rec.draws, *streams), "impl": (lambda ans=ans: ans),
               "nontrivial": len(sizes) >= 2, "bucket": "concat/engine-random-seed=None"}

    # ---- DistributedSampler: rank-strided stream over the epoch permutations
    for _ in range(ctx.budget(40, 400)):
        size = rng.randint(1, 8)
        shuffle = rng.random() < 0.7
        seed = rng.randrange(2 ** 20)
        world = rng.randint(1, 5)
        rank = rng.randrange(world)
        count = rng.randint(1, 3 * size)
        bad = rng.random() < 0.08
        if bad:
            size = 0
        epochs = (rank + count * world) // max(size, 1) + 1
        g = torch.Generator()
        g.manual_seed(seed)
        perms = [[int(i) for i in (torch.randperm(size, generator=g) if shuffle else torch.arange(size))]
                 for _ in range(epochs)] if size > 0 else []

        def impl(size=size, shuffle=shuffle, seed=seed, world=world, rank=rank, count=count):
            with patched_comm(rank, world):
                s = DistributedSampler(size, shuffle=shuffle, seed=seed)
                return ("ok " + ints(itertools.islice(iter(s), count))).strip()
        yield {"line": line("dist", [size, rank, world, count], *perms), "impl": _catch(impl),
               "nontrivial": size >= 2 and world >= 2, "bucket": "dist/" + ("bad" if bad else "shuffle" if shuffle else "arange")}
    # seed=None: the seed comes from communication.shared_random_seed() = np.random.randint(2**31) (one process)
    import numpy as np
    for _ in range(ctx.budget(6, 40)):
        size, count, k = rng.randint(2, 8), rng.randint(2, 20), rng.randrange(2 ** 20)
        st = np.random.get_state()
        np.random.seed(k)
        shared = int(np.random.randint(2 ** 31))
        np.random.set_state(st)
        g = torch.Generator()
        g.manual_seed(shared)
        perms = [[int(i) for i in torch.randperm(size, generator=g)] for _ in range(count // size + 1)]

        def impl(size=size, count=count, k=k):
            st = np.random.get_state()
            try:
                np.random.seed(k)
                s = DistributedSampler(size, shuffle=True, seed=None)
            finally:
                np.random.set_state(st)
            return ("ok " + ints(itertools.islice(iter(s), count))).strip()
        yield {"line": line("dist", [size, 0, 1, count], *perms), "impl": _catch(impl), "nontrivial": True,
               "bucket": "dist/seed=None"}


# --------------------------------------------------------------------------------------------------
def _check_config(layout, world, bs, limit, passes=3):
    """The property, stated on the real samplers, for one (layout, world, batch size, limit).
    Yields (key, what, observed)."""
    from direct.data.samplers import BatchVolumeSampler

    ds = FakeDataset(layout)
    names = list(ds.volume_indices.keys())
    if limit:
        names = names[:limit]
    expected_all = [i for f in names for i in ds.volume_indices[f]]
    per_rank = []
    owners = collections.defaultdict(list)
    for rank in range(world):
        try:
            s = _make_seq(layout, world, rank, limit)
        except Exception as e:  # noqa: BLE001
            yield ("seq-raises", f"DistributedSequentialSampler raises {err_name(e)} for rank {rank} of {world}", repr(e))
            return
        idx = [int(i) for i in s]
        per_rank.append(idx)
        for f in s.volume_indices:
            owners[f].append(rank)
        # slices of each of its volumes, in order, contiguous
        exp = [i for f in s.volume_indices for i in ds.volume_indices[f]]
        if idx != exp or len(s) != len(idx):
            yield ("seq-volume-order", f"rank {rank}: indices are not its volumes' slices in order", {"rank": rank, "got": idx})
        try:
            b = BatchVolumeSampler(s, batch_size=bs)
        except Exception as e:  # noqa: BLE001
            yield ("bvs-raises" + ("-empty-rank" if not idx else ""), f"BatchVolumeSampler(...) raises {err_name(e)}", repr(e))
            continue
        for m in range(1, passes + 1):
            tag = "pass1" if m == 1 else "pass2+"
            try:
                batches = [[int(i) for i in bt] for bt in b]
                n = len(b)
            except Exception as e:  # noqa: BLE001
                yield (f"bvs-raises-{tag}" + ("-empty-rank" if not idx else ""),
                       f"iterating BatchVolumeSampler raises {err_name(e)} in pass {m}", {"rank": rank, "pass": m, "err": repr(e)})
                break
            obs = {"rank": rank, "pass": m, "batches": batches, "len": n}
            for bt in batches:
                if not bt or len(bt) > bs:
                    yield (f"bvs-batch-size-{tag}", f"batch of size {len(bt)} with batch_size {bs} (pass {m})", obs)
                if bt != list(range(bt[0], bt[0] + len(bt))) if bt else False:
                    yield (f"bvs-not-consecutive-{tag}", f"batch {bt} is not consecutive (pass {m})", obs)
                if bt and not any(all(i in r for i in bt) for r in ds.volume_indices.values()):
                    yield (f"bvs-mixed-volumes-{tag}", f"batch {bt} mixes volumes (pass {m})", obs)
            if len(batches) != n:
                yield (f"bvs-len-mismatch-{tag}", f"{len(batches)} batches but len() = {n} (pass {m})", obs)
            if [i for bt in batches for i in bt] != idx:
                yield (f"bvs-index-lost-{tag}", f"batches do not flatten to the sampler's indices (pass {m})", obs)
    flat = [i for r in per_rank for i in r]
    if flat != expected_all:
        yield ("seq-cover", "ranks together do not cover every index exactly once in order", {"per_rank": per_rank})
    for f in names:
        if len(owners[f]) != 1:
            yield ("seq-volume-owner", f"volume {f} is assigned to ranks {owners[f]}", {"owners": owners[f]})


def oracle(ctx: Ctx, deep: bool = False):
    """The property stated directly on the implementation."""
    from direct.data.samplers import ConcatDatasetBatchSampler, DistributedSampler
    from direct.utils import chunks

    rng = ctx.rng
    big = deep or ctx.thorough
    # (0) chunks
    for n in range(0, 25 if big else 14):
        for k in range(1, 12 if big else 9):
            ctx.count(("chunks", n, k), n >= 2 and k >= 2, bucket="oracle/chunks")
            xs = list(range(n))
            cs = list(chunks(xs, k))
            lens = [len(c) for c in cs]
            if [x for c in cs for x in c] != xs or len(cs) != k or max(lens) - min(lens) > 1 or lens != sorted(lens, reverse=True):
                yield Violation("chunks-split", f"chunks(range({n}), {k}) is not a contiguous near-equal split",
                                {"op": "chunks", "n": n, "k": k, "observed": cs})
    # (0b) float ceiling used by __len__
    for n in range(0, 601):
        for bs in range(1, 33):
            if math.ceil(n / bs) != -(-n // bs):
                yield Violation("float-ceil", f"math.ceil({n}/{bs}) != integer ceiling", {"op": "ceil", "n": n, "bs": bs})
    ctx.count(("ceil", 600, 32), True, bucket="oracle/float-ceil")
    # adversarial: n = (q-1)*bs + 1 (smallest excess over a multiple) and n = q*bs, up to n < 2**52 — the range for which
    # C13.float_ceil_* prove that correct rounding implies equality with the integer ceiling
    for _ in range(20000 if big else 4000):
        bs = rng.randint(1, 2 ** rng.randint(1, 30))
        q = rng.randint(1, max(1, (2 ** 52 - 1) // bs))
        for n in ((q - 1) * bs + 1, q * bs, (q - 1) * bs + rng.randint(1, bs)):
            if n < 2 ** 52 and math.ceil(n / bs) != -(-n // bs):
                yield Violation("float-ceil", f"math.ceil({n}/{bs}) != integer ceiling", {"op": "ceil", "n": n, "bs": bs})
    ctx.count(("ceil-adversarial", 2 ** 52), True, bucket="oracle/float-ceil")
    # (1) sequential + batch volume samplers
    cfgs = []
    if big:
        for k in (1, 2):
            for t in itertools.product(range(1, 10), repeat=k):
                cfgs.append((list(t), rng.randint(1, 8), rng.randint(1, 10), 0))
    for _ in range(600 if deep else ctx.budget(120, 1500)):
        layout = _rand_layout(rng)
        cfgs.append((layout, rng.randint(1, 8), rng.randint(1, 10), rng.choice([0, 0, 0, rng.randint(1, 6)])))
    for layout, world, bs, limit in cfgs:
        nvol = len(layout) if not limit else len(layout[:limit])
        ctx.count(("cfg", tuple(layout), world, bs, limit), nvol >= 2,
                  sample={"layout": layout, "world": world, "bs": bs, "limit": limit},
                  bucket="oracle/bvs-" + ("world>vols" if world > nvol else "world<=vols"))
        seen = set()
        for key, what, obs in _check_config(layout, world, bs, limit):
            if key in seen:
                continue
            seen.add(key)
            yield Violation(key, what, {"op": "config", "layout": layout, "world": world, "bs": bs, "limit": limit,
                                        "key": key, "observed": obs})
    # (1a) histories with several live iterators over one sampler object (abandoned passes, peeks, zip(bs, bs), dropped
    # DataLoader iterators): every iterator ever created yields the single-volume consecutive batches, len() of them
    for _ in range(900 if deep else ctx.budget(150, 1500)):
        layout = _rand_layout(rng)
        world = rng.choice([1, 1, 1, 2, 2, 3, 4, 8])
        rank = rng.randrange(world)
        bs = rng.randint(1, 10)
        limit = rng.choice([0, 0, 0, rng.randint(1, 6)])
        mode = rng.choice([0, 0, 1, 2])
        ops, kinds, scen = H.gen_ops(rng, sum(-(-n // bs) for n in layout))
        nvol = len(layout) if not limit else len(layout[:limit])
        ctx.count(("hist", tuple(layout), world, rank, bs, limit, mode, tuple(ops)), nvol >= 2,
                  bucket=f"oracle/history/{H.MODES[mode]}/{scen}")
        seen = set()
        for key, what, obs in H.check_history(layout, world, rank, limit, bs, mode, ops, kinds):
            if key in seen:
                continue
            seen.add(key)
            yield Violation(key, f"{what} [{scen}, {H.MODES[mode]}]",
                            {"op": "history", "layout": layout, "world": world, "rank": rank, "bs": bs, "limit": limit,
                             "mode": mode, "ops": [list(o) for o in ops], "abandon_kinds": kinds, "scenario": scen,
                             "key": key, "observed": obs})
    # (1b) OUTSIDE the quantifier (volumes have 1..9 slices): a zero-slice volume in the middle, through the real samplers.
    # Recorded as a note (key empty-volume-after-filter), never a violation; C14's evidence has the H5SliceData run.
    try:
        from direct.data.samplers import BatchVolumeSampler
        note = {"layout": [4, 0, 4, 4]}
        for bs_ in (3, 4, 8):
            b = BatchVolumeSampler(_make_seq([4, 0, 4, 4], 1, 0, 0), batch_size=bs_)
            note[f"batch_size={bs_}"] = {"batches": [list(map(int, x)) for x in b], "len": len(b)}
        ctx.notes.append({"empty-volume-after-filter": note, "status": (
            "NOTE, outside C13's quantifier (volumes with 1..9 slices): after an empty volume next_value stalls, later batches "
            "are cut by batch size only and can mix volumes; len() can differ from the number of batches "
            "(Lean witness C13.bvs_empty_volume_mixes; every theorem assumes non-empty volumes)")})
    except Exception as e:  # noqa: BLE001
        ctx.notes.append({"empty-volume-after-filter": f"probe failed: {err_name(e)}"})
    # (1c) which sampler the engine builds: "sequential" (predict / validation_loop) -> BatchVolumeSampler over a
    # DistributedSequentialSampler of this process' rank; "random" (training_loop) -> ConcatDatasetBatchSampler over shuffling
    # DistributedSamplers; anything else is rejected
    yield from _dispatch_checks(ctx)
    # (2) concat sampler: every batch inside one member, full
    for _ in range(ctx.budget(40, 400)):
        sizes = [rng.randint(1, 9) for _ in range(rng.randint(1, 4))]
        bs, seed, world = rng.randint(1, 6), rng.randrange(2 ** 20), rng.choice([1, 2, 3])
        rank = rng.randrange(world)
        ctx.count(("concat", tuple(sizes), bs, seed, world, rank), len(sizes) >= 2, bucket="oracle/concat")
        bad = _concat_bad(sizes, bs, seed, world, rank, 12)
        if bad is not None:
            yield Violation("concat-batch-mixed-members", f"training batch {bad} is not one full batch of a single member",
                            {"op": "concat", "sizes": sizes, "bs": bs, "seed": seed, "world": world, "rank": rank, "observed": bad})
    # (2b) the member is drawn with probability proportional to its size (6-sigma band; thorough / deep only)
    if big:
        import random as _random
        for sizes in ([1, 3, 6], [2, 2], [5, 1, 1, 3]):
            ctx.count(("concat-weights", tuple(sizes)), True, bucket="oracle/concat-weights")
            st = _random.getstate()
            try:
                _random.seed(rng.randrange(2 ** 30))
                with patched_comm(0, 1), recorded_choices() as rec:
                    s = ConcatDatasetBatchSampler([Sized(n) for n in sizes], batch_size=2, seed=1)
                    for _ in range(4000):
                        next(s)
            finally:
                _random.setstate(st)
            tot = sum(sizes)
            for m, n in enumerate(sizes):
                p = n / tot
                dev = abs(rec.draws.count(m) - 4000 * p) / math.sqrt(4000 * p * (1 - p)) if 0 < p < 1 else 0
                if dev > 6:
                    yield Violation("concat-weights", f"member {m} of sizes {sizes} drawn {rec.draws.count(m)}/4000 times",
                                    {"op": "concat-weights", "sizes": sizes, "member": m, "count": rec.draws.count(m)})
    # (3) distributed sampler: rank streams partition the infinite stream; epochs are permutations
    for _ in range(ctx.budget(30, 300)):
        size, world, seed, shuffle = rng.randint(1, 9), rng.randint(1, 5), rng.randrange(2 ** 20), rng.random() < 0.7
        ctx.count(("dist", size, world, seed, shuffle), size >= 2 and world >= 2, bucket="oracle/dist")
        if _dist_bad(size, world, seed, shuffle):
            yield Violation("dist-partition", "rank streams do not partition a stream of epoch permutations",
                            {"op": "dist", "size": size, "world": world, "seed": seed, "shuffle": shuffle})
    # (3b) seed=None: every process must use the same (shared) seed although their global numpy states differ
    for _ in range(ctx.budget(10, 100)):
        size, world, k = rng.randint(3, 9), rng.randint(2, 5), rng.randrange(2 ** 20)
        ctx.count(("dist-seed-none", size, world, k), True, bucket="oracle/dist-seed=None-simulated-ranks")
        if _dist_seed_none_bad(size, world, k):
            yield Violation("dist-partition-seed-none", "with seed=None the simulated ranks do not share one seed: their streams "
                            "do not partition a stream of epoch permutations",
                            {"op": "dist-seed-none", "size": size, "world": world, "k": k})


def _dispatch_one(layout, world, rank, bs):
    """None, or what is wrong with the samplers / loader the engine builds for this configuration"""
    import direct.data.samplers as S
    import direct.utils.communication as comm
    from direct.engine import Engine

    ds = H.IndexDataset(layout)
    bad = None
    old_gather = comm.all_gather
    try:
        comm.all_gather = lambda data, group=None: [data]      # one process stands in for all ranks
        try:
            with patched_comm(rank, world):
                b = Engine.build_batch_sampler(ds, bs, "sequential", limit_number_of_volumes=None)
                r = Engine.build_batch_sampler([H.IndexDataset([n]) for n in layout], bs, "random")
        finally:
            comm.all_gather = old_gather
        ref = S.DistributedSequentialSampler(ds, num_replicas=world, rank=rank)
        if type(b) is not S.BatchVolumeSampler or type(b.sampler) is not S.DistributedSequentialSampler:
            bad = f"'sequential' builds {type(b).__name__} over {type(getattr(b, 'sampler', None)).__name__}"
        elif list(b.sampler) != list(ref) or b.batch_size != bs or (b.sampler.num_replicas, b.sampler.rank) != (world, rank):
            bad = "'sequential' sampler is not the one of this process (rank/world from communication) with the given batch size"
        elif type(r) is not S.ConcatDatasetBatchSampler or r.batch_size != bs or \
                [type(x) for x in r.samplers] != [S.DistributedSampler] * len(layout) or \
                [(x._size, x._shuffle, x._rank, x._world_size) for x in r.samplers] != [(n, True, rank, world) for n in layout]:
            bad = "'random' does not build a ConcatDatasetBatchSampler over shuffling per-member DistributedSamplers of this rank"
        else:
            loader = Engine.build_loader(ds, batch_sampler=b, num_workers=0)
            if loader.batch_sampler is not b or [x.tolist() for x in loader] != [list(x) for x in b]:
                bad = "build_loader does not iterate the batch sampler it was given, batch by batch"
        for t in ("Random", "sequential ", "", None):
            try:
                Engine.build_batch_sampler(ds, bs, t)
                bad = bad or f"sampler_type {t!r} accepted"
            except ValueError:
                pass
        for arg in (ds, [ds, "x"]):
            try:
                Engine.build_batch_sampler(arg, bs, "random")
                bad = bad or "'random' accepted something that is not a list of datasets"
            except ValueError:
                pass
    except Exception as e:  # noqa: BLE001
        bad = f"raises {err_name(e)}: {e!r}"[:200]
    return bad


def _dispatch_checks(ctx):
    rng = ctx.rng
    for _ in range(ctx.budget(6, 40)):
        layout = _rand_layout(rng)
        world = rng.randint(1, 5)
        rank = rng.randrange(world)
        bs = rng.randint(1, 6)
        ctx.count(("dispatch", tuple(layout), world, rank, bs), len(layout) >= 2, bucket="oracle/dispatch")
        bad = _dispatch_one(layout, world, rank, bs)
        if bad:
            yield Violation("engine-sampler-dispatch", "Engine.build_batch_sampler / build_loader: " + bad,
                            {"op": "dispatch", "layout": layout, "world": world, "rank": rank, "bs": bs, "observed": bad})


def _concat_bad(sizes, bs, seed, world, rank, ndraws):
    from direct.data.samplers import ConcatDatasetBatchSampler

    cum = [0] + list(itertools.accumulate(sizes))
    with patched_comm(rank, world):
        s = ConcatDatasetBatchSampler([Sized(n) for n in sizes], batch_size=bs, seed=seed)
        for _ in range(ndraws):
            b = [int(i) for i in next(s)]
            if len(b) != bs or not any(all(cum[m] <= i < cum[m + 1] for i in b) for m in range(len(sizes))):
                return b
    return None


def _dist_seed_none_bad(size, world, k) -> bool:
    """seed=None on `world` simulated processes whose global numpy streams differ (as they do in real runs): all ranks
    must end up with rank 0's seed (communication.shared_random_seed -> all_gather), otherwise the rank streams do not
    partition one stream of epoch permutations.  all_gather is simulated: it returns rank 0's datum first."""
    import numpy as np
    import direct.utils.communication as comm
    from direct.data.samplers import DistributedSampler

    n = 2 * size + 3
    st = np.random.get_state()
    old_gather = comm.all_gather
    first = []
    streams = []
    try:
        for rank in range(world):
            np.random.seed(k + 7919 * rank)          # every process has its own global numpy state

            def gather(data, group=None, rank=rank):
                if rank == 0:
                    first.append(data)
                return [first[0]] + [data] * (world - 1)
            comm.all_gather = gather
            with patched_comm(rank, world):
                s = DistributedSampler(size, shuffle=True, seed=None)
                streams.append([int(i) for i in itertools.islice(iter(s), n)])
    finally:
        comm.all_gather = old_gather
        np.random.set_state(st)
    merged = [streams[j % world][j // world] for j in range(n * world)]
    return any(sorted(merged[e * size:(e + 1) * size]) != list(range(size)) for e in range(len(merged) // size))


def _dist_bad(size, world, seed, shuffle) -> bool:
    from direct.data.samplers import DistributedSampler

    k = 2 * size + 3
    streams = []
    for rank in range(world):
        with patched_comm(rank, world):
            streams.append([int(i) for i in itertools.islice(iter(DistributedSampler(size, shuffle=shuffle, seed=seed)), k)])
    merged = [streams[n % world][n // world] for n in range(k * world)]
    for e in range(len(merged) // size):
        if sorted(merged[e * size:(e + 1) * size]) != list(range(size)):
            return True
    # the same stream regardless of the world size
    with patched_comm(0, 1):
        single = [int(i) for i in itertools.islice(iter(DistributedSampler(size, shuffle=shuffle, seed=seed)), k * world)]
    return single != merged


def replay(rep: dict) -> bool:
    """Re-run a recorded failing case on the implementation; True when it still fails."""
    op = rep.get("op")
    try:
        if op == "config":
            return any(key == rep.get("key") for key, _, _ in _check_config(rep["layout"], rep["world"], rep["bs"], rep["limit"]))
        if op == "history":
            return any(key == rep.get("key") for key, _, _ in H.check_history(
                rep["layout"], rep["world"], rep["rank"], rep["limit"], rep["bs"], rep["mode"],
                [tuple(o) for o in rep["ops"]], rep.get("abandon_kinds", [])))
        if op == "dispatch":
            return _dispatch_one(rep["layout"], rep["world"], rep["rank"], rep["bs"]) is not None
        if op == "chunks":
            from direct.utils import chunks
            cs = list(chunks(list(range(rep["n"])), rep["k"]))
            lens = [len(c) for c in cs]
            return [x for c in cs for x in c] != list(range(rep["n"])) or len(cs) != rep["k"] or max(lens) - min(lens) > 1
        if op == "concat":
            return _concat_bad(rep["sizes"], rep["bs"], rep["seed"], rep["world"], rep["rank"], 12) is not None
        if op == "dist":
            return _dist_bad(rep["size"], rep["world"], rep["seed"], rep["shuffle"])
        if op == "dist-seed-none":
            return _dist_seed_none_bad(rep["size"], rep["world"], rep["k"])
        if op == "ceil":
            return math.ceil(rep["n"] / rep["bs"]) != -(-rep["n"] // rep["bs"])
    except Exception:  # noqa: BLE001
        return True
    return True
