"""Shared helpers for the mask-generator properties (C04, C06; importable read-only by C05 / C07).

Small interface
---------------
GENERATORS            the 14 generator names in scope; the index is the generator id of the Lean model
MODES                 ["static", "dynamic", "multislice"] (index = mode id of the Lean model)
FAMILY[name]          "line" | "ktline" | "disc"  (how the ACS region is built)
is_kt(name), takes_count(name)
make(name, mode, acceleration, center_fraction, **extra)      -> mask-function instance (real code)
run_spec(spec)        run ONE real generator call described by a JSON-able dict, with a recording
                      RandomState; returns a JSON-able dict (never raises for errors of the code under test)
Worker()              persistent watchdog subprocess: `Worker().run(spec, timeout)` / `.run_many(specs)`;
                      a call that does not return within the timeout yields {"hang": True, ...} and the
                      worker is killed and restarted
sample_case(rng, name, mode=None, feasible=True)               -> spec for a structured random case
pack_rows(tensor, cols) / unpack_rows(ints, cols)               bit-packed rows (bit j = column j)
libc_candidates_1d / libc_candidates_2d                         candidate streams of the Cython Gaussian kernels

Optional spec keys: "via_build": True (construct through `build_masking_function`, unknown kwargs are filtered),
"extra": constructor options (crop_corner, max_attempts, tol, slopes, alpha, std_scale, uniform_range).
`sample_options(rng, name, rows, cols)` draws such options; `risky(spec)` / `isolated(spec)` say which calls should not
share a process with the others; `Worker(env={"VERIF_FORCE_FRONTEND": "1"})` runs the
Cython kernels through the bounds-checked .pyx front-end (an active-list overrun of `_poisson` becomes an IndexError).

A *spec* is {"gen": name, "mode": "static"|…, "shape": [...], "acc": number | [numbers], "cf": number | [numbers] | None,
"seed": int|list|None, "return_acs": bool, "extra": {...}}.  With lists the generator picks one pair per call
(`choose_acceleration`, first recorded draw): `chosen(spec, result)` gives the pair that was used.
"""
from __future__ import annotations

import ctypes
import json
import math
import os
import pathlib
import select
import subprocess
import sys
import time

GENERATORS = [
    "FastMRIRandom", "CartesianRandom", "FastMRIEquispaced", "CartesianEquispaced", "FastMRIMagic",
    "CartesianMagic", "Gaussian1D", "Gaussian2D", "Radial", "Spiral", "VariableDensityPoisson",
    "KtRadial", "KtUniform", "KtGaussian1D",
]
MODES = ["static", "dynamic", "multislice"]
FAMILY = {
    "FastMRIRandom": "line", "CartesianRandom": "line", "FastMRIEquispaced": "line",
    "CartesianEquispaced": "line", "FastMRIMagic": "line", "CartesianMagic": "line", "Gaussian1D": "line",
    "KtUniform": "ktline", "KtGaussian1D": "ktline",
    "Gaussian2D": "disc", "Radial": "disc", "Spiral": "disc", "VariableDensityPoisson": "disc", "KtRadial": "disc",
}
LINE_GENERATORS = [g for g in GENERATORS if FAMILY[g] in ("line", "ktline")]
HERE = pathlib.Path(__file__).resolve().parent


def is_kt(name: str) -> bool:
    return name.startswith("Kt")


def takes_count(name: str) -> bool:
    """Cartesian* generators take the number of centre lines (an int > 1) instead of a fraction."""
    return name.startswith("Cartesian")


def modes_of(name: str) -> list[str]:
    return ["dynamic"] if is_kt(name) else list(MODES)


# --------------------------------------------------------------------------------------------------
# real code access
def _S():
    import boot  # noqa: F401
    from direct.common import subsample

    return subsample


def make(name: str, mode: str, acc, cf, via_build: bool = False, **extra):
    """the real mask function: through the class constructor, or (`via_build`) through
    `build_masking_function(name, …, **extra)` whose keyword filtering then drops what the class does not take"""
    S = _S()
    from direct.types import MaskFuncMode

    accs = list(acc) if isinstance(acc, (list, tuple)) else [acc]
    cfs = None if cf is None else (list(cf) if isinstance(cf, (list, tuple)) else [cf])
    if via_build:
        extra = dict(extra)
        return S.build_masking_function(name, accs, cfs, extra.pop("uniform_range", False), MaskFuncMode(mode), **extra)
    cls = getattr(S, name + "MaskFunc")
    kw = dict(accelerations=accs, **extra)
    if cfs is not None:
        kw["center_fractions"] = cfs
    if not is_kt(name):
        kw["mode"] = MaskFuncMode(mode)
    return cls(**kw)


def _recording_rng():
    import numpy as np

    class RecordingRandomState(np.random.RandomState):
        """np.random.RandomState that logs every draw: [method, args…, result]."""

        def __init__(self, *a, **k):
            super().__init__(*a, **k)
            self.log = []

        @staticmethod
        def _j(v):
            a = np.asarray(v)
            return a.tolist()

        def randint(self, low, high=None, size=None, dtype=int):
            r = super().randint(low, high, size, dtype)
            self.log.append(["randint", None if low is None else float(low), None if high is None else float(high),
                             self._j(r)])
            return r

        def uniform(self, low=0.0, high=1.0, size=None):
            r = super().uniform(low, high, size)
            self.log.append(["uniform", float(low), float(high), self._j(r)])
            return r

        def choice(self, a, size=None, replace=True, p=None):
            r = super().choice(a, size, replace, p)
            self.log.append(["choice", self._j(r)])
            return r

    return RecordingRandomState()


def pack_rows(t, cols: int) -> list[int]:
    """bit-pack a boolean tensor whose flattened rows have `cols` entries (bit j = column j)."""
    import numpy as np

    a = np.asarray(t).astype(bool).reshape(-1, cols)
    w = np.array([1 << j for j in range(cols)], dtype=object)
    return [int(v) for v in (a.astype(object) * w).sum(axis=1)] if a.size else []


def unpack_rows(ints, cols: int):
    import numpy as np

    return np.array([[(int(v) >> j) & 1 for j in range(cols)] for v in ints], dtype=bool).reshape(len(ints), cols)


def run_spec(spec: dict) -> dict:
    """One real call `make(...)(shape, seed=…, return_acs=…)`; JSON-able result.
    (`spec["op"]` selects the other watchdogged entry points: "circus_disc", "bisect_script".)

    result: {"ok": True, "shape": [...], "dtype": "torch.bool", "cols": n, "rows": [packed…], "draws": [...],
             "libc_seeds": [...]} or {"ok": False, "err": "ValueError", "msg": "…", "draws": [...]}"""
    import numpy as np
    import torch

    S = _S()
    if spec.get("op") == "circus_disc":
        return _run_circus_disc(S, spec)
    if spec.get("op") == "bisect_script":
        return _run_bisect_script(S, spec)
    out: dict = {"ok": False}
    rng = None
    try:
        f = make(spec["gen"], spec["mode"], spec["acc"], spec.get("cf"), via_build=bool(spec.get("via_build")),
                 **spec.get("extra", {}))
        rng = _recording_rng()
        f.rng = rng
        seed = spec.get("seed")
        if isinstance(seed, list):
            seed = tuple(seed)
        kw = {}
        if seed is not None:
            kw["seed"] = seed
        if spec.get("return_acs"):
            kw["return_acs"] = True
        shape = tuple(spec["shape"])
        if spec.get("direct_mask_func"):
            m = f.mask_func(shape, **kw)
        else:
            m = f(shape, **kw)
        cols = shape[-2] if len(shape) >= 2 else 1
        out = {"ok": True, "shape": list(m.shape), "dtype": str(m.dtype) if isinstance(m, torch.Tensor) else str(type(m)),
               "cols": cols, "rows": pack_rows(m.numpy() if isinstance(m, torch.Tensor) else np.asarray(m), cols)
               if m.numel() % max(cols, 1) == 0 else None}
    except BaseException as e:  # noqa: BLE001 - canonicalised
        if isinstance(e, (KeyboardInterrupt, SystemExit)):
            raise
        out = {"ok": False, "err": type(e).__name__, "msg": str(e)[:200]}
    out["draws"] = rng.log if rng is not None else []
    return out


def _run_circus_disc(S, spec: dict) -> dict:
    """`CIRCUSMaskFunc.circular_centered_mask(mask)` on a packed boolean mask."""
    import torch

    rows, cols = spec["rows"], spec["cols"]
    try:
        m = torch.from_numpy(unpack_rows(spec["mask"], cols).reshape(rows, cols))
        r = S.CIRCUSMaskFunc.circular_centered_mask(m)
        return {"ok": True, "shape": list(r.shape), "dtype": str(r.dtype), "rows": pack_rows(r.numpy(), cols)}
    except Exception as e:  # noqa: BLE001
        return {"ok": False, "err": type(e).__name__, "msg": str(e)[:200]}


def _run_bisect_script(S, spec: dict) -> dict:
    """`VariableDensityPoissonMaskFunc.poisson` with the rasterisation kernel `_poisson` replaced by a
    scripted stand-in: the k-th evaluation produces a mask whose acceleration is within tolerance /
    too low / too high as `script[k]` says (0 / 1 / 2; `2` after the script ends) — or, with
    `spec["threshold"]`, too low below that slope and too high from it on.  Returns the number
    of evaluations and the last slope (exact: read back from `radius_x` at a cell with r = 1)."""
    import numpy as np

    n, acc, script = spec["n"], spec["acc"], list(spec["script"])
    f = make("VariableDensityPoisson", "static", acc, 1e-9, **spec.get("extra", {}))
    state = {"calls": 0, "slope": None}
    target = n * n // acc

    def fake(nx, ny, max_attempts, mask, rx, ry, seed):
        k = state["calls"]
        state["calls"] += 1
        state["slope"] = float(rx[0, ny // 2]) - 1.0
        v = script[k] if k < len(script) else 2
        if spec.get("threshold") is not None:      # verdict as a function of the slope
            v = 1 if state["slope"] < spec["threshold"] else 2
        flat = mask.reshape(-1)
        if v == 0:
            flat[:target] = 1
        elif v == 1:
            flat[:] = 1
        else:
            flat[:1] = 1

    old = S._poisson
    S._poisson = fake
    try:
        f.poisson(n, n, 1e-9, acc, 0)
        return {"ok": True, "calls": state["calls"], "slope": state["slope"]}
    except Exception as e:  # noqa: BLE001
        return {"ok": False, "err": type(e).__name__, "msg": str(e)[:200], "calls": state["calls"]}
    finally:
        S._poisson = old


# --------------------------------------------------------------------------------------------------
# candidate streams of the Cython kernels (libc rand, Box–Muller) — see direct/common/_gaussian.pyx
_libc = None
RAND_MAX = 2147483647


def _rand_uniform():
    return _libc.rand() / RAND_MAX


def _srand(seed: int):
    global _libc
    if _libc is None:
        _libc = ctypes.CDLL("libc.so.6")
        _libc.rand.restype = ctypes.c_int
    _libc.srand(ctypes.c_uint(seed & 0xFFFFFFFF))


def libc_candidates_1d(seed: int, center: int, std: float, n: int, mask: list[bool], need: int, limit: int = 200000):
    """Candidate indices `int(center + r cos(theta) std)` drawn by `gaussian_mask_1d` after `srand(seed)`
    until `need` new cells of `mask` have been set (or `limit` candidates)."""
    _srand(seed)
    mask = list(mask)
    out = []
    while need > 0 and len(out) < limit:
        r = math.sqrt(-2 * math.log(_rand_uniform()))
        theta = 2 * math.pi * _rand_uniform()
        ind = int(center + r * math.cos(theta) * std)
        out.append(ind)
        if 0 <= ind < n and not mask[ind]:
            mask[ind] = True
            need -= 1
    return out, need == 0


def libc_candidates_2d(seed: int, cx: int, cy: int, sx: float, sy: float, nrow: int, ncol: int, mask: list[bool],
                       need: int, limit: int = 400000):
    """Flat candidate indices (`-1` = out of range) drawn by `gaussian_mask_2d`."""
    _srand(seed)
    mask = list(mask)
    out = []
    while need > 0 and len(out) < limit:
        r = math.sqrt(-2 * math.log(_rand_uniform()))
        theta = 2 * math.pi * _rand_uniform()
        ix = int(cx + r * math.cos(theta) * sx)
        iy = int(cy + r * math.sin(theta) * sy)
        if 0 <= ix < nrow and 0 <= iy < ncol:
            k = ix * ncol + iy
            out.append(k)
            if not mask[k]:
                mask[k] = True
                need -= 1
        else:
            out.append(-1)
    return out, need == 0


# --------------------------------------------------------------------------------------------------
# watchdog worker
class Worker:
    """Persistent subprocess executing `run_spec` (or another function of a props module) on JSON lines.

    `run(spec, timeout)` returns the result dict; on timeout the subprocess is killed (and restarted on
    the next call) and {"ok": False, "hang": True, "err": "Timeout", "timeout": s} is returned."""

    def __init__(self, module: str = "props.maskgen_common", func: str = "run_spec", env: dict | None = None):
        self.module, self.func = module, func
        self.env = dict(env or {})     # e.g. {"VERIF_FORCE_FRONTEND": "1"}: bounds-checked pure-Python Cython kernels
        self.p = None
        self.spawned = 0
        self.hangs = 0

    def _spawn(self):
        env = dict(os.environ, PYTHONDONTWRITEBYTECODE="1", PYTHONWARNINGS="ignore", **self.env)
        code = (f"import sys; sys.path.insert(0, {str(HERE.parent)!r}); import boot, json, importlib\n"
                f"fn = getattr(importlib.import_module({self.module!r}), {self.func!r})\n"
                "out = sys.stdout; sys.stdout = sys.stderr\n"
                "out.write('READY\\n'); out.flush()\n"
                "for line in sys.stdin:\n"
                "    try:\n"
                "        r = fn(json.loads(line))\n"
                "    except BaseException as e:\n"
                "        r = {'ok': False, 'err': type(e).__name__, 'msg': str(e)[:200], 'harness_exception': True}\n"
                "    out.write(json.dumps(r) + '\\n'); out.flush()\n")
        self.p = subprocess.Popen([sys.executable, "-c", code], stdin=subprocess.PIPE, stdout=subprocess.PIPE,
                                  stderr=subprocess.DEVNULL, text=True, bufsize=1, env=env)
        self.spawned += 1
        line = self._readline(120)
        if line is None or line.strip() != "READY":
            self.close()
            raise RuntimeError("mask generator worker did not start")

    def _readline(self, timeout: float):
        fd = self.p.stdout
        t_end = time.time() + timeout
        buf = getattr(self, "_buf", "")
        while "\n" not in buf:
            left = t_end - time.time()
            if left <= 0:
                self._buf = buf
                return None
            r, _, _ = select.select([fd], [], [], left)
            if not r:
                self._buf = buf
                return None
            chunk = os.read(fd.fileno(), 1 << 16).decode()
            if chunk == "":
                self._buf = buf
                return None
            buf += chunk
        line, buf = buf.split("\n", 1)
        self._buf = buf
        return line

    def run(self, spec: dict, timeout: float = 20.0) -> dict:
        if self.p is None or self.p.poll() is not None:
            self._buf = ""
            self._spawn()
        self.p.stdin.write(json.dumps(spec) + "\n")
        self.p.stdin.flush()
        line = self._readline(timeout)
        if line is None:
            died = self.p.poll() is not None
            self.close()
            if died:
                return {"ok": False, "err": "WorkerDied", "msg": "worker process exited", "died": True}
            self.hangs += 1
            return {"ok": False, "hang": True, "err": "Timeout", "timeout": timeout}
        return json.loads(line)

    def run_many(self, specs, timeout: float = 20.0):
        return [self.run(s, timeout) for s in specs]

    def close(self):
        if self.p is not None:
            try:
                self.p.kill()
                self.p.wait(timeout=10)
            except Exception:  # noqa: BLE001
                pass
            self.p = None
            self._buf = ""

    def __del__(self):
        self.close()


# --------------------------------------------------------------------------------------------------
# structured random cases
SIZES = [8, 9, 10, 11, 12, 13, 15, 16, 17, 20, 21, 24, 25, 31, 32, 33, 40, 47, 48, 63, 64, 65, 79, 80]
ACCELERATIONS = [2, 3, 4, 5, 6, 8, 10]
FRACTIONS = [0.04, 0.08, 0.1, 0.125, 0.15, 0.2, 0.25, 0.3]


def py_round(x: float) -> int:
    return int(round(x))


def disc_radius(rows: int, cols: int, scale: float) -> int:
    import numpy as np

    return int(np.sqrt(np.prod((rows, cols)) * scale / np.pi))


def disc_count(rows: int, cols: int, radius: int) -> int:
    cx, cy = rows // 2, cols // 2
    return sum(1 for x in range(rows) for y in range(cols) if (x - cx) ** 2 + (y - cy) ** 2 < radius ** 2)


def num_low_freqs(name: str, cols: int, cf) -> int:
    """the requested number of centre columns (before the Magic cap)"""
    if takes_count(name):
        return int(cf)
    return py_round(cols * cf)


def feasible(name: str, rows: int, cols: int, acc, cf) -> bool:
    """(acceleration, centre fraction) pairs for which the generator is specified to return a mask."""
    if FAMILY[name] in ("line", "ktline"):
        l = num_low_freqs(name, cols, cf)
        if l < 1 or l >= cols:
            return False
        if name.endswith("Magic"):
            t = py_round(cols / acc)
            return t > 1 and l < t
        # the ACS block must fit in the budget
        return l * acc < cols and (cols / acc - l) >= 1
    r = disc_radius(rows, cols, cf)
    if r < 1:
        return False
    L = disc_count(rows, cols, r)
    if not (L * acc < rows * cols and (rows * cols / acc - L) >= 1):
        return False
    if name == "KtRadial":   # at least one beam: int(rate * mean(rows, cols)) >= 1
        adjusted = (acc * (L - rows * cols)) / (L * acc - rows * cols)
        return int((1 / adjusted) * ((rows + cols) / 2)) >= 1
    return True


def sample_shape(rng, name: str, mode: str, rank=None, small=False):
    rank = rank or rng.choice([3, 4, 5])
    if mode != "static" and rank < 4:
        rank = rng.choice([4, 5])
    sizes = SIZES[:12] if small else SIZES
    rows, cols = rng.choice(sizes), rng.choice(sizes)
    if rng.random() < 0.2:
        cols = rows
    if name == "VariableDensityPoisson" and rng.random() < 0.5:
        # clearly non-square, both orders: the per-axis Poisson-disc radii are scaled by rows/max and cols/max
        a, b = rng.choice([8, 9, 12, 16]), rng.choice([2, 3, 4])
        rows, cols = (a, min(a * b, 64)) if rng.random() < 0.5 else (min(a * b, 64), a)
    lead = [rng.choice([1, 2, 3, 4]) for _ in range(rank - 3)]
    if is_kt(name) and lead:
        lead[-1] = rng.choice([2, 3, 4, 5])
    return lead + [rows, cols, 2]


def sample_params(rng, name: str, rows: int, cols: int, want_feasible=True, tries=200):
    """(acc, cf) — feasible when requested (None if none found)."""
    for _ in range(tries):
        acc = rng.choice(ACCELERATIONS)
        if takes_count(name):
            cf = rng.randint(2, max(2, cols // 3))
        else:
            cf = rng.choice(FRACTIONS)
        if feasible(name, rows, cols, acc, cf) == want_feasible:
            return acc, cf
    return None


def sample_options(rng, name: str, rows: int, cols: int) -> dict:
    """rarely used constructor options, per generator (empty dict = defaults)"""
    o: dict = {}
    if name == "VariableDensityPoisson":
        if rng.random() < 0.3:
            o["crop_corner"] = True
        if rng.random() < 0.4:
            o["max_attempts"] = rng.choice([3, 5, 30]) if max(rows, cols) <= 16 else rng.choice([3, 5])
        if rng.random() < 0.3:
            o["tol"] = rng.choice([0.1, 0.5, 1.0])
        if rng.random() < 0.3:
            o["slopes"] = rng.choice([[0, 20], [0.5, 60], [0, 200]])
    elif name == "KtRadial":
        if rng.random() < 0.5:
            o["crop_corner"] = True
    elif name == "KtGaussian1D":
        if rng.random() < 0.4:
            o["alpha"] = rng.choice([0.1, 0.5, 0.8])
        if rng.random() < 0.4:
            o["std_scale"] = rng.choice([2.0, 3.0, 8.0])
    return o


def risky(spec: dict) -> bool:
    """calls known to be able to overrun the compiled `_poisson` kernel's active lists (C07 finding
    generator-crashes/VariableDensityPoisson/active-list-overrun): run them bounds-checked"""
    return spec.get("gen") == "VariableDensityPoisson" and spec.get("extra", {}).get("max_attempts", 10) > 10


def isolated(spec: dict) -> bool:
    """calls that run the `_poisson` kernel: keep them in a worker of their own, so that a memory overrun of the
    compiled kernel cannot corrupt the process that serves the other generators"""
    return spec.get("gen") == "VariableDensityPoisson" and not spec.get("return_acs")


def chosen(spec: dict, res: dict):
    """(acc, cf) actually used by a call: the first recorded draw is `choose_acceleration`'s index."""
    acc, cf = spec["acc"], spec.get("cf")
    if not isinstance(acc, (list, tuple)):
        return acc, cf
    d = res.get("draws") or []
    k = int(d[0][3]) if d and d[0][0] == "randint" else 0
    return acc[k], (cf[k] if isinstance(cf, (list, tuple)) else cf)


def sample_case(rng, name: str, mode=None, feasible_only=True, small=False, rank=None, multi=0.0, options=0.0) -> dict | None:
    mode = mode or rng.choice(modes_of(name))
    small = small or name in ("VariableDensityPoisson", "KtRadial")
    for _ in range(50):
        shape = sample_shape(rng, name, mode, rank=rank, small=small)
        pr = sample_params(rng, name, shape[-3], shape[-2], feasible_only)
        if pr is not None and rng.random() < multi:
            # several (acceleration, centre fraction) pairs: one is chosen per call from the seeded stream
            prs = [pr] + [sample_params(rng, name, shape[-3], shape[-2], feasible_only) for _ in range(rng.choice([1, 2]))]
            if all(q is not None for q in prs) and len({q for q in prs}) > 1:
                pr = ([q[0] for q in prs], [q[1] for q in prs])
        if pr is not None:
            acc, cf = pr
            spec = {"gen": name, "mode": mode, "shape": shape, "acc": acc, "cf": cf,
                    "seed": rng.choice([rng.randrange(2 ** 31), [rng.randrange(256) for _ in range(rng.randint(1, 6))]]),
                    "return_acs": False}
            if rng.random() < options:
                o = sample_options(rng, name, shape[-3], shape[-2])
                if o:
                    spec["extra"] = o
                if rng.random() < 0.5:
                    spec["via_build"] = True
                    if rng.random() < 0.5:      # a keyword most classes do not take: must be filtered, not raise
                        spec.setdefault("extra", {}).setdefault("crop_corner", False)
            return spec
    return None
