"""C14 — volume reconstruction returns each volume once with its slices in order."""
from __future__ import annotations

import collections
import contextlib
import logging
import pathlib
import tempfile
import types

import boot  # noqa: F401
import numpy as np
import torch

from core import Ctx, Violation, err_name, ints, line

PROP = "C14"
MANIFEST = {
    "text": "Lean 4 theorems: the assembly loop of reconstruct_volumes (last_filename / curr_volume / slice_counter / volume_size "
            "as coded), fed with each volume's processed slices cut into ANY non-empty consecutive batches, yields exactly one "
            "tuple per volume, in order, slice k = processed output of the volume's k-th item (loop invariant by induction over "
            "the batch list); hence independence of the batch size; composed with the C13 sampler theorems: predict on rank r "
            "yields exactly rank r's volumes, and all ranks together every volume once, for all layouts / world sizes / batch "
            "sizes; _process_output is pointwise scale-by-own-factor, modulus, centre crop (C10). Tied to the code by translated "
            "kernels (write window, counter, yield condition, filename guard, statement-order tables of the loop and of "
            "_process_output) and by exact differential correspondence with the real reconstruct_volumes / predict / "
            "_process_output on a marker model through a real DataLoader.",
    "note": "Trusted: Lean kernel (+propext, Classical.choice, Quot.sound), the AST translator, torch slice assignment / "
            "broadcasting semantics as encoded by writeSlice and zipWith, DataLoader delivering batches in batch-sampler order for "
            "any number of workers (checked on the implementation with 0..2 workers, not proved), harness patching of "
            "communication.get_rank/get_world_size. The network is replaced by an identifiable marker; float arithmetic is exact "
            "on the integer / dyadic probe data only. Volumes are assumed non-empty; images of width 2 would be taken for complex "
            "data by is_complex_data (outside the generator).",
    "technique": "Lean 4 proof (induction over the batch list with an explicit loop invariant) + AST translation bridge + "
                 "differential correspondence on a toy MRIModelEngine",
}
TRUSTED = [
    "Lean 4.33 kernel; axioms ⊆ {propext, Classical.choice, Quot.sound}",
    "harness/translate recipes c14 (Python AST -> Lean): write window, counter, yield condition, filename guard, stage tables",
    "torch slice assignment / broadcasting / default_collate semantics as encoded by writeSlice, zipWith and loaderBatches",
    "torch DataLoader yields batches in the order of the batch sampler for any num_workers (observed with 0..2 workers)",
    "toy MRIModelEngine subclass (forward_function returns the dataset's marker), harness-side patching of "
    "direct.utils.communication.get_rank/get_world_size, torchvision/tensorboard stubs (boot)",
]
ASSUMPTIONS = [
    "marker data are integer valued and scaling factors dyadic, so float32/float64 arithmetic is exact and outputs are compared "
    "as integers",
    "every volume has at least one slice; image width != 2 for real-valued outputs",
    "loader workers change when batches are produced, not their order",
]
RULE = ("layouts as in C13 (up to 6 volumes x 1..9 slices); batch 1..8; world 1..4, every rank; loader workers 0..2; images 3..5 x "
        "3..5 real or complex (Pythagorean pairs); per-slice dyadic scaling factors; crop on/off via the header path. raw loop: "
        "arbitrary splits of volumes into batches and malformed streams (mixed batch, unknown file, overflow, repetition). "
        "non-trivial = at least 2 volumes and some volume split over >= 2 batches (or a malformed stream); distinct = distinct "
        "protocol line")
PENDING_FINDINGS: list[str] = []

logging.getLogger("direct").setLevel(logging.ERROR)


# --------------------------------------------------------------------------------------------------
def fname(v: int) -> str:
    return f"vol_{v:02d}.h5"


def fid(p) -> int:
    return int(pathlib.Path(p).stem.split("_")[1])


class MarkerDataset(torch.utils.data.Dataset):
    """dataset whose items carry an identifiable marker image of (volume, slice)"""

    def __init__(self, layout, data, scales, recon_size=None):
        self.ndim = 2
        self.volume_indices = collections.OrderedDict()
        self.items = []
        off = 0
        for v, n in enumerate(layout):
            self.volume_indices[pathlib.Path(fname(v))] = range(off, off + n)
            self.items += [(v, s) for s in range(n)]
            off += n
        self.data, self.scales, self.recon_size = data, scales, recon_size

    def __len__(self):
        return len(self.items)

    def __getitem__(self, i):
        v, s = self.items[i]
        m = self.data[i]
        h, w = m.shape[0], m.shape[1]
        item = {"filename": fname(v), "slice_no": s, "scaling_factor": torch.tensor(self.scales[i], dtype=torch.float32),
                "marker": m.clone(), "target": torch.zeros(h, w), "sensitivity_map": torch.ones(1, h, w, 2),
                "sampling_mask": torch.ones(1, h, w, 1)}
        if self.recon_size is not None:
            item["reconstruction_size"] = (self.recon_size[0], self.recon_size[1], 1)
        return item


_ENGINE = None


def engine():
    global _ENGINE
    if _ENGINE is None:
        from direct.config.defaults import DefaultConfig
        from direct.nn.mri_models import MRIModelEngine
        from omegaconf import OmegaConf

        class ToyEngine(MRIModelEngine):
            def forward_function(self, data):
                return data["marker"], None

        _ENGINE = ToyEngine(OmegaConf.structured(DefaultConfig), torch.nn.Linear(1, 1), "cpu")
        _ENGINE.ndim = 2
        # reconstruct_volumes calls gc.collect() for every batch; with torch & co. imported a full collection costs
        # ~50 ms.  Freezing the objects that exist now keeps those calls cheap (no effect on what the code computes).
        import gc
        gc.collect()
        gc.freeze()
    return _ENGINE


@contextlib.contextmanager
def patched_comm(rank: int, world: int):
    import direct.utils.communication as comm

    old = comm.get_rank, comm.get_world_size
    comm.get_rank, comm.get_world_size = (lambda: rank), (lambda: world)
    try:
        yield
    finally:
        comm.get_rank, comm.get_world_size = old


def _int_list(t: torch.Tensor):
    r = t.double().round()
    if not torch.equal(r, t.double()):
        raise ArithmeticError("non-integer output")
    return [int(x) for x in r.reshape(-1).tolist()]


def run_predict(layout, world, rank, bs, workers, data, scales, res):
    """the REAL Engine.predict; returns [(fname id, volume tensor)]"""
    ds = MarkerDataset(layout, data, scales, recon_size=res)
    with patched_comm(rank, world), tempfile.TemporaryDirectory() as d:
        out = engine().predict(ds, pathlib.Path(d), checkpoint=None, num_workers=workers, batch_size=bs,
                               crop="header" if res is not None else None)
    return [(fid(o[-1]), o[0]) for o in out]


def make_data(rng, layout, h, w, cplx):
    """integer markers identifying (item, pixel); dyadic scale num/den per item; data multiples of den"""
    total = sum(layout)
    nums, dens = [], []
    for _ in range(total):
        den = rng.choice([1, 1, 2, 4, 8])
        num = rng.choice([1, 1, 2, 3, 5, 7]) if den == 1 else rng.choice([1, 3, 5])
        nums.append(num)
        dens.append(den)
    base = torch.arange(total * h * w, dtype=torch.float64).reshape(total, h, w) + 1
    mult = torch.tensor(dens, dtype=torch.float64).reshape(total, 1, 1)
    if cplx:
        m = base * mult
        data = torch.stack([3 * m, 4 * m], dim=-1)          # |.| = 5 m exactly (float64)
    else:
        data = (base * mult).float()
    return data, nums, dens


def expected_volumes(layout, data, nums, dens, res, cplx, vols):
    """independent reference: slice k of volume v = crop(|marker| * scale)"""
    out, off = {}, 0
    offs = []
    for n in layout:
        offs.append(off)
        off += n
    for v in vols:
        sl = []
        for k in range(layout[v]):
            i = offs[v] + k
            m = data[i].double()
            if cplx:
                m = (m ** 2).sum(-1).sqrt()
            m = m * nums[i] / dens[i]
            if res is not None:
                H, W = m.shape
                y, x = (H - res[0]) // 2, (W - res[1]) // 2
                m = m[y:y + res[0], x:x + res[1]]
            sl.append(m)
        out[v] = torch.stack(sl).unsqueeze(1)
    return out


# --------------------------------------------------------------------------------------------------
class FakeLoader:
    """what reconstruct_volumes reads from a loader, with hand-made batches"""

    def __init__(self, table, batches):
        vi = collections.OrderedDict((pathlib.Path(fname(f)), range(0, n)) for f, n in table)
        self.dataset = types.SimpleNamespace(volume_indices=vi)
        self.batch_sampler = types.SimpleNamespace(sampler=types.SimpleNamespace(volume_indices=vi))
        self.batches = batches

    def __iter__(self):
        for fns, outs, tgts in self.batches:
            b = len(fns)
            one = torch.ones(b, 3, 3)
            yield {"filename": [fname(f) for f in fns], "scaling_factor": torch.ones(b),
                   "marker": one * torch.tensor(outs, dtype=torch.float32).reshape(b, 1, 1),
                   "target": one * torch.tensor(tgts, dtype=torch.float32).reshape(b, 1, 1),
                   "sensitivity_map": torch.ones(b, 1, 3, 3, 2), "sampling_mask": torch.ones(b, 1, 3, 3, 1)}


def run_recon(table, batches):
    """the REAL reconstruct_volumes over hand-made batches; ([(fid, outs, targets)], error name or None)"""
    gen = engine().reconstruct_volumes(FakeLoader(table, batches), add_target=True, crop=None)
    ys, err = [], None
    try:
        for vol, tgt, _loss, fn in gen:
            for t in (vol, tgt):
                if not torch.equal(t, t[:, :1, :1, :1].expand_as(t)):
                    raise ArithmeticError("slice is not constant")
            ys.append((fid(fn), _int_list(vol[:, 0, 0, 0]), _int_list(tgt[:, 0, 0, 0])))
    except (ValueError, KeyError, RuntimeError) as e:
        err = err_name(e)
    return ys, err


_ERR_CODE = {"ValueError": 1, "KeyError": 2, "RuntimeError": 3}


def _fmt_recon(ys, err):
    groups = [ints([f, len(o)] + o + t) for f, o, t in ys]
    if err:
        groups.append(ints([-1, _ERR_CODE[err]]))
    return ("ok " + " | ".join(groups)).strip()


def _split(rng, n, max_piece):
    """a random composition of n into pieces of size 1..max_piece"""
    out = []
    while n > 0:
        p = rng.randint(1, min(max_piece, n))
        out.append(p)
        n -= p
    return out


def _catch(fn):
    def run():
        try:
            return fn()
        except (ValueError, TypeError, IndexError, KeyError, RuntimeError, AssertionError) as e:
            return "err " + err_name(e)
    return run


# --------------------------------------------------------------------------------------------------
def correspondence(ctx: Ctx):
    from direct.nn.mri_models import _process_output

    rng = ctx.rng

    # ---- _process_output on a batch
    for _ in range(ctx.budget(80, 800)):
        b, h, w = rng.randint(1, 4), rng.randint(3, 6), rng.randint(3, 6)
        cplx = rng.random() < 0.4
        data, nums, dens = make_data(rng, [b], h, w, cplx)
        if rng.random() < 0.3:                      # negative factors too (order of modulus and scaling)
            nums = [-n if rng.random() < 0.5 else n for n in nums]
        r = rng.random()
        if r < 0.35:
            res = None
        elif r < 0.9:
            res = [rng.randint(1, h), rng.randint(1, w)]
        else:
            res = [rng.choice([0, h + 1, h]), rng.choice([w + 2, 0, w])]
        shape = [b, h, w] + ([2] if cplx else [])
        scale = torch.tensor([n / d for n, d in zip(nums, dens)], dtype=torch.float32)

        def impl(data=data, scale=scale, res=res):
            out = _process_output(data.clone(), scale, resolution=res, complex_axis=-1)
            return "ok " + ints(out.shape) + " | " + ints(_int_list(out))
        odd = res is not None and ((h - res[0]) % 2 == 1 or (w - res[1]) % 2 == 1)
        yield {"line": line("process", shape, _int_list(data), nums, dens, res or []), "impl": _catch(impl),
               "nontrivial": b >= 2, "bucket": "process/" + ("complex" if cplx else "real") + ("/nocrop" if res is None else
                                                                                                "/crop-odd" if odd else "/crop")}

    # ---- the raw assembly loop: arbitrary splits and malformed streams
    for _ in range(ctx.budget(300, 3000)):
        nv = rng.randint(1, 5)
        sizes = [rng.randint(1, 9) for _ in range(nv)]
        ids = rng.sample(range(0, 12), nv)
        table = list(zip(ids, sizes))
        batches, marker = [], 1
        multi = False
        for f, n in table:
            pieces = _split(rng, n, rng.randint(1, 8))
            multi = multi or len(pieces) > 1
            for p in pieces:
                outs = list(range(marker, marker + p))
                batches.append(([f] * p, outs, [1000 + o for o in outs]))
                marker += p
        kind = "well-formed"
        if rng.random() < 0.4 and batches:
            kind = rng.choice(["mixed-batch", "unknown-file", "overflow", "extra-single", "repeat-volume", "drop-batch",
                               "swap-batches", "aba", "short-table"])
            j = rng.randrange(len(batches))
            if kind == "mixed-batch":
                fns, o, t = batches[j]
                batches[j] = (fns + [rng.choice(ids) if nv > 1 and rng.random() < 0.7 else 99], o + [777], t + [888])
            elif kind == "unknown-file":
                batches.insert(j, ([50], [5], [6]))
            elif kind == "overflow":
                fns, o, t = batches[j]
                k = rng.randint(2, 3)
                batches.insert(j + 1, ([fns[0]] * k, [900 + i for i in range(k)], [950 + i for i in range(k)]))
            elif kind == "extra-single":
                fns, o, t = batches[j]
                batches.insert(j + 1, ([fns[0]], [901], [951]))
            elif kind == "repeat-volume":
                batches = batches + batches[: rng.randint(1, len(batches))]
            elif kind == "drop-batch":
                del batches[j]
            elif kind == "swap-batches" and len(batches) >= 2:
                k = rng.randrange(len(batches))
                batches[j], batches[k] = batches[k], batches[j]
            elif kind == "aba" and nv >= 2:
                batches = batches + [b for b in batches if b[0][0] == ids[0]]
            elif kind == "short-table":
                table = [(f, max(1, n - 1)) for f, n in table]
        flat_table = [x for fn_ in table for x in fn_]
        groups = []
        for fns, o, t in batches:
            groups += [fns, o + t]

        def impl(table=table, batches=batches):
            return _fmt_recon(*run_recon(table, batches))
        yield {"line": line("recon", flat_table, *groups), "impl": _catch(impl),
               "nontrivial": (nv >= 2 and multi) or kind != "well-formed", "bucket": "recon/" + kind}

    # ---- the real predict(): sampler -> DataLoader -> reconstruct_volumes
    n_pred = ctx.budget(200, 1500)
    n_workers_cases = ctx.budget(8, 40)
    for c in range(n_pred):
        layout = [rng.randint(1, 9) for _ in range(rng.randint(1, 6))]
        if ctx.thorough and c < 90:                      # every layout of <= 2 volumes with <= 9 slices once
            layout = [c % 9 + 1] if c < 9 else [(c - 9) // 9 + 1, (c - 9) % 9 + 1]
        world = rng.choice([1, 1, 2, 2, 3, 4])
        rank = rng.randrange(world)
        bs = rng.randint(1, 8)
        workers = 0
        if c < n_workers_cases:
            workers = 1 + c % 2
            layout = layout[:4]
        h, w = rng.randint(3, 5), rng.randint(3, 5)
        cplx = rng.random() < 0.3
        res = None if rng.random() < 0.5 else [rng.randint(1, h), rng.randint(1, w)]
        if rng.random() < 0.04:
            res = [h + 1, w]                              # center_crop must reject it
        data, nums, dens = make_data(rng, layout, h, w, cplx)
        scales = [n / d for n, d in zip(nums, dens)]

        def impl(layout=layout, world=world, rank=rank, bs=bs, workers=workers, data=data, scales=scales, res=res):
            out = run_predict(layout, world, rank, bs, workers, data, scales, res)
            return ("ok " + " | ".join(ints([f, v.shape[0], v.shape[2], v.shape[3]] + _int_list(v)) for f, v in out)).strip()
        split = any(n > bs for n in layout)
        yield {"line": line("predict", layout, [world, rank, bs], [h, w, int(cplx)], res or [], nums, dens, _int_list(data)),
               "impl": _catch(impl), "nontrivial": len(layout) >= 2 and split,
               "bucket": f"predict/world={world}/workers={workers}/" + ("crop" if res else "nocrop")}


# --------------------------------------------------------------------------------------------------
def _check_predict(layout, world, bs, workers, h, w, cplx, res, seed):
    """The property on the real predict() for one configuration, all ranks. Yields (key, what, observed)."""
    import random

    rng = random.Random(seed)
    data, nums, dens = make_data(rng, layout, h, w, cplx)
    scales = [n / d for n, d in zip(nums, dens)]
    exp = expected_volumes(layout, data, nums, dens, res, cplx, range(len(layout)))
    seen = []
    for rank in range(world):
        try:
            out = run_predict(layout, world, rank, bs, workers, data, scales, res)
        except Exception as e:  # noqa: BLE001
            yield ("predict-raises", f"predict raises {err_name(e)} on rank {rank} of {world}", {"rank": rank, "err": repr(e)})
            continue
        for f, vol in out:
            seen.append(f)
            e = exp.get(f)
            if e is None or tuple(vol.shape) != tuple(e.shape):
                yield ("predict-volume-shape", f"volume {f}: shape {tuple(vol.shape)}, expected {None if e is None else tuple(e.shape)}",
                       {"rank": rank, "volume": f})
            elif not torch.equal(vol.double(), e):
                bad = [k for k in range(e.shape[0]) if not torch.equal(vol[k].double(), e[k])]
                yield ("predict-slice-wrong", f"volume {f}: slices {bad} are not model output x scaling factor (cropped)",
                       {"rank": rank, "volume": f, "bad_slices": bad, "observed": vol[:, 0, 0, 0].tolist(),
                        "expected": e[:, 0, 0, 0].tolist()})
    if seen != list(range(len(layout))):
        missing = [v for v in range(len(layout)) if v not in seen]
        dup = sorted({v for v in seen if seen.count(v) > 1})
        key = "predict-volume-missing" if missing else "predict-volume-duplicated" if dup else "predict-volume-order"
        yield (key, f"volumes yielded over all ranks: {seen} (expected each of 0..{len(layout) - 1} once, in order)",
               {"seen": seen})


def oracle(ctx: Ctx, deep: bool = False):
    """The property stated directly on the implementation (independent numpy/torch reference)."""
    rng = ctx.rng
    n = 300 if deep else ctx.budget(60, 500)
    nw = ctx.budget(4, 20)
    for c in range(n):
        layout = [rng.randint(1, 9) for _ in range(rng.randint(1, 6))]
        world = rng.randint(1, 4)
        bs = rng.randint(1, 8)
        workers = 0
        if c < nw:
            workers, layout, world = 1 + c % 2, layout[:3], min(world, 2)
        h, w = rng.randint(3, 5), rng.randint(3, 5)
        cplx = rng.random() < 0.3
        res = None if rng.random() < 0.5 else [rng.randint(1, h), rng.randint(1, w)]
        seed = rng.randrange(2 ** 30)
        ctx.count(("predict", tuple(layout), world, bs, workers, h, w, cplx, tuple(res or ()), seed),
                  len(layout) >= 2 and any(x > bs for x in layout),
                  sample={"layout": layout, "world": world, "bs": bs, "workers": workers, "res": res},
                  bucket=f"oracle/predict/world={world}/workers={workers}")
        keys = set()
        for key, what, obs in _check_predict(layout, world, bs, workers, h, w, cplx, res, seed):
            if key in keys:
                continue
            keys.add(key)
            yield Violation(key, what, {"op": "predict", "layout": layout, "world": world, "bs": bs, "workers": workers,
                                        "h": h, "w": w, "cplx": cplx, "res": res, "seed": seed, "key": key, "observed": obs})


def replay(rep: dict) -> bool:
    if rep.get("op") == "predict":
        try:
            return any(k == rep.get("key") for k, _, _ in _check_predict(
                rep["layout"], rep["world"], rep["bs"], rep["workers"], rep["h"], rep["w"], rep["cplx"], rep["res"], rep["seed"]))
        except Exception:  # noqa: BLE001
            return True
    return True
