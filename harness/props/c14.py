"""C14 — volume reconstruction returns each volume once with its slices in order."""
from __future__ import annotations

import collections
import contextlib
import json
import logging
import pathlib
import tempfile
import types

import boot  # noqa: F401
import numpy as np
import torch

from core import Ctx, Violation, err_name, ints, line

PROP = "C14"
MANIFEST = {
    "text": "Lean 4 theorems: the assembly loop of reconstruct_volumes (last_filename / curr_volume / slice_counter / volume_size "
            "as coded), fed with each volume's processed slices cut into ANY non-empty consecutive batches, yields exactly one "
            "tuple per volume, in order, slice k = processed output of the volume's k-th item (loop invariant by induction over "
            "the batch list); hence independence of the batch size; composed with the C13 sampler theorems: predict on rank r "
            "yields exactly rank r's volumes, and all ranks together every volume once, for all layouts / world sizes / batch "
            "sizes; _process_output is pointwise scale-by-own-factor, modulus, centre crop (C10). Phase 3: the hypotheses of the "
            "end-to-end theorem are discharged for both supported crop values (predict_full_no_crop is unconditional; "
            "predict_full_header needs only 0 < header size <= image size per volume; predict_full_all_ranks_no_crop); the batch "
            "model now carries slice_no, the target and the loss dict (reconstructL): the result does not depend on slice_no "
            "(reconstruct_ignores_slice_no; the k-th output slice is the k-th slice DELIVERED), targets are assembled at the same "
            "window, and the loss dict yielded with volume k is the mean of the first-batch loss dicts of volumes 0..k "
            "(reconstructL_spec, loss_list_of_kth_yield). Loader model: windowOrders k = delivery orders of a loader with k batches "
            "in flight (torch in_order=False); k = 1 is in-order (predict_full_spec_window_one); tolerated reorderings are exactly "
            "those that keep every volume's batches contiguous (reconstruct_reordered, reconstruct_any_volume_order, "
            "single_batch_volumes_any_order for every k when batch size >= every volume); swapped batches of one volume give "
            "silently permuted slices for every k >= 2 (window_two_can_misorder), interleaved volumes are silently lost "
            "(filename_change_discards_partial_volume, interleaved_volumes_are_lost). Tied to the code by translated kernels "
            "(write window, counter, yield condition, filename guard) and fact tables read from a NORMALISED source (private "
            "helpers inlined, single-assignment locals resolved, slice objects / len(shape) / tuple arithmetic canonicalised, "
            "if-elif-else == early returns == conditional expressions read as decision trees, the last_filename tests evaluated "
            "abstractly for first batch / same file / other file, roles FILENAME / ITER / SCALE / RES / OUT / TGT found by data "
            "flow instead of by the names of locals) of the loop, of _process_output, of "
            "predict / build_loader / build_batch_sampler / _compute_resolution / write_output_to_h5, and (phase 3) tables of the "
            "batch keys the loop reads (slice_no is not among them), of the curr_target / loss_dict_list / yield statements, of "
            "the state written outside locals (none, except predict's ndim / checkpointer; decided predicate), of the callers "
            "(evaluate, validation_loop, direct/inference.py, every call site in the package); and by exact differential "
            "correspondence with the real reconstruct_volumes / predict / _process_output / write_output_to_h5 on a marker model "
            "through real DataLoaders, toy datasets with arbitrary slice_no and REAL H5SliceData with slice_data filters. "
            "Phase 4: the ndim == 3 branch of evaluate (volume.clone().transpose(1, 2).reshape(sc * z, c, x, y)) is in the model "
            "(Recon.transpose12, Recon.evalReshape = row-major merge of the slice and frame axes; executed by the driver op "
            "eval3d): row j of the tensor the metrics see is frame j % z of slice j / z (eval3d_rows_spec, eval3d_entry), "
            "j -> (j / z, j % z) enumerates the (slice, frame) pairs in lexicographic order, each exactly once, and is a strictly "
            "monotone bijection [0, sc*z) -> [0, sc) x [0, z) for ALL sc, z (eval3d_index_enum, eval3d_index_bij, eval3d_length; "
            "sc = 0 / z = 0 included); tied by the translated kernel eval3d_rows (first reshape argument; bridge eval3d_rows_eq, "
            "eval3d_rows_length), the fact table eval3d_facts (unpack of VOL.shape, clone/transpose(1, 2)/reshape chain of volume "
            "and target, the else branch, the metric call), correspondence with the REAL evaluate at ndim = 3 (what the metric "
            "receives for volume and target, c = 1 via _process_output's unsqueeze and c = 3 via 5-D model outputs) and an oracle "
            "with explicit loops over 3-D marker data (layouts x batch sizes x world sizes x per-slice scaling).",
    "note": "Engine.predict / build_loader / build_batch_sampler / _compute_resolution / write_output_to_h5 are inside the model "
            "(predictFull, buildBatchSampler, computeResolution, processBatch, writeOutput) with translated source-order tables, "
            "theorems predict_full_spec (per-volume shapes and header-driven crops), write_roundtrip (any previous directory "
            "content, stale files included in the correspondence), predict_write_all_ranks. The oracle states the property on "
            "five entry points (predict, reconstruct_volumes with add_target on/off and loss/regulariser dicts, evaluate, "
            "validation_loop with two datasets in sequence, inference_on_environment + write_output_to_h5 read back) x dataset "
            "kind (toy / real H5SliceData with slice filters) x slice_no policy x world/batch size (also > every volume)/workers x "
            "crop x output layout (complex, float64, non-contiguous, views) x call history of the shared engine (other dataset "
            "before, abandoned generator, generator that died mid-volume, interleaved generators, second pass over a loader, and a pass "
            "abandoned by break / close() / an exception in the model followed by a new pass over the SAME DataLoader and "
            "BatchVolumeSampler objects with batch size 2..4 and unaligned volumes). "
            "Notes outside the statement: files and evaluate's metrics are keyed by basename only (write_collision_last_wins); "
            "the loss dict of a volume is a running mean over the loader, not that volume's losses (loss_list_not_per_volume; "
            "evidence note loss-dict-running-mean); a zero-slice volume after filtering (evidence note) is outside the "
            "quantifier; _do_iteration takes the modulus of a complex output BEFORE the scaling, the target is scaled first "
            "(equal for the non-negative scaling factors the transforms produce). Trusted: Lean kernel (+propext, "
            "Classical.choice, Quot.sound), the AST translator, torch slice assignment / broadcasting semantics as encoded by "
            "writeSlice and zipWith, default_collate, DataLoader delivering batches in batch-sampler order for the default "
            "in_order=True (probed with 0..2 workers, prefetch 1/2/4; with in_order=False the observed orders are checked to be "
            "windowOrders(workers x prefetch) orders), harness patching of communication.get_rank/get_world_size and of "
            "inference.build_dataset_from_input / build_metrics. The network is replaced by an identifiable marker; float "
            "arithmetic is exact on the integer / dyadic probe data only. Volumes are assumed non-empty; images of width 2 would "
            "be taken for complex data by is_complex_data (outside the generator); evaluate's 3-D reshaping before the metrics "
            "(ndim == 3) is modelled and proved (phase 4); still NOT modelled in that branch: the visualisation slices "
            "(torch.cat of every third frame) and log_first_training_example_and_model's 3-D path; with c = 1 the transpose is a "
            "no-op on the data, so dropping it is only visible on c > 1 outputs (covered by the c = 3 cases).",
    "technique": "Lean 4 proof (induction over the batch list with an explicit loop invariant, permutation arguments for the loader "
                 "model) + AST translation bridge (kernels + structure tables with decided predicates) + differential correspondence "
                 "on a toy MRIModelEngine + property oracle over entry points x datasets x histories",
}
TRUSTED = [
    "Lean 4.33 kernel; axioms ⊆ {propext, Classical.choice, Quot.sound}",
    "harness/translate recipes c14, c14_norm, c14_loop (Python AST -> Lean): write window, counter, yield condition, filename "
    "guard, normalisation (helper inlining, local resolution, canonical spellings, decision trees), stage / loop-reads / target / "
    "state-writes / caller tables",
    "torch slice assignment / broadcasting / default_collate semantics as encoded by writeSlice, zipWith and loaderBatches",
    "torch transpose(1, 2) + reshape merging the two leading axes of a (sc, z, c, x, y) tensor = row-major concatenation, as "
    "encoded by Recon.transpose12 / Recon.evalReshape (checked against the real evaluate by the eval3d correspondence cases)",
    "torch DataLoader (default in_order=True) yields batches in the order of the batch sampler for any num_workers (observed with "
    "0..2 workers, prefetch 1/2/4); with in_order=False it has num_workers x prefetch_factor batches in flight (observed orders are "
    "checked against Recon.windowOrders)",
    "toy MRIModelEngine subclass (forward_function returns the dataset's marker; build_metrics replaced by a recording metric), "
    "harness-side patching of direct.utils.communication.get_rank/get_world_size and direct.inference.build_dataset_from_input, "
    "torchvision/tensorboard stubs (boot); h5py for the temporary files of the real H5SliceData",
]
ASSUMPTIONS = [
    "marker data are integer valued and scaling factors dyadic, so float32/float64 arithmetic is exact and outputs are compared "
    "as integers",
    "every volume has at least one slice; image width != 2 for real-valued outputs",
    "loader workers change when batches are produced, not their order (torch default in_order=True; hypothesis InOrder / "
    "windowOrders 1 of the end-to-end theorems)",
    "scaling factors are non-negative where complex model outputs are concerned (modulus before scaling in _do_iteration)",
]
RULE = ("layouts as in C13 (up to 6 volumes x 1..9 slices); batch 1..8 and 16; world 1..4, every rank; loader workers 0..2; images "
        "3..5 x 3..5 real or complex (Pythagorean pairs); per-slice dyadic scaling factors; crop on/off via the header path; "
        "slice_no policy pos/offset/stride/gaps/reversed/shuffled/constant/global or a real H5SliceData with slice_data filter; "
        "entry point predict/recon/evaluate/validation_loop/inference; history fresh/after-other/after-break/after-error/"
        "interleaved/second-pass/reuse-break/reuse-close/reuse-throw (same loader and sampler objects). raw loop: arbitrary splits of volumes into batches with arbitrary slice_no and loss dicts, "
        "malformed streams (mixed batch, unknown file, overflow, repetition) and reordered streams (window-2/3 delivery, volume "
        "order, interleaving). eval3d (ndim == 3): 1..3 volumes x 1..4 slices, 1..5 frames, c 1 or 3, images 3..4 x 3..4, batch "
        "1..5, world 1..2, dyadic per-slice scaling. non-trivial = at least 2 volumes and some volume split over >= 2 batches (or a malformed / "
        "reordered stream); distinct = distinct protocol line / case")
PENDING_FINDINGS: list[str] = []
_RECON_CASES: dict = {}      # protocol line -> replayable description (well-formed streams), for `search`
_PREDICT_CASES: dict = {}
_EVAL3D_CASES: dict = {}    # protocol line -> case of the ndim == 3 branch
_PREV_STREAM: dict = {}       # the stream the engine processed just before (call history of the shared engine)

logging.getLogger("direct").setLevel(logging.ERROR)


# --------------------------------------------------------------------------------------------------
from props import c14_cases as cases  # noqa: E402
from props.c14_cases import MarkerDataset, engine, fid, fname, patched_comm  # noqa: E402,F401


def _int_list(t: torch.Tensor):
    r = t.double().round()
    if not torch.equal(r, t.double()):
        raise ArithmeticError("non-integer output")
    return [int(x) for x in r.reshape(-1).tolist()]


CROP_ARG = {0: None, 1: "header", 2: "foo", 3: ""}


def run_predict(layout, world, rank, bs, workers, data, scales, recon, crop=None, slice_nos=None, cplx=False):
    """the REAL Engine.predict; returns the list it returns: [(volume, loss dict, filename)]"""
    ds = MarkerDataset(layout, data, scales, recon=recon, slice_nos=slice_nos, cplx=cplx)
    with patched_comm(rank, world), tempfile.TemporaryDirectory() as d:
        return engine().predict(ds, pathlib.Path(d), checkpoint=None, num_workers=workers, batch_size=bs, crop=crop)


def read_dir(d: pathlib.Path):
    """[(file id, key list, dtype, array)] of the h5 files in a directory, by name"""
    import h5py

    out = []
    for p in sorted(d.glob("*.h5")):
        with h5py.File(p, "r") as f:
            keys = sorted(f.keys())
            arr = f[keys[0]][()] if keys else None
        out.append((fid(p), keys, None if arr is None else arr.dtype, arr))
    return out


def _fmt_vol(f, arr):
    """`f n h w data…` for an array of shape (n, h, w)"""
    t = torch.as_tensor(np.asarray(arr))
    return ints([f, t.shape[0], t.shape[1], t.shape[2]] + _int_list(t))


def make_data(rng, layout, hs, ws, cplx):
    """integer markers identifying (item, pixel); dyadic scale num/den per item; data multiples of den.
    hs/ws = spatial shape per volume.  Returns (list of per-item tensors, nums, dens)."""
    total = sum(layout)
    nums, dens = [], []
    for _ in range(total):
        den = rng.choice([1, 1, 2, 4, 8])
        num = rng.choice([1, 1, 2, 3, 5, 7]) if den == 1 else rng.choice([1, 3, 5])
        nums.append(num)
        dens.append(den)
    data, i, label = [], 0, 1
    for v, n in enumerate(layout):
        h, w = hs[v], ws[v]
        for _s in range(n):
            base = torch.arange(h * w, dtype=torch.float64).reshape(h, w) + label
            label += h * w
            m = base * dens[i]
            data.append(torch.stack([3 * m, 4 * m], dim=-1) if cplx else m.float())   # |.| = 5 m exactly (float64)
            i += 1
    return data, nums, dens


def expected_volumes(layout, data, nums, dens, recon, cplx):
    """independent reference: slice k of volume v = centre crop (to the volume's header size) of |marker| * scale"""
    out, i = {}, 0
    for v, n in enumerate(layout):
        sl = []
        for _k in range(n):
            m = data[i].double()
            if cplx:
                m = (m ** 2).sum(-1).sqrt()
            m = m * nums[i] / dens[i]
            if recon is not None:
                H, W = m.shape
                rh, rw = recon[v]
                y, x = (H - rh) // 2, (W - rw) // 2
                m = m[y:y + rh, x:x + rw]
            sl.append(m)
            i += 1
        out[v] = torch.stack(sl).unsqueeze(1)
    return out


# --------------------------------------------------------------------------------------------------
LOSS_UNIT = 2520      # lcm(1..10): the mean over up to 10 loss dicts of multiples of it is an integer


class FakeLoader:
    """what reconstruct_volumes reads from a loader, with hand-made batches (fnames, outs, targets[, slice_nos])"""

    def __init__(self, table, batches):
        vi = collections.OrderedDict((pathlib.Path(fname(f)), range(0, n)) for f, n in table)
        self.dataset = types.SimpleNamespace(volume_indices=vi)
        self.batch_sampler = types.SimpleNamespace(sampler=types.SimpleNamespace(volume_indices=vi))
        self.batches = batches

    def __iter__(self):
        for bt in self.batches:
            fns, outs, tgts = bt[0], bt[1], bt[2]
            snos = bt[3] if len(bt) > 3 else list(range(len(fns)))
            b = len(fns)
            one = torch.ones(b, 3, 3)
            yield {"filename": [fname(f) for f in fns], "scaling_factor": torch.ones(b),
                   "slice_no": torch.tensor(snos, dtype=torch.int64),
                   "marker": one * torch.tensor(outs, dtype=torch.float32).reshape(b, 1, 1),
                   "target": one * torch.tensor(tgts, dtype=torch.float32).reshape(b, 1, 1),
                   "sensitivity_map": torch.ones(b, 1, 3, 3, 2), "sampling_mask": torch.ones(b, 1, 3, 3, 1)}


def batch_loss(source, target, reduction="mean", reconstruction_size=None):
    """identifies the batch: LOSS_UNIT x (marker of its first element)"""
    return (LOSS_UNIT * source.reshape(source.shape[0], -1)[0, 0]).reshape(1)


def run_recon(table, batches, losses=False):
    """the REAL reconstruct_volumes over hand-made batches; ([(fid, outs, targets[, mean loss])], error name or None)"""
    gen = engine().reconstruct_volumes(FakeLoader(table, batches), loss_fns={"batch_loss": batch_loss} if losses else None,
                                       add_target=True, crop=None)
    ys, err = [], None
    try:
        for vol, tgt, loss, fn in gen:
            for t in (vol, tgt):
                if not torch.equal(t, t[:, :1, :1, :1].expand_as(t)):
                    raise ArithmeticError("slice is not constant")
            y = (fid(fn), _int_list(vol[:, 0, 0, 0]), _int_list(tgt[:, 0, 0, 0]))
            if losses:
                y = y + (_int_list(loss["batch_loss"]),)
            ys.append(y)
    except (ValueError, KeyError, RuntimeError, IndexError) as e:
        err = err_name(e)
    return ys, err


_ERR_CODE = {"ValueError": 1, "KeyError": 2, "RuntimeError": 3, "IndexError": 4}


def _fmt_recon(ys, err):
    groups = [ints([y[0], len(y[1])] + y[1] + y[2] + (y[3] if len(y) > 3 else [])) for y in ys]
    if err:
        groups.append(ints([-1, _ERR_CODE[err]]))
    return ("ok " + " | ".join(groups)).strip()


def window_order(rng, n, k):
    """a delivery order of batches 0..n-1 by a loader with k batches in flight (Recon.windowOrders)"""
    infl, rest, out = list(range(min(k, n))), list(range(min(k, n), n)), []
    while infl:
        out.append(infl.pop(rng.randrange(len(infl))))
        if rest:
            infl.append(rest.pop(0))
    return out


def _split(rng, n, max_piece):
    """a random composition of n into pieces of size 1..max_piece"""
    out = []
    while n > 0:
        p = rng.randint(1, min(max_piece, n))
        out.append(p)
        n -= p
    return out


def _catch(fn):
    def run():
        try:
            return fn()
        except ArithmeticError:
            return "err Inexact"
        except (ValueError, TypeError, IndexError, KeyError, RuntimeError, AssertionError) as e:
            return "err " + err_name(e)
    return run


# --------------------------------------------------------------------------------------------------
# ---- phase 4: the ndim == 3 branch of evaluate -----------------------------------------------------------------------
def eval3d_case(rng):
    layout = [rng.randint(1, 4) for _ in range(rng.randint(1, 3))]
    return {"op": "eval3d", "layout": layout, "c": rng.choice((1, 1, 3)), "z": rng.randint(1, 5), "x": rng.randint(3, 4),
            "y": rng.randint(3, 4), "bs": rng.randint(1, 5), "world": rng.randint(1, 2), "pows": [rng.randint(0, 2) for _ in range(sum(layout))],
            "num_images": rng.choice((0, 8))}


def run_eval3d(case):
    """the REAL MRIModelEngine.evaluate with ndim = 3 on a marker dataset whose items are (z, x, y) stacks (c == 1; the
    channel axis is added by _process_output) or (c, z, x, y) stacks; per rank and volume:
    (file id, expected volume (sc, c, z, x, y), what the metric received as volume, as target)"""
    layout, c, z, x, y = case["layout"], case["c"], case["z"], case["x"], case["y"]
    n, per = sum(layout), c * z * x * y
    shape = (z, x, y) if c == 1 else (c, z, x, y)
    data = [(1 + i * per + torch.arange(per, dtype=torch.float32)).reshape(shape) for i in range(n)]
    scales = [float(2 ** k) for k in case["pows"]]
    out = []
    eng = engine()
    for rank in range(case["world"]):
        ds = MarkerDataset(layout, data, scales)
        loader = cases.build_loader(ds, case["world"], rank, case["bs"], 0)
        calls = []

        def rec(target, volume, calls=calls):
            calls.append((target.clone(), volume.clone()))
            return torch.tensor(float(len(calls)))

        eng.marker_metrics = {"marker_metric": rec}
        old_crop, old_n = eng.cfg.validation.crop, eng.cfg.logging.tensorboard.num_images
        eng.cfg.validation.crop, eng.cfg.logging.tensorboard.num_images = None, case["num_images"]
        eng.ndim = 3
        try:
            _loss, metrics, _vis, _vis_t = eng.evaluate(loader, {})
        finally:
            eng.ndim = 2
            eng.marker_metrics = None
            eng.cfg.validation.crop, eng.cfg.logging.tensorboard.num_images = old_crop, old_n
        offs = [sum(layout[:v]) for v in range(len(layout))]
        for nm, (t, v) in zip(metrics.keys(), calls):
            f = fid(pathlib.Path(nm))
            exp = torch.stack([data[i].reshape(c, z, x, y) * scales[i] for i in range(offs[f], offs[f] + layout[f])])
            out.append((rank, f, exp, v, t))
        if len(calls) != len(metrics):
            out.append((rank, -1, None, None, None))
    return out


def check_eval3d(case):
    """the statement on 3-D data, with explicit loops: every volume of every rank reaches the metrics exactly once, and row j
    of what the metrics see is frame j % z of slice j // z (volume and target alike)"""
    layout, c, z, x, y = case["layout"], case["c"], case["z"], case["x"], case["y"]
    try:
        got = run_eval3d(case)
    except Exception as e:  # noqa: BLE001
        yield ("eval3d-raises", f"evaluate with ndim == 3 raised {err_name(e)}", str(e))
        return
    seen = sorted(f for _, f, *_ in got)
    if seen != list(range(len(layout))):
        yield ("eval3d-volumes", "evaluate (ndim == 3): not every volume reached the metrics exactly once", seen)
    for rank, f, exp, v, t in got:
        if exp is None:
            continue
        if tuple(v.shape) != (layout[f] * z, c, x, y) or tuple(t.shape) != tuple(v.shape):
            yield ("eval3d-shape", "evaluate (ndim == 3): shape of the tensor handed to the metrics", [f, list(v.shape), list(t.shape)])
            continue
        for j in range(layout[f] * z):
            for ch in range(c):
                if not torch.equal(v[j, ch].double(), exp[j // z, ch, j % z].double()):
                    yield ("eval3d-slice-order", "evaluate (ndim == 3): row j of the volume the metrics see is not frame j % z of "
                           "slice j // z", {"file": f, "row": j, "channel": ch, "got": _int_list(v[j, ch])[:4],
                                           "want": _int_list(exp[j // z, ch, j % z])[:4]})
                    break
                if not torch.equal(t[j, ch].double(), 2 * exp[j // z, ch, j % z].double()):
                    yield ("eval3d-target-order", "evaluate (ndim == 3): row j of the target the metrics see is not frame j % z "
                           "of slice j // z", {"file": f, "row": j, "channel": ch})
                    break


def correspondence(ctx: Ctx):
    from direct.nn.mri_models import _process_output

    rng = ctx.rng

    # ---- _process_output on a batch
    for _ in range(ctx.budget(80, 800)):
        b, h, w = rng.randint(1, 4), rng.randint(3, 6), rng.randint(3, 6)
        cplx = rng.random() < 0.4
        data, nums, dens = make_data(rng, [b], [h], [w], cplx)
        data = torch.stack(data)
        if rng.random() < 0.3:                      # negative factors too (order of modulus and scaling)
            nums = [-n if rng.random() < 0.5 else n for n in nums]
        r = rng.random()
        if r < 0.35:
            res = None
        elif r < 0.9:
            res = [rng.randint(1, h), rng.randint(1, w)]
        else:
            res = [rng.choice([0, h + 1, h]), rng.choice([w + 2, 0, w])]
        shape = [b, h, w] + ([2] if cplx else [])
        scale = torch.tensor([n / d for n, d in zip(nums, dens)], dtype=torch.float32)

        def impl(data=data, scale=scale, res=res):
            out = _process_output(data.clone(), scale, resolution=res, complex_axis=-1)
            return "ok " + ints(out.shape) + " | " + ints(_int_list(out))
        odd = res is not None and ((h - res[0]) % 2 == 1 or (w - res[1]) % 2 == 1)
        yield {"line": line("process", shape, _int_list(data), nums, dens, res or []), "impl": _catch(impl),
               "nontrivial": b >= 2, "bucket": "process/" + ("complex" if cplx else "real") + ("/nocrop" if res is None else
                                                                                                "/crop-odd" if odd else "/crop")}

    # ---- the raw assembly loop: arbitrary splits, arbitrary `slice_no`, loss dicts, malformed / reordered streams
    for _ in range(ctx.budget(300, 3000)):
        nv = rng.randint(1, 5)
        sizes = [rng.randint(1, 9) for _ in range(nv)]
        ids = rng.sample(range(0, 12), nv)
        table = list(zip(ids, sizes))
        batches, marker = [], 1
        multi = False
        sno_policy = rng.choice(("pos", "offset", "reversed", "garbage", "constant"))
        for f, n in table:
            pieces = _split(rng, n, rng.randint(1, 8))
            multi = multi or len(pieces) > 1
            off = rng.randint(1, 6)
            pos = 0
            for p in pieces:
                outs = list(range(marker, marker + p))
                snos = {"pos": list(range(pos, pos + p)), "offset": list(range(pos + off, pos + off + p)),
                        "reversed": [n - 1 - x for x in range(pos, pos + p)], "constant": [0] * p,
                        "garbage": [rng.randint(-3, 40) for _ in range(p)]}[sno_policy]
                batches.append(([f] * p, outs, [1000 + o for o in outs], snos))
                marker += p
                pos += p
        kind = "well-formed"
        if rng.random() < 0.5 and batches:
            kind = rng.choice(["mixed-batch", "unknown-file", "overflow", "extra-single", "repeat-volume", "drop-batch",
                               "swap-batches", "aba", "short-table", "window-2", "window-3", "volume-order", "interleave"])
            j = rng.randrange(len(batches))
            if kind == "mixed-batch":
                fns, o, t, sn = batches[j]
                batches[j] = (fns + [rng.choice(ids) if nv > 1 and rng.random() < 0.7 else 99], o + [777], t + [888], sn + [0])
            elif kind == "unknown-file":
                batches.insert(j, ([50], [5], [6], [0]))
            elif kind == "overflow":
                fns = batches[j][0]
                k = rng.randint(2, 3)
                batches.insert(j + 1, ([fns[0]] * k, [900 + i for i in range(k)], [950 + i for i in range(k)], list(range(k))))
            elif kind == "extra-single":
                fns = batches[j][0]
                batches.insert(j + 1, ([fns[0]], [901], [951], [0]))
            elif kind == "repeat-volume":
                batches = batches + batches[: rng.randint(1, len(batches))]
            elif kind == "drop-batch":
                del batches[j]
            elif kind == "swap-batches" and len(batches) >= 2:
                k = rng.randrange(len(batches))
                batches[j], batches[k] = batches[k], batches[j]
            elif kind == "aba" and nv >= 2:
                batches = batches + [b for b in batches if b[0][0] == ids[0]]
            elif kind == "short-table":
                table = [(f, max(1, n - 1)) for f, n in table]
            elif kind in ("window-2", "window-3"):          # a loader with 2 / 3 batches in flight (in_order=False)
                batches = [batches[i] for i in window_order(rng, len(batches), int(kind[-1]))]
            elif kind == "volume-order":                    # whole volumes in another order: tolerated
                order = ids[:]
                rng.shuffle(order)
                batches = [b for f in order for b in batches if b[0][0] == f]
            elif kind == "interleave" and nv >= 2:
                per = [[b for b in batches if b[0][0] == f] for f in ids]
                batches = [b for grp in zip(*[p + [None] * (max(map(len, per)) - len(p)) for p in per]) for b in grp if b]
        losses = rng.random() < 0.6
        n_alloc_bound = len(batches)
        if losses and n_alloc_bound > 10 and kind not in ("well-formed", "volume-order"):
            losses = False                       # keep mean(loss list) an integer: at most 10 entries
        flat_table = [x for fn_ in table for x in fn_]
        groups = []
        for fns, o, t, sn in batches:
            groups += [fns, o + t, sn + [LOSS_UNIT * o[0] if losses else 0]]

        def impl(table=table, batches=batches, losses=losses):
            ys, err = run_recon(table, batches, losses=losses)
            if not losses:
                ys = [y + ([0],) for y in ys]
            return _fmt_recon(ys, err)
        ln = line("recon2", flat_table, *groups)
        if kind in ("well-formed", "volume-order"):
            _RECON_CASES[ln] = {"op": "recon-stream", "table": [list(x) for x in table], "losses": losses,
                                "batches": [[list(x) for x in b] for b in batches], "before": _PREV_STREAM.get("s")}
        _PREV_STREAM["s"] = {"table": [list(x) for x in table], "batches": [[list(x) for x in b] for b in batches]}
        yield {"line": ln, "impl": _catch(impl),
               "nontrivial": (nv >= 2 and multi) or kind != "well-formed", "bucket": f"recon/{kind}/slice_no={sno_policy}"}

    # ---- resolution read from the batch's reconstruction_size + _process_output (what the loop does per batch)
    from direct.nn.mri_models import _compute_resolution

    for _ in range(ctx.budget(60, 600)):
        b, h, w = rng.randint(1, 4), rng.randint(3, 6), rng.randint(3, 6)
        data, nums, dens = make_data(rng, [b], [h], [w], False)
        data = torch.stack(data)
        key = rng.choice([0, 1, 1, 1, 2, 3])
        ndim = rng.choice([3, 3, 3, 3, 2, 4])
        # header sizes per batch element; only element 0 is read by the code
        recon = [[rng.randint(1, h) for _ in range(b)], [rng.randint(1, w) for _ in range(b)]][:ndim] + \
                [[1] * b for _ in range(max(0, ndim - 2))]
        if ndim == 4:
            recon[2] = [rng.randint(1, w) for _ in range(b)]
        if rng.random() < 0.1:
            recon[0][0] = h + 1
        scale = torch.tensor([n / d for n, d in zip(nums, dens)], dtype=torch.float32)

        def impl(data=data, scale=scale, key=key, recon=recon):
            res = _compute_resolution(CROP_ARG[key], [torch.tensor(r) for r in recon])
            out = _process_output(data.clone(), scale, resolution=res, complex_axis=-1)
            return "ok " + ints(out.shape) + " | " + ints(_int_list(out))
        yield {"line": line("procbatch", [key], [b, h, w], _int_list(data), nums, dens, *recon), "impl": _catch(impl),
               "nontrivial": b >= 2 and key == 1, "bucket": f"procbatch/key={CROP_ARG[key]!r}/dims={ndim}"}

    # ---- Engine.build_batch_sampler dispatch
    from direct.data.samplers import BatchVolumeSampler, ConcatDatasetBatchSampler, DistributedSequentialSampler
    from direct.engine import Engine

    TYPES = {0: "random", 1: "sequential", 2: "Random", 3: None, 4: ""}
    for ty in TYPES:
        for inp in (0, 1, 2):
            def impl(ty=ty, inp=inp):
                one = lambda: MarkerDataset([2, 1], [torch.zeros(3, 3)] * 3, [1.0] * 3)   # noqa: E731
                ds = one() if inp == 0 else [one(), one()] if inp == 1 else [one(), "not a dataset"]
                kw = {"limit_number_of_volumes": None} if ty == 1 else {}
                with patched_comm(0, 1):
                    b = Engine.build_batch_sampler(ds, 2, TYPES[ty], **kw)
                if isinstance(b, ConcatDatasetBatchSampler):
                    return "ok 0"
                if isinstance(b, BatchVolumeSampler) and isinstance(b.sampler, DistributedSequentialSampler):
                    return "ok 1"
                return "ok 9"
            yield {"line": line("bbs", [ty, inp]), "impl": _catch_all(impl), "nontrivial": ty in (0, 1),
                   "bucket": "bbs/" + repr(TYPES[ty])}

    # ---- phase 4: evaluate's ndim == 3 branch (model: Recon.evalReshape) on the volumes a real evaluate receives
    for _ in range(ctx.budget(25, 200)):
        case = eval3d_case(rng)
        try:
            got, err = run_eval3d(case), None
        except Exception as e:  # noqa: BLE001
            got, err = [(0, 0, torch.zeros(case["layout"][0], case["c"], case["z"], case["x"], case["y"]), None, None)], "err " + err_name(e)
        for rank, f, exp, v, t in got:
            if exp is None:
                continue
            for which, obs, mult in (("volume", v, 1), ("target", t, 2)):
                def impl(obs=obs, err=err):
                    if err:
                        return err
                    return "ok " + ints(obs.shape) + " | " + ints(_int_list(obs))
                ln = line("eval3d", list(exp.shape), _int_list(exp * mult))
                _EVAL3D_CASES[ln] = dict(case)
                yield {"line": ln, "impl": impl, "nontrivial": exp.shape[0] >= 2 and case["z"] >= 2,
                       "bucket": f"eval3d/{which}/c={case['c']}/z={'1' if case['z'] == 1 else '>1'}"}

    # ---- write_output_to_h5 on arbitrary tuples (basename collisions, channels, missing directory)
    from direct.utils.writers import write_output_to_h5

    for _ in range(ctx.budget(40, 400)):
        nv = rng.randint(0, 4)
        names = [(rng.randint(0, 2), rng.randint(0, 5)) for _ in range(nv)]
        if nv >= 2 and rng.random() < 0.4:
            names[-1] = (names[0][0] + 1, names[0][1])          # same basename in another directory
        dims = [(rng.randint(1, 4), rng.randint(1, 3), rng.randint(1, 4), rng.randint(1, 4)) for _ in range(nv)]
        vols, label = [], 1
        for n, c, h, w in dims:
            k = n * c * h * w
            vols.append(torch.arange(label, label + k, dtype=torch.float64).reshape(n, c, h, w))
            label += k
        create = int(rng.random() < 0.75)
        exists = int(rng.random() < 0.5)
        stale = int(exists and rng.random() < 0.6)      # an earlier run left files under (some of) the same names

        def impl(names=names, vols=vols, create=create, exists=exists, stale=stale):
            with tempfile.TemporaryDirectory() as d:
                out_dir = pathlib.Path(d) / "out" / "sub"
                if exists:
                    out_dir.mkdir(parents=True)
                if stale:
                    import h5py

                    for k, (_dd, b) in enumerate(names):
                        if k % 2 == 0:
                            with h5py.File(out_dir / fname(b), "w") as f:
                                f.create_dataset("reconstruction", data=np.full((2, 2, 2), -5.0, dtype=np.float32))
                                f.create_dataset("stale_key", data=np.zeros(1))
                output = [(v, {}, pathlib.Path(f"d{dd}") / fname(b)) for v, (dd, b) in zip(vols, names)]
                write_output_to_h5(output, out_dir, create_dirs_if_needed=bool(create))
                files = read_dir(out_dir)
            for _f, keys, dt, _a in files:
                if keys != ["reconstruction"] or dt != np.float32:
                    return "err BadFile"
            return ("ok " + " | ".join(_fmt_vol(f, a) for f, _k, _d, a in files)).strip()
        collide = len({b for _, b in names}) < nv
        yield {"line": line("write", [create, exists, stale], [x for nm in names for x in nm], [x for dm in dims for x in dm],
                            [int(x) for v in vols for x in v.reshape(-1).tolist()]),
               "impl": _catch_all(impl), "nontrivial": nv >= 2,
               "bucket": "write/" + ("no-dir" if not create and not exists else "collision" if collide else "distinct")
                         + ("/stale-files" if stale else "")}

    # ---- the real predict(): sampler -> DataLoader -> reconstruct_volumes [-> write_output_to_h5 -> read back]
    n_pred = ctx.budget(220, 1600)
    n_workers_cases = ctx.budget(8, 40)
    for c in range(n_pred):
        layout = [rng.randint(1, 9) for _ in range(rng.randint(1, 6))]
        if rng.random() < 0.25:
            layout[rng.randrange(len(layout))] = 1               # single-slice volumes
        if ctx.thorough and c < 90:                      # every layout of <= 2 volumes with <= 9 slices once
            layout = [c % 9 + 1] if c < 9 else [(c - 9) // 9 + 1, (c - 9) % 9 + 1]
        world = rng.choice([1, 1, 2, 2, 3, 4])
        rank = rng.randrange(world)
        bs = rng.randint(1, 8)
        workers = 0
        if c < n_workers_cases:
            workers = 1 + c % 2
            layout = layout[:4]
        nv = len(layout)
        same_shape = rng.random() < 0.4
        h0, w0 = rng.randint(3, 5), rng.randint(3, 5)
        hs = [h0 if same_shape else rng.randint(3, 5) for _ in range(nv)]
        ws = [w0 if same_shape else rng.randint(3, 5) for _ in range(nv)]
        cplx = rng.random() < 0.3
        crop = rng.choice([0, 0, 1, 1, 1, 3]) if rng.random() < 0.96 else 2
        recon = None
        if crop == 1 or rng.random() < 0.3:
            recon = [(rng.randint(1, hs[v]), rng.randint(1, ws[v])) for v in range(nv)]
            if rng.random() < 0.04:
                recon[rng.randrange(nv)] = (hs[0] + 3, 1)          # center_crop must reject it
        write = int(rng.random() < 0.35)
        data, nums, dens = make_data(rng, layout, hs, ws, cplx)
        scales = [n / d for n, d in zip(nums, dens)]
        # what the items report as `slice_no`: the position in the volume, or file coordinates (offset / stride / gaps /
        # a permutation / constant / global index).  A third of the cases run on a REAL H5SliceData with a `slice_data`
        # filter: the h5 files hold `pad_lo + n + pad_hi` slices of which the filter keeps the n of the layout.
        source = "h5" if workers == 0 and rng.random() < 0.3 else "toy"
        if source == "h5":
            lo, st = rng.choice([(0, 1), (1, 1), (2, 1), (3, 1), (0, 2), (1, 2)])
            snos = [lo + st * k for n in layout for k in range(n)]
            policy = f"h5[{lo}::{st}]"
        else:
            lo = st = 0
            policy = rng.choice(cases.SLICE_POLICIES)
            snos = cases.make_slice_nos(layout, policy, rng.randrange(2 ** 30))

        def impl(layout=layout, world=world, rank=rank, bs=bs, workers=workers, data=data, scales=scales, recon=recon,
                 crop=crop, write=write, snos=snos, cplx=cplx, source=source, lo=lo, st=st):
            if source == "h5":
                out = run_predict_h5(layout, world, rank, bs, data, scales, recon, CROP_ARG[crop], cplx, lo, st)
            else:
                out = run_predict(layout, world, rank, bs, workers, data, scales, recon, CROP_ARG[crop], slice_nos=snos, cplx=cplx)
            if not write:
                return ("ok " + " | ".join(_fmt_vol(fid(o[-1]), o[0][:, 0]) for o in out)).strip()
            with tempfile.TemporaryDirectory() as d:
                write_output_to_h5(out, pathlib.Path(d) / "recons", output_key="reconstruction")
                files = read_dir(pathlib.Path(d) / "recons")
            for _f, keys, dt, _a in files:
                if keys != ["reconstruction"] or dt != np.float32:
                    return "err BadFile"
            return ("ok " + " | ".join(_fmt_vol(f, a) for f, _k, _d, a in files)).strip()
        split = any(n > bs for n in layout)
        flat = [int(x) for t in data for x in t.reshape(-1).tolist()]
        ln = line("predict", layout, [world, rank, bs], [int(cplx), crop, write], hs, ws,
                  [r[0] for r in recon] if recon else [], [r[1] for r in recon] if recon else [], nums, dens, flat, snos)
        _PREDICT_CASES[ln] = {"op": "predict-line", "layout": layout, "world": world, "rank": rank, "bs": bs, "workers": workers,
                              "cplx": cplx, "crop": crop, "hs": hs, "ws": ws, "recon": recon, "nums": nums, "dens": dens,
                              "snos": snos, "source": source, "lo": lo, "st": st, "flat": flat}
        yield {"line": ln, "impl": _catch_all(impl), "nontrivial": len(layout) >= 2 and split,
               "bucket": f"predict/world={world}/workers={workers}/crop={CROP_ARG[crop]!r}/slice_no={policy}" + ("/h5" if write else "")
                         + ("" if same_shape else "/mixed-shapes")}

    # ---- delivery orders of a REAL DataLoader(in_order=False) are orders of the window model (Recon.windowOrders)
    for c in range(ctx.budget(3, 12)):
        w, pf = [(2, 1), (2, 2), (3, 1), (1, 2)][c % 4]
        n = rng.randint(4, 8)
        got = loader_delivery(w, pf, n, rng.randrange(2 ** 20))
        yield {"line": line("inwindow", [w * pf], got), "impl": (lambda: "ok 1"), "nontrivial": got != sorted(got),
               "bucket": f"inwindow/workers={w}/prefetch={pf}/" + ("in-order" if got == sorted(got) else "reordered")}


def loader_delivery(workers, prefetch, n, seed):
    """order in which a real DataLoader(in_order=False) hands over n single-item batches whose items take random time"""
    from torch.utils.data import DataLoader

    ds = SlowDataset([n], seed)
    dl = DataLoader(ds, batch_sampler=[[i] for i in range(n)], num_workers=workers, prefetch_factor=prefetch, in_order=False)
    return [int(b["index"][0]) for b in dl]


def run_predict_h5(layout, world, rank, bs, data, scales, recon, crop, cplx, lo, st):
    """REAL H5SliceData with `slice_data=slice(lo, None, st)` over temporary h5 files that hold more slices than the filter
    keeps, through the REAL Engine.predict.  The kept slices of file v are exactly the items of volume v of `layout`, in
    order; their `slice_no` is the index in the file (lo + st*k), not the position k in the volume."""
    with tempfile.TemporaryDirectory() as d:
        root = pathlib.Path(d)
        sub = root / "files"
        sub.mkdir()
        file_layout, fdata, fscales, off = [], [], [], 0
        for v, n in enumerate(layout):
            total = lo + st * (n - 1) + 1 + (v % st if st > 1 else 0)       # slices past the last kept one are not kept
            file_layout.append(total)
            filler = torch.full_like(data[off], -7.0)
            for s in range(total):
                k, r = divmod(s - lo, st)
                keep = s >= lo and r == 0 and k < n
                fdata.append(data[off + k] if keep else filler)
                fscales.append(scales[off + k] if keep else 1.0)
            off += n
        ds = cases.build_h5_dataset(sub, file_layout, fdata, fscales, recon, cplx, (lo, None, st))
        with patched_comm(rank, world):
            return engine().predict(ds, root, checkpoint=None, num_workers=0, batch_size=bs, crop=crop)


def _catch_all(fn):
    def run():
        try:
            return fn()
        except Exception as e:  # noqa: BLE001 - canonicalised to the class name
            return "err " + err_name(e)
    return run


# --------------------------------------------------------------------------------------------------
def _check_predict(layout, world, bs, workers, hs, ws, cplx, use_crop, seed, write=True):
    """The property on the real predict() (+ write_output_to_h5 round trip) for one configuration, all ranks.
    Yields (key, what, observed)."""
    import random

    from direct.utils.writers import write_output_to_h5

    rng = random.Random(seed)
    data, nums, dens = make_data(rng, layout, hs, ws, cplx)
    scales = [n / d for n, d in zip(nums, dens)]
    recon = [(rng.randint(1, hs[v]), rng.randint(1, ws[v])) for v in range(len(layout))] if use_crop else None
    exp = expected_volumes(layout, data, nums, dens, recon, cplx)
    seen = []
    with tempfile.TemporaryDirectory() as d:
        out_dir = pathlib.Path(d) / "recons"
        for rank in range(world):
            try:
                out = run_predict(layout, world, rank, bs, workers, data, scales, recon, "header" if use_crop else None)
            except Exception as e:  # noqa: BLE001
                yield ("predict-raises", f"predict raises {err_name(e)} on rank {rank} of {world}", {"rank": rank, "err": repr(e)})
                continue
            for vol, _loss, fn in out:
                f = fid(fn)
                seen.append(f)
                e = exp.get(f)
                if e is None or tuple(vol.shape) != tuple(e.shape):
                    yield ("predict-volume-shape",
                           f"volume {f}: shape {tuple(vol.shape)}, expected {None if e is None else tuple(e.shape)}",
                           {"rank": rank, "volume": f})
                elif not torch.equal(vol.double(), e):
                    bad = [k for k in range(e.shape[0]) if not torch.equal(vol[k].double(), e[k])]
                    yield ("predict-slice-wrong", f"volume {f}: slices {bad} are not model output x scaling factor (cropped)",
                           {"rank": rank, "volume": f, "bad_slices": bad, "observed": vol[:, 0, 0, 0].tolist(),
                            "expected": e[:, 0, 0, 0].tolist()})
            if write:
                try:
                    write_output_to_h5(out, out_dir)            # every rank writes into the same directory
                except Exception as e:  # noqa: BLE001
                    yield ("write-raises", f"write_output_to_h5 raises {err_name(e)}", {"rank": rank, "err": repr(e)})
        if seen != list(range(len(layout))):
            missing = [v for v in range(len(layout)) if v not in seen]
            dup = sorted({v for v in seen if seen.count(v) > 1})
            key = "predict-volume-missing" if missing else "predict-volume-duplicated" if dup else "predict-volume-order"
            yield (key, f"volumes yielded over all ranks: {seen} (expected each of 0..{len(layout) - 1} once, in order)",
                   {"seen": seen})
        if write:
            files = read_dir(out_dir) if out_dir.exists() else []
            if [f for f, *_ in files] != list(range(len(layout))):
                yield ("write-file-set", f"files written: {[f for f, *_ in files]} (expected one per volume)", {})
            for f, keys, dt, arr in files:
                e = exp.get(f)
                if keys != ["reconstruction"] or dt != np.float32:
                    yield ("write-key-dtype", f"file of volume {f}: keys {keys}, dtype {dt}", {"volume": f})
                elif e is None or arr.shape != tuple(e[:, 0].shape) or not np.array_equal(arr.astype(np.float64), e[:, 0].numpy()):
                    yield ("write-slice-wrong", f"file of volume {f}: k-th slice is not the k-th processed slice of the volume",
                           {"volume": f})


def _loader_order_bad(workers: int, prefetch, seed: int):
    """Does a real DataLoader (built as Engine.build_loader builds it; optionally with a prefetch_factor) deliver the
    batches of the batch sampler in order, when items complete at random times?  Returns the observed order if not."""
    import random

    from direct.data.samplers import BatchVolumeSampler, DistributedSequentialSampler
    from direct.engine import Engine
    from torch.utils.data import DataLoader

    rng = random.Random(seed)
    layout = [rng.randint(1, 6) for _ in range(rng.randint(2, 5))]
    ds = SlowDataset(layout, seed)
    bsamp = BatchVolumeSampler(DistributedSequentialSampler(ds, num_replicas=1, rank=0), batch_size=rng.randint(1, 3))
    if prefetch is None:
        loader = Engine.build_loader(ds, batch_sampler=bsamp, num_workers=workers)
    else:
        loader = DataLoader(dataset=ds, sampler=None, batch_size=1, batch_sampler=bsamp, num_workers=workers, drop_last=False,
                            shuffle=False, pin_memory=False, prefetch_factor=prefetch)
    got = [[int(i) for i in b["index"]] for b in loader]
    want = [list(map(int, b)) for b in bsamp]
    return None if got == want else got


class SlowDataset(torch.utils.data.Dataset):
    """items take a random time to load, so that with several workers later batches are ready before earlier ones"""

    def __init__(self, layout, seed):
        self.volume_indices = collections.OrderedDict()
        off = 0
        for v, n in enumerate(layout):
            self.volume_indices[pathlib.Path(fname(v))] = range(off, off + n)
            off += n
        self.n, self.seed = off, seed

    def __len__(self):
        return self.n

    def __getitem__(self, i):
        import random
        import time

        time.sleep(random.Random(self.seed * 1000 + i).choice([0, 0, 0.002, 0.006]))
        return {"index": i}


def _loss_list_note(ctx: Ctx):
    """OUTSIDE the statement of C14 (which is about the volumes): what the loss dict yielded with a volume is, on the real
    code.  Recorded in the evidence, never a violation."""
    table = [(0, 1), (1, 2)]
    batches = [([0], [5], [1005], [0]), ([1], [6], [1006], [0]), ([1], [7], [1007], [1])]
    ys, err = run_recon(table, batches, losses=True)
    ctx.notes.append({"loss-dict-running-mean": {
        "stream": "volume 0 = one batch (loss 5 units); volume 1 = two batches (losses 6 and 7 units)",
        "observed_loss_per_yield_in_units": [y[3][0] / LOSS_UNIT for y in ys], "error": err,
        "per_volume_mean_would_be": [5.0, 6.5],
        "status": "NOTE: loss_dict_list is created before the loop, appended only when a volume is allocated (first batch) and "
                  "never cleared, so volume k is yielded with mean(first-batch losses of volumes 0..k) (Lean: "
                  "C14.loss_list_of_kth_yield, C14.loss_list_not_per_volume); evaluate() then averages these running means. "
                  "Minimal repair if per-volume losses are intended: reset the list when a volume is allocated and append every "
                  "batch's loss dict."}})


def _empty_volume_note(ctx: Ctx):
    """C12/C13/C14 interplay, OUTSIDE the stated quantifiers (volumes have 1..9 slices): a real H5SliceData whose slice
    filter leaves a volume with zero slices in the middle, through the real samplers and reconstruct_volumes."""
    import h5py
    from direct.data.h5_data import H5SliceData
    from direct.data.samplers import BatchVolumeSampler, DistributedSequentialSampler

    class Wrapped(torch.utils.data.Dataset):
        def __init__(self, inner):
            self.inner, self.ndim, self.volume_indices = inner, 2, inner.volume_indices

        def __len__(self):
            return len(self.inner)

        def __getitem__(self, i):
            smp = self.inner[i]
            m = torch.as_tensor(np.asarray(smp["kspace"]).real.astype(np.float32))[0]
            return {"filename": smp["filename"], "slice_no": smp["slice_no"], "scaling_factor": torch.tensor(1.0),
                    "marker": m, "target": torch.zeros_like(m), "sensitivity_map": torch.ones(1, *m.shape, 2),
                    "sampling_mask": torch.ones(1, *m.shape, 1)}

    sizes = [8, 3, 8, 8]
    report = {"file_slices": sizes, "slice_filter": "slice(4, 8)"}
    with tempfile.TemporaryDirectory() as d:
        root = pathlib.Path(d)
        files = []
        for v, n in enumerate(sizes):
            p = root / fname(v)
            with h5py.File(p, "w") as f:
                ks = np.zeros((n, 1, 3, 3), dtype=np.complex64)
                for s in range(n):
                    ks[s] = 100 * v + s
                f.create_dataset("kspace", data=ks)
            files.append(p)
        ds = Wrapped(H5SliceData(root, filenames_filter=files, slice_data=slice(4, 8)))
        report["volume_indices"] = [[r.start, r.stop] for r in ds.volume_indices.values()]
        seq = DistributedSequentialSampler(ds, num_replicas=1, rank=0)
        for bs in (3, 4, 8):
            b = BatchVolumeSampler(seq, batch_size=bs)
            batches = [list(map(int, x)) for x in b]
            mixed = [x for x in batches if not any(all(i in r for i in x) for r in ds.volume_indices.values())]
            entry = {"batches": batches, "len": len(b), "mixed_batches": mixed}
            try:
                with patched_comm(0, 1), tempfile.TemporaryDirectory() as e:
                    out = engine().predict(ds, pathlib.Path(e), checkpoint=None, num_workers=0, batch_size=bs, crop=None)
                entry["predict"] = [[fid(o[-1]), [int(x) for x in o[0][:, 0, 0, 0].tolist()]] for o in out]
            except Exception as exc:  # noqa: BLE001
                entry["predict"] = f"raises {err_name(exc)}"
            report[f"batch_size={bs}"] = entry
    ctx.notes.append({"empty-volume-after-filter": report, "status": (
        "NOTE, outside the quantifiers of C13 (volumes with 1..9 slices) and C14 (layouts of C13): a zero-slice volume in the "
        "middle stalls BatchVolumeSampler's next_value (Lean: C13.bvs_empty_volume_mixes); later batches are cut by batch size "
        "only, may mix volumes, and reconstruct_volumes then raises ValueError; the empty volume itself is never yielded")})
    return report


def check_predict_line(c):
    """The property for the configuration of a `predict` correspondence line, on every rank (independent reference).
    Yields (key, what, observed)."""
    layout, world, cplx = c["layout"], c["world"], c["cplx"]
    data, pos = [], 0
    for v, n in enumerate(layout):
        h, w = c["hs"][v], c["ws"][v]
        k = h * w * (2 if cplx else 1)
        for _ in range(n):
            t = torch.tensor(c["flat"][pos:pos + k], dtype=torch.float64).reshape((h, w, 2) if cplx else (h, w))
            data.append(t if cplx else t.float())
            pos += k
    scales = [n / d for n, d in zip(c["nums"], c["dens"])]
    crop = CROP_ARG[c["crop"]]
    exp = expected_volumes(layout, data, c["nums"], c["dens"], c["recon"] if crop == "header" else None, cplx)
    seen = []
    for rank in range(world):
        try:
            if c["source"] == "h5":
                out = run_predict_h5(layout, world, rank, c["bs"], data, scales, c["recon"], crop, cplx, c["lo"], c["st"])
            else:
                out = run_predict(layout, world, rank, c["bs"], c["workers"], data, scales, c["recon"], crop,
                                  slice_nos=c["snos"], cplx=cplx)
        except Exception as e:  # noqa: BLE001
            yield ("predict-raises", f"predict raises {err_name(e)} on rank {rank} of {world}: {str(e)[:160]}",
                   {"rank": rank, "err": repr(e)[:300]})
            continue
        for vol, _loss, fn in out:
            f = fid(fn)
            seen.append(f)
            e = exp.get(f)
            if e is None or tuple(vol.shape) != tuple(e.shape):
                yield ("predict-volume-shape", f"volume {f}: shape {tuple(vol.shape)}, expected "
                       f"{None if e is None else tuple(e.shape)}", {"rank": rank, "volume": f})
            elif not torch.equal(vol.double(), e):
                bad = [k for k in range(e.shape[0]) if not torch.equal(vol[k].double(), e[k])]
                yield ("predict-slice-wrong", f"volume {f}: slices {bad} are not model output x scaling factor (cropped)",
                       {"rank": rank, "volume": f, "bad_slices": bad, "observed": vol[:, 0, 0, 0].tolist(),
                        "expected": e[:, 0, 0, 0].tolist()})
    if seen != list(range(len(layout))):
        missing = [v for v in range(len(layout)) if v not in seen]
        dup = sorted({v for v in seen if seen.count(v) > 1})
        key = "predict-volume-missing" if missing else "predict-volume-duplicated" if dup else "predict-volume-order"
        yield (key, f"volumes yielded over all ranks: {seen} (expected each of 0..{len(layout) - 1} once, in order)", {"seen": seen})


def check_recon_stream(c):
    """The property on a well-formed hand-made batch stream (each volume's batches contiguous and in order): one tuple per
    volume in delivery order, slices = the delivered slices in order, no exception."""
    table = [tuple(x) for x in c["table"]]
    batches = [tuple(b) for b in c["batches"]]
    want, order = {}, []
    for fns, o, t, *_ in batches:
        f = fns[0]
        if f not in want:
            want[f] = ([], [])
            order.append(f)
        want[f][0].extend(o)
        want[f][1].extend(t)
    if c.get("before"):                # what the same engine processed just before (possibly a stream that died mid-volume)
        try:
            run_recon([tuple(x) for x in c["before"]["table"]], [tuple(b) for b in c["before"]["batches"]])
        except Exception:  # noqa: BLE001
            pass
    try:
        ys, err = run_recon(table, batches, losses=c.get("losses", False))
    except Exception as e:  # noqa: BLE001
        yield ("recon-stream-raises", f"reconstruct_volumes raises {err_name(e)} on a well-formed stream: {str(e)[:160]}", {})
        return
    if err:
        yield ("recon-stream-raises", f"reconstruct_volumes raises {err} on a well-formed stream", {"err": err})
    got = [(y[0], y[1], y[2]) for y in ys]
    exp = [(f, want[f][0], want[f][1]) for f in order]
    if got != exp:
        yield ("recon-stream-wrong", "reconstruct_volumes on a well-formed stream does not yield every volume once with its "
               "slices (and targets) in delivery order", {"observed": got[:4], "expected": exp[:4]})


def search(ctx: Ctx, dis, lean):
    """failing-input search seeded with the disagreeing correspondence inputs: the property is evaluated directly (reference
    independent of the model) on each of them"""
    done = 0
    for d in dis:
        ln = d.get("line", "")
        if ln in _PREDICT_CASES and not d.get("model", "").startswith("err"):
            c, chk = _PREDICT_CASES[ln], check_predict_line
        elif ln in _RECON_CASES:
            c, chk = _RECON_CASES[ln], check_recon_stream
        elif ln in _EVAL3D_CASES:
            c, chk = _EVAL3D_CASES[ln], check_eval3d
        else:
            continue
        done += 1
        if done > 40:
            break
        keys = set()
        for key, what, obs in chk(c):
            if key not in keys:
                keys.add(key)
                yield Violation(key, what, dict(c, key=key, observed=obs))


def oracle(ctx: Ctx, deep: bool = False):
    """The property stated directly on the implementation (independent numpy/torch reference)."""
    rng = ctx.rng
    # -- the generalised case space: dataset kind x slice_no x entry point x sampler x crop x output layout x history
    ng = 600 if deep else ctx.budget(240, 1500)
    nwk = 6 if deep else ctx.budget(3, 16)
    for c in range(ng):
        case = cases.random_case(rng, "slice_no" if c % 4 == 0 else None)
        if c < nwk:
            case.update(workers=1 + c % 2, world=min(case["world"], 2), layout=case["layout"][:3], hs=case["hs"][:3], ws=case["ws"][:3])
            if case["recon"]:
                case["recon"] = case["recon"][:3]
        ctx.count(("case", json.dumps(case, sort_keys=True, default=str)),
                  len(case["layout"]) >= 2 and any(x > case["bs"] for x in case["layout"]),
                  sample={k: case[k] for k in ("ds", "entry", "history", "layout", "world", "bs", "slice_policy", "slice_filter")},
                  bucket=cases.bucket_of(case))
        keys = set()
        for key, what, obs in cases.check_case(case):
            if key in keys:
                continue
            keys.add(key)
            yield Violation(key, what, dict(case, key=key, observed=obs))
    n = 150 if deep else ctx.budget(30, 300)
    nw = ctx.budget(3, 16)
    for c in range(n):
        layout = [rng.randint(1, 9) for _ in range(rng.randint(1, 6))]
        if rng.random() < 0.25:
            layout[rng.randrange(len(layout))] = 1
        world = rng.randint(1, 4)
        bs = rng.randint(1, 8)
        workers = 0
        if c < nw:
            workers, layout, world = 1 + c % 2, layout[:3], min(world, 2)
        hs = [rng.randint(3, 5) for _ in layout]
        ws = [rng.randint(3, 5) for _ in layout]
        cplx = rng.random() < 0.3
        use_crop = rng.random() < 0.5
        seed = rng.randrange(2 ** 30)
        ctx.count(("predict", tuple(layout), world, bs, workers, tuple(hs), tuple(ws), cplx, use_crop, seed),
                  len(layout) >= 2 and any(x > bs for x in layout),
                  sample={"layout": layout, "world": world, "bs": bs, "workers": workers, "hs": hs, "ws": ws, "crop": use_crop},
                  bucket=f"oracle/predict+h5/world={world}/workers={workers}")
        keys = set()
        for key, what, obs in _check_predict(layout, world, bs, workers, hs, ws, cplx, use_crop, seed):
            if key in keys:
                continue
            keys.add(key)
            yield Violation(key, what, {"op": "predict", "layout": layout, "world": world, "bs": bs, "workers": workers,
                                        "hs": hs, "ws": ws, "cplx": cplx, "crop": use_crop, "seed": seed, "key": key,
                                        "observed": obs})
    # phase 4: the statement on 3-D data (evaluate, ndim == 3)
    for c in range(60 if deep else ctx.budget(20, 150)):
        case = eval3d_case(rng)
        ctx.count(("eval3d", json.dumps(case, sort_keys=True)), len(case["layout"]) >= 2 and case["z"] >= 2 and max(case["layout"]) > case["bs"],
                  sample=case, bucket=f"oracle/eval3d/c={case['c']}/world={case['world']}")
        keys = set()
        for key, what, obs in check_eval3d(case):
            if key in keys:
                continue
            keys.add(key)
            yield Violation(key, what, dict(case, key=key, observed=obs))
    # the in-order guarantee of the loader (assumption `InOrder` of predict_full_spec), probed on torch's DataLoader
    probes = [(1, None), (2, None)]
    if ctx.thorough or deep:
        probes = [(w, p) for w in (0, 1, 2) for p in ((None,) if w == 0 else (None, 1, 2, 4))] * 3
    for k, (workers, prefetch) in enumerate(probes):
        seed = rng.randrange(2 ** 20)
        ctx.count(("loader-order", workers, prefetch, seed), True, bucket=f"oracle/loader-order/workers={workers}/prefetch={prefetch}")
        got = _loader_order_bad(workers, prefetch, seed)
        if got is not None:
            yield Violation("loader-reorders-batches", "DataLoader delivered the batches in another order than the batch sampler",
                            {"op": "loader", "workers": workers, "prefetch": prefetch, "seed": seed, "observed": got})
    # C12/C13/C14 interplay outside the quantifier: recorded as a note in the evidence, never a violation
    try:
        _empty_volume_note(ctx)
    except Exception as e:  # noqa: BLE001
        ctx.notes.append({"empty-volume-after-filter": f"probe failed: {err_name(e)}: {e}"})
    try:
        _loss_list_note(ctx)
    except Exception as e:  # noqa: BLE001
        ctx.notes.append({"loss-dict-running-mean": f"probe failed: {err_name(e)}: {e}"})


def replay(rep: dict) -> bool:
    try:
        if rep.get("op") == "case":
            return any(k == rep.get("key") for k, _, _ in cases.check_case(rep))
        if rep.get("op") == "predict-line":
            return any(k == rep.get("key") for k, _, _ in check_predict_line(rep))
        if rep.get("op") == "recon-stream":
            return any(k == rep.get("key") for k, _, _ in check_recon_stream(rep))
        if rep.get("op") == "predict":
            return any(k == rep.get("key") for k, _, _ in _check_predict(
                rep["layout"], rep["world"], rep["bs"], rep["workers"], rep["hs"], rep["ws"], rep["cplx"], rep["crop"], rep["seed"]))
        if rep.get("op") == "eval3d":
            return any(k == rep.get("key") for k, _, _ in check_eval3d(rep))
        if rep.get("op") == "loader":
            return _loader_order_bad(rep["workers"], rep["prefetch"], rep["seed"]) is not None
    except Exception:  # noqa: BLE001
        return True
    return True
