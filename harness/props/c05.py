"""C05 — seeded masks are reproducible and independent of call history."""
from __future__ import annotations

import json

from core import Ctx, Violation, line
from props import rng_common as RC

PROP = "C05"
MANIFEST = {
    "text": "Lean 4 theorems over an explicit RNG state (private stream per generator instance, global numpy / torch / python "
            "streams, libc's rand() as a stream of its own, OS entropy) with abstract streams: for every RNG-access table in "
            "which each draw reads self.rng inside `with temp_seed(self.rng, seed)` and every body that keeps the libc "
            "discipline (no rand() loop before an srand of the same call - derived from the generated .pyx event table by "
            "kernelProg_libcOk), a seeded call's output is the same from any two states and on any two instances, after every "
            "op history (seeded/unseeded calls, other shapes/generators/classes, return_acs on/off, new instances, deep copies "
            "/ pickle round trips of an instance, draws from / re-seedings of numpy, torch, python AND libc), every call "
            "restores all private streams and leaves numpy/torch/python untouched, and the global streams after any history "
            "are those of the non-generator ops alone (history_globals_eq_noncall). libc is stated exactly: not restored "
            "(witness libc_not_restored), but after a seeded call it is either untouched or in a state that is a function of "
            "(seed, program) alone (libc_after_seeded_call); a call without a kernel leaves it alone; two kernels interleaved "
            "in one process cannot influence each other (interleaved_kernel_calls_independent); a kernel that draws before it "
            "seeds is history dependent (rand_before_srand_violates). The hypotheses SitesIn / LibcOk are discharged for every "
            "body the driver builds from a recorded call (Lemmas/C05Driver: progOf_ok, driver_call_history_independent; "
            "Bridge: code_driver_call_history_independent for the generated tables). The premises are decided by `decide` on "
            "tables generated from the current source: RNG-access table by a closed-world AST walk over all 14 generators' "
            "mask_func and everything reachable from it (temp_seed is recognised semantically: an object whose enter saves the state "
            "of X and seeds it with s and whose exit restores it on every path - generator form, class with __enter__/__exit__, "
            "factory of such a class, positional or keyword call sites; unreadable -> skipped, never a mismatch; the recorder "
            "detects scopes at run time the same way: get_state then seed by one function = enter, set_state of the saved "
            "object = exit; methods through the class hierarchy, module functions, nested "
            "functions, functions of other direct.* modules such as T.center_crop; `@contextmanager` helpers of the class / module "
            "that delegate to temp_seed, e.g. `with self._seeded_rng(seed):`, open the scope like temp_seed itself, and a stream "
            "handed to a helper as an argument stays that stream inside it; methods named like random-number entry "
            "points on any object and torch in-place random fills are sites of an unknown stream; calls the walk cannot follow "
            "are listed and must be absent), temp_seed's statement skeleton, kernel-seed provenance, the libc event list of "
            "every .pyx kernel (srand(seed) at the top level on the unmodified int parameter, first, once; no Python-level "
            "generator inside a kernel), 'no instance / class / module / closure / mutable-default state written and no "
            "memoising decorator' in the reachable set, the seed plumbing of CreateSamplingMask, and the seed class of every "
            "consumer of a generator outside subsample.py (CreateSamplingMask x2, EstimateBodyCoilImage, apply_mask). "
            "Differential correspondence: real histories vs the model on symbolic streams (state ids of np/torch/python/private "
            "streams AND of glibc's rand() state - read non-destructively through setstate - after every op, output classes, "
            "ACS/mask request traces incl. kernel results), every executed draw mapped to its static table site through the "
            "caller frame of a recording RandomState. Oracle on the real code: observed seeded mask+ACS after a history vs the "
            "same call alone in another process with another PYTHONHASHSEED, on a reused / fresh / deep-copied / unpickled "
            "instance; seeds 0, 1, 2**32-1, numpy integer scalars and arrays, lists, 1- and ~100-tuples, bytes-derived tuples, "
            "tuples of numpy ints; rejected seeds (-1, 2**32, (), negative / oversized elements, float) change nothing; masks "
            "made inside forked DataLoader workers agree per file and with the direct call; apply_mask / EstimateBodyCoilImage "
            "/ CreateSamplingMask obtain the mask of the direct seeded call; exceptions inside the seeded scope; another Cython "
            "kernel of the package (ssl gaussian_fill) and raw srand/rand() between calls; forced rare kernel seeds (0, 99999: "
            "the recorded randint(1e5) draw replaced through the recording RandomState) for the three kernel users in every tier. "
            "Generated table kernelSeedPaths + kernel_seed_passed_unchanged: the derived seed reaches the kernel without `or`, "
            "condition, arithmetic or rebinding, also through helper parameters and hoisted locals.",
    "note": "The oracle reports a failing input only when an observable breaks (a mask / ACS differs across histories, instances, "
            "processes or call sites; a global or an already existing private stream state differs after a call; a process dies "
            "or hangs); whether an executed draw is a listed in-scope table site is compared in the correspondence and decided "
            "in the bridge, never presented as a failing input. Trusted: Lean kernel (+propext, Classical.choice, Quot.sound); the AST walk (closed world within direct.*: a call "
            "into an external library is classified by its dotted name only - numpy/torch/scipy functions that are not "
            "random-number entry points by name are assumed not to draw; every *executed* draw on self.rng is additionally "
            "checked to be a listed site); the regex front-end for the .pyx event lists (textual order = execution order of the "
            "straight-line prefix); numpy RandomState determinism (seed -> stream); SHA-1 of get_state() / of the 128 bytes of "
            "glibc's random state as state identity (libc ids are qualified by the provenance of the last kernel seed and its "
            "arguments so that coinciding drawn integers are not mistaken for equal symbolic states). Partial / outside: libc's "
            "state is NOT restored by a kernel-running call (stated and witnessed, not among the streams the property names); "
            "the number of rand() calls of a kernel run is abstracted to one request whose value stands for the whole loop; "
            "DataLoader workers are an oracle check (in the model a worker's copy is a `clone`), not part of the "
            "correspondence; CalgaryCampinas is out of scope: its RNG sites, state writes and unresolved calls are walked and "
            "reported in the generated file / translator status only (it needs downloaded masks to run); the other two "
            "definitions of temp_seed (datasets.py, ssl.py) and the third libc user (ssl/_gaussian_fill.pyx) are reported, "
            "not judged (they belong to C11/C12). Observation (not a violation: deterministic): integerize_seed rejects numpy "
            "integer scalars / arrays (isinstance(seed, int)), so Gaussian1D/2D/VD-Poisson raise ValueError for seed=np.int64(5) "
            "while the other 11 generators accept it; EstimateBodyCoilImage passes only the last three axes as shape, so it "
            "cannot be used with dynamic / multislice generators.",
    "technique": "Lean 4 proof (induction over interaction trees, LibcOk derivations and op histories) + generated tables "
                 "decided by `decide` + differential correspondence on recorded draw logs and RNG state ids + direct bitwise oracle",
}
TRUSTED = [
    "Lean 4.33 kernel; axioms ⊆ {propext, Classical.choice, Quot.sound}",
    "harness/translate/recipes/c05.py: closed-world AST walk building the RNG-access table (stream + scope of every draw "
    "statement reachable from a mask_func inside direct.*), the state-write scan, the consumers table; regex front-end for "
    "the .pyx libc event lists",
    "external libraries (numpy, torch, scipy) are classified by dotted name: only np.random.* / random.* / torch.rand* / "
    "manual_seed / default_rng / RandomState / in-place tensor random fills / methods named like draw methods count as draws",
    "recording RandomState subclass (props/rng_common.py) assigned to mask_func.rng; caller-frame -> table-site mapping",
    "numpy RandomState: seed(s) determines the stream; get_state/set_state save/restore it exactly; a rejected seed leaves "
    "the state untouched (checked on every run by the malformed-seed ops)",
    "SHA-1 of np.random.get_state() / torch.get_rng_state() / random.getstate() / the bytes of glibc's random state "
    "(read via setstate swap) as identity of a stream state",
    "out-of-tree build of the Cython kernels / the .pyx -> Python front-end (boot.py); libc srand/rand determinism",
]
ASSUMPTIONS = [
    "libc rand() state is not restored by a kernel-running call: stated exactly (libc_after_seeded_call, libc_not_restored), "
    "excluded from the restoration claim",
    "symbolic-stream model: two stream states are equal iff produced by the same seed and request sequence "
    "(the harness gives every perturbation of a global stream a distinct power-of-two size so that this is exact; libc "
    "state ids carry the provenance of the last kernel seed)",
    "one kernel run = srand(v) followed by one abstract request on the libc stream (its value = everything the rand() loop computed)",
]
RULE = ("one case = one history (4-9 ops: calls with other seeds / unseeded / other shapes / return_acs / other generator (40% a "
        "kernel generator sharing libc) / second instance, malformed rank / rejected seeds (float, -1, 2**32, (), bad elements), "
        "exceptions injected inside the seeded scope, infeasible pairs raising inside the scope, CreateSamplingMask / apply_mask / "
        "EstimateBodyCoilImage consumers each followed by the direct call with the same seed, deep copy / pickle round trip of the "
        "instance, perturbations and re-seedings of numpy, torch, python and libc, the ssl gaussian_fill kernel; every third history "
        "a 2-worker DataLoader over samples of two files) followed by the observed seeded call (mask and ACS, each preceded by the "
        "other kind of call with another seed) on a reused, fresh, deep-copied or unpickled instance, compared with the same call "
        "alone in another process (different PYTHONHASHSEED); all 14 generators x modes {static, dynamic, multislice} (Kt*: "
        "dynamic); per configuration int, file-name tuple and one rotating edge seed (0, 1, 2**32-1, list, numpy scalar, numpy "
        "array, 1-tuple, ~100-tuple, bytes tuple, tuple of numpy ints, elements at the limit). every tier, for the three kernel users: "
        "also histories with every derived kernel seed (`self.rng.randint(1e5)`) forced to 0 and to 99999. non-trivial = the history contains at least one other call "
        "on the observed instance and one global perturbation, and the mask has an axis >= 2; distinct = distinct (generator, "
        "mode, shape, seed, history) after canonicalisation")
EXTRA_LEAN_MODULES = ["DirectVerif.Lemmas.C05Driver"]
PENDING_FINDINGS: list[str] = []

MOD = "props.c05"


# --------------------------------------------------------------------------------------------------
# generator configurations (feasible pairs)
def confs_for(gen: str) -> list[dict]:
    cart = gen.startswith("Cartesian")
    base = {"gen": gen, "accelerations": [4, 8], "center_fractions": [4, 2] if cart else [0.08, 0.04]}
    if gen in RC.KT:
        return [dict(base, mode="dynamic")]
    return [dict(base, mode=m) for m in RC.MODES]


def raiser_for(gen: str):
    """a configuration of the same family whose seeded call raises *inside* `with temp_seed` (None when the family has none)"""
    if gen in ("FastMRIEquispaced", "FastMRIMagic", "KtUniform", "KtGaussian1D"):
        return {"gen": gen, "accelerations": [4], "center_fractions": [0.5], "mode": "dynamic" if gen in RC.KT else "static"}
    if gen == "CartesianEquispaced":
        return {"gen": gen, "accelerations": [4], "center_fractions": [16], "mode": "static"}
    if gen == "CartesianMagic":
        return {"gen": gen, "accelerations": [4], "center_fractions": [40], "mode": "static"}
    if gen == "VariableDensityPoisson":
        return {"gen": gen, "accelerations": [4], "center_fractions": [0.08], "mode": "static", "kwargs": {"tol": 1e-9}}
    return None


def shape_for(conf: dict, rng, small=False) -> list[int]:
    lo, hi = (16, 28) if small else (24, 44)
    if conf["gen"] in ("VariableDensityPoisson",):
        lo, hi = 32, 40
    rows, cols = rng.randint(lo, hi), rng.randint(lo, hi)
    if conf["gen"] in RC.TWO_D and conf["gen"] != "KtRadial":
        pass
    dyn = conf["mode"] != "static" or conf["gen"] in RC.KT
    shp = ([rng.randint(2, 4)] if dyn else []) + [rows, cols, 2]
    if rng.random() < 0.5:
        shp = [rng.choice([1, 3])] + shp
    return shp


# --------------------------------------------------------------------------------------------------
# worker side
_LIBC = {}


def _libc():
    """glibc's rand()/srand() through ctypes (the very generator the compiled kernels use) + a non-destructive read
    of its state: `setstate` swaps in a scratch buffer (which makes glibc store the read position in the old one),
    the old buffer is read, and swapped back."""
    import ctypes

    if not _LIBC:
        lib = ctypes.CDLL("libc.so.6")
        lib.setstate.restype = ctypes.c_void_p
        lib.setstate.argtypes = [ctypes.c_void_p]
        lib.initstate.restype = ctypes.c_void_p
        lib.initstate.argtypes = [ctypes.c_uint, ctypes.c_void_p, ctypes.c_size_t]
        _LIBC.update(lib=lib, buf=ctypes.create_string_buffer(128), inited=False, ctypes=ctypes)
    return _LIBC


def libc_state_bytes() -> bytes:
    L = _libc()
    lib, ct = L["lib"], L["ctypes"]
    if not L["inited"]:
        old = lib.initstate(1, L["buf"], 128)
        L["inited"] = True
    else:
        old = lib.setstate(ct.addressof(L["buf"]))
    if not old:
        return b"unreadable"
    raw = ct.string_at(old, 4 * 32)
    lib.setstate(old)
    return raw


def decode_seed(x):
    """JSON form of a seed -> the Python object handed to the generator"""
    import numpy as np

    if isinstance(x, list):
        return tuple(x)
    if isinstance(x, dict):
        f, v = x["form"], x["v"]
        return {"list": lambda: list(v), "npint64": lambda: np.int64(v), "npuint32": lambda: np.uint32(v),
                "nparray": lambda: np.array(v, dtype=np.int64), "tuple_np": lambda: tuple(np.int64(a) for a in v),
                "tuple": lambda: tuple(v), "int": lambda: int(v)}[f]()
    return x


def canon_seed(x):
    """canonical JSON-able identity of a seed: what numpy's RandomState.seed makes of it (the *form* is kept where a
    generator may treat it differently: numpy scalars / arrays are not `int` / `tuple` for integerize_seed)"""
    if isinstance(x, dict):
        if x["form"] in ("list", "tuple", "tuple_np"):
            return list(x["v"])
        if x["form"] == "int":
            return int(x["v"])
        return {"form": x["form"], "v": x["v"]}
    return x


def _forced(op):
    """`kseed`: every integer seed drawn for a Cython kernel (`self.rng.randint(1e5)`) is replaced by this value —
    the rare draws (0, 99999) that a kernel may treat specially are reached deterministically"""
    if op.get("kseed") is None:
        return None
    ks = int(op["kseed"])
    return {"randint": lambda a, k, v: (ks if (len(a) == 1 and not k and float(a[0]) == 1e5) else v)}


def _call_op(mf, op):
    seed = op["seed"]
    if isinstance(seed, dict):
        sd = decode_seed(seed)
        return RC.run_call(mf, None, False, None, fault=op.get("fault"), forced=_forced(op),
                           thunk=lambda m: m(tuple(op["shape"]), return_acs=bool(op["acs"]), seed=sd))
    return RC.run_call(mf, op["shape"], op["acs"], seed, fault=op.get("fault"), forced=_forced(op))


def _consumer_thunk(op, mf):
    """the ways into a generator from outside subsample.py; returns (thunk, nothing else)"""
    import torch

    k = op["op"]
    if k == "transform":
        from direct.data.mri_transforms import CreateSamplingMask

        tr = CreateSamplingMask(mask_func=mf, use_seed=True, return_acs=bool(op["acs"]))

        def thunk(m):
            smp = tr({"kspace": torch.zeros(*op["kshape"]), "filename": op["filename"], "slice_no": op.get("slice_no", 0)})
            return [smp["sampling_mask"]] + ([smp["acs_mask"]] if op["acs"] else [])
        return thunk
    if k == "apply_mask":
        import direct.data.transforms as T

        def thunk(m):
            _, mask = T.apply_mask(torch.zeros(*op["kshape"]), m, seed=decode_seed(op["seed"]), return_mask=True)
            return [mask]
        return thunk
    if k == "body_coil":
        from direct.data.mri_transforms import EstimateBodyCoilImage

        got = []

        class Proxy:                     # records the ACS mask the transform asked the generator for
            def __call__(self, *a, **kw):
                r = mf(*a, **kw)
                got.append(r)
                return r

        tr = EstimateBodyCoilImage(Proxy(), backward_operator=lambda ksp, dim: ksp, use_seed=True)

        def thunk(m):
            tr({"kspace": torch.zeros(*op["kshape"]), "filename": op["filename"], "slice_no": op.get("slice_no", 0)})
            return list(got)
        return thunk
    raise ValueError(k)


def _loader(mf, op):
    """the generator inside DataLoader worker processes (fork: every worker gets its own copy of the object and of all
    global generators, re-seeded by torch): items of one file must get one mask, whichever worker serves them"""
    import os

    import torch
    from direct.data.mri_transforms import CreateSamplingMask

    tr = CreateSamplingMask(mask_func=mf, use_seed=True, return_acs=True)

    class DS(torch.utils.data.Dataset):
        def __len__(self):
            return len(op["filenames"])

        def __getitem__(self, i):
            try:
                smp = tr({"kspace": torch.zeros(*op["kshape"]), "filename": op["filenames"][i], "slice_no": i})
            except Exception as e:  # noqa: BLE001 - e.g. an infeasible VD-Poisson seed: an outcome like any other
                return {"err": type(e).__name__, "pid": os.getpid()}
            return {"m": smp["sampling_mask"], "a": smp["acs_mask"], "pid": os.getpid()}

    out = []
    for b in torch.utils.data.DataLoader(DS(), batch_size=None, num_workers=op["workers"], shuffle=False):
        if "err" in b:
            out.append({"mask": "err:" + b["err"], "acs": "err:" + b["err"], "pid": int(b["pid"])})
            continue
        m, a = b["m"].numpy(), b["a"].numpy()
        out.append({"mask": RC.sha(m.shape, str(m.dtype), m.tobytes()), "acs": RC.sha(a.shape, str(a.dtype), a.tobytes()),
                    "pid": int(b["pid"])})
    return out


def job_history(args: dict) -> dict:
    import copy
    import pickle
    import random

    import numpy as np
    import torch

    confs = args["confs"]
    insts: dict[int, object] = {}
    prov = ["start"]          # which private draw produced the seed of the last kernel run (see snap)

    def snap():
        g = RC.global_snapshot()
        # (peek: never run code of the object here — a lazily created stream must come into being inside a call)
        g["priv"] = [RC.rng_state_hash(RC.peek_rng(insts[i])) if i in insts and RC.peek_rng(insts[i]) is not None
                     else f"uncreated-{i}" for i in range(len(confs))]
        # libc: the bytes of glibc's generator state, qualified by the provenance of the last kernel seed so that two
        # kernel runs whose *drawn integers* happen to coincide are not taken for the same (symbolic) state
        g["libc"] = RC.sha(libc_state_bytes(), prov[0])
        return g

    def note_kernels(log):
        last_draw = None
        for e in log:
            if e["kind"] == "draw":
                last_draw = e["pre"]
            elif e["kind"] == "kernel":
                # (with the arguments: two runs from the same seed that happen to consume equally many rand()s
                # end in the same C state although they are different runs)
                prov[0] = (last_draw, e["name"], e.get("args"))

    initial = snap()
    steps = []
    for op in args["ops"]:
        rec = {}
        k = op["op"]
        if k == "new":
            insts[op["inst"]] = RC.build(confs[op["inst"]])
        elif k == "call":
            r = _call_op(insts[op["inst"]], op)
            r.pop("_array", None)
            rec["call"] = r
            note_kernels(r["log"])
        elif k in ("transform", "apply_mask", "body_coil"):
            # the data pipeline's ways into the generator
            rec["call"] = RC.run_call(insts[op["inst"]], None, False, None, forced=_forced(op),
                                      thunk=_consumer_thunk(op, insts[op["inst"]]))
            note_kernels(rec["call"]["log"])
        elif k == "loader":
            try:
                rec["items"] = _loader(insts[op["inst"]], op)
            except Exception as e:  # noqa: BLE001
                rec["items"] = None
                rec["err"] = f"{type(e).__name__}: {e}"[:200]
        elif k == "clone":
            # deep copy / pickle round trip of a generator object mid-history (DataLoader workers started with
            # `spawn`, checkpointed transforms, copy.deepcopy of a dataset).  The recording stream is a local class:
            # hand the object a plain RandomState in the same state for the round trip.
            src = insts[op["src"]]
            keep = RC.peek_rng(src)
            if keep is not None:
                plain = np.random.RandomState()
                plain.set_state(keep.get_state())
                RC.set_rng(src, plain)
            try:
                insts[op["dst"]] = copy.deepcopy(src) if op["how"] == "deepcopy" else pickle.loads(pickle.dumps(src))
            finally:
                if keep is not None:
                    RC.set_rng(src, keep)
        elif k == "np_draw":
            np.random.rand(op["n"])
        elif k == "np_seed":
            np.random.seed(op["s"])
        elif k == "torch_draw":
            torch.rand(op["n"])
        elif k == "torch_seed":
            torch.manual_seed(op["s"])
        elif k == "py_draw":
            [random.random() for _ in range(op["n"])]
        elif k == "py_seed":
            random.seed(op["s"])
        elif k == "libc_draw":
            lib = _libc()["lib"]
            for _ in range(op["n"]):
                lib.rand()
        elif k == "libc_seed":
            _libc()["lib"].srand(op["s"])
            prov[0] = None
        elif k == "ssl_fill":
            # another Cython kernel of the package using the same C generator (direct.ssl): srand(seed), then draws
            from direct.ssl._gaussian_fill import gaussian_fill

            gaussian_fill(3, 8, 8, 4, 4, 4.0, np.ones((8, 8), dtype=np.int64), np.zeros((8, 8), dtype=np.int64), op["s"])
            prov[0] = None
        else:
            raise ValueError(k)
        rec["snap"] = snap()
        steps.append(rec)
    return {"initial": initial, "steps": steps}


# --------------------------------------------------------------------------------------------------
# parent side
EDGE_SEEDS = ["zero", "max32", "list", "npint", "tuple1", "tuple100", "bytes", "nparray", "one", "tuple_np", "bigelem"]


def _seed_of(kind: str, rng):
    """JSON form of a seed of the given kind (ints and lists as they are; other forms as {"form", "v"})"""
    if kind == "int":
        return rng.randrange(1, 2 ** 31)
    if kind == "tuple":
        name = "file%d_%d.h5" % (rng.randint(1, 999), rng.randint(0, 40))
        return list(map(ord, name))
    if kind == "zero":                      # the legal integer seed 0 (falsy!)
        return 0
    if kind == "one":
        return 1
    if kind == "max32":                     # the largest seed RandomState accepts
        return 2 ** 32 - 1
    if kind == "list":                      # a list, not a tuple (kept a list all the way into the call)
        return {"form": "list", "v": [rng.randrange(0, 2 ** 32) for _ in range(rng.randint(2, 6))]}
    if kind == "npint":                     # numpy integer scalars (what `sample["slice_no"]`-like values often are)
        return {"form": rng.choice(["npint64", "npuint32"]), "v": rng.randrange(0, 2 ** 31)}
    if kind == "tuple1":
        return [rng.randrange(0, 2 ** 32)]
    if kind == "tuple100":                  # a long file name
        return [rng.randrange(32, 127) for _ in range(rng.randint(90, 120))]
    if kind == "bytes":                     # tuple(b"...")
        return list(bytes(rng.randrange(0, 256) for _ in range(rng.randint(3, 12))))
    if kind == "nparray":
        return {"form": "nparray", "v": [rng.randrange(0, 2 ** 31) for _ in range(3)]}
    if kind == "tuple_np":                  # a tuple of numpy integers
        return {"form": "tuple_np", "v": [rng.randrange(0, 2 ** 31) for _ in range(4)]}
    if kind == "bigelem":                   # elements at the upper limit
        return [2 ** 32 - 1, 0, 2 ** 32 - 1]
    raise ValueError(kind)


BAD_SEEDS = [1.5, -1, 2 ** 32, [], [-1, 2], [2 ** 32], {"form": "npint64", "v": -3}]     # each is rejected by RandomState.seed


KERNEL_GENS = ("Gaussian1D", "Gaussian2D", "VariableDensityPoisson")


def make_history(conf: dict, seedkind: str, rng, idx: int, kseed=None) -> dict:
    """confs[0] observed generator, confs[1] a second instance of it, confs[2] another generator, [confs[3] an infeasible
    configuration of the same family,] confs[-1] the slot of a deep copy / pickle round trip of instance 0."""
    others = [g for g in RC.GENERATORS if g != conf["gen"]]
    other = confs_for(rng.choice(others))[0]
    if rng.random() < 0.4:                 # prefer a generator that runs a Cython kernel (shares libc with the observed one)
        other = confs_for(rng.choice([g for g in ("Gaussian1D", "Gaussian2D", "VariableDensityPoisson") if g != conf["gen"]]))[0]
    raiser = raiser_for(conf["gen"])
    confs = [conf, conf, other] + ([raiser] if raiser else []) + [conf]
    CL = len(confs) - 1
    shape = shape_for(conf, rng)
    seed = _seed_of(seedkind, rng)
    fname = "".join(map(chr, seed)) if seedkind == "tuple" else None     # the observed seed IS the ord-tuple of this name
    static = conf["mode"] == "static" and conf["gen"] not in RC.KT
    ops = [{"op": "new", "inst": 0}, {"op": "new", "inst": 2}] + ([{"op": "new", "inst": 3}] if raiser else [])
    sizes = {"np": [1, 2, 4, 8, 16, 32], "torch": [1, 2, 4, 8], "py": [1, 2, 4, 8, 16], "libc": [1, 2, 4, 8]}
    for v in sizes.values():
        rng.shuffle(v)
    n = rng.randint(4, 8)
    kinds = ["other_seed", "unseeded", "other_shape", "acs", "other_gen", "same", "np", "torch", "py", "np", "py", "torch",
             "bad_shape", "bad_seed", "fault", "fault", "transform_other", "transform_same", "raiser",
             "libc", "libc", "ssl_fill", "other_gen", "apply_mask", "body_coil", "clone"]
    has_call0 = has_pert = False
    cloned = False
    for j in range(n):
        k = rng.choice(kinds)
        if j == 0:
            k = rng.choice(["other_seed", "unseeded", "acs", "same", "other_shape"])
        if j == 1:
            k = rng.choice(["np", "torch", "py", "libc"])
        if j == n - 1 and rng.random() < 0.5:
            k = rng.choice(["fault", "raiser", "transform_same", "libc", "ssl_fill"])      # right before the observed call
        if k == "other_seed":
            ops.append({"op": "call", "inst": 0, "shape": shape, "acs": False, "seed": _seed_of(rng.choice(["int", "tuple"]), rng)})
        elif k == "unseeded":
            ops.append({"op": "call", "inst": 0, "shape": shape, "acs": rng.random() < 0.3, "seed": None})
        elif k == "other_shape":
            ops.append({"op": "call", "inst": 0, "shape": shape_for(conf, rng, small=True), "acs": False, "seed": seed})
        elif k == "acs":
            ops.append({"op": "call", "inst": 0, "shape": shape, "acs": True, "seed": seed})
        elif k == "same":
            ops.append({"op": "call", "inst": 0, "shape": shape, "acs": False, "seed": seed})
        elif k == "bad_shape":     # malformed: rank too small -> ValueError, nothing may change
            ops.append({"op": "call", "inst": 0, "shape": shape[-2:] if conf["gen"] not in RC.KT else shape[-3:], "acs": False,
                        "seed": seed})
        elif k == "bad_seed":      # malformed: rejected by RandomState.seed before the `try` -> nothing may change
            ops.append({"op": "call", "inst": 0, "shape": shape, "acs": False, "seed": rng.choice(BAD_SEEDS), "bad": True})
        elif k == "fault":         # an exception raised inside `with temp_seed` (at the k-th draw statement)
            ops.append({"op": "call", "inst": 0, "shape": shape, "acs": rng.random() < 0.2,
                        "seed": seed if rng.random() < 0.7 else None, "fault": rng.choice([1, 1, 2])})
        elif k == "raiser":        # an infeasible pair of the same family: raises inside the scope by itself
            if not raiser:
                continue
            ops.append({"op": "call", "inst": 3, "shape": shape if raiser["mode"] == conf["mode"] or conf["gen"] in RC.KT
                        else shape[-3:], "acs": False, "seed": seed})
        elif k in ("transform_other", "transform_same"):
            nm = fname if (k == "transform_same" and fname) else "file%d.h5" % rng.randint(1, 9999)
            ops.append({"op": "transform", "inst": 0, "kshape": [rng.choice([1, 4])] + shape, "filename": nm,
                        "acs": rng.random() < 0.5, "same": nm == fname, "slice_no": rng.randint(0, 30)})
        elif k == "apply_mask":    # direct.data.transforms.apply_mask(kspace, mask_func, seed): followed by the direct call
            sd = seed if rng.random() < 0.4 else _seed_of(rng.choice(["int", "tuple", "zero", "zero", "zero"]), rng)
            ops.append({"op": "apply_mask", "inst": 0, "kshape": [2] + shape, "seed": sd})
            ops.append({"op": "call", "inst": 0, "shape": shape, "acs": False, "seed": sd, "twin": len(ops) - 1})
        elif k == "body_coil":     # EstimateBodyCoilImage: ACS mask of the *last three* axes, seed = file name
            if not static:
                continue
            nm = fname if (fname and rng.random() < 0.6) else "file%d.h5" % rng.randint(1, 9999)
            ops.append({"op": "body_coil", "inst": 0, "kshape": [2] + shape[-3:], "filename": nm, "slice_no": rng.randint(1, 30)})
            ops.append({"op": "call", "inst": 0, "shape": shape[-3:], "acs": True, "seed": list(map(ord, nm)),
                        "twin": len(ops) - 1})
        elif k == "clone":         # copy of instance 0 mid-history; later calls may go to the copy
            if cloned:
                continue
            ops.append({"op": "clone", "src": 0, "dst": CL, "how": rng.choice(["deepcopy", "pickle"])})
            ops.append({"op": "call", "inst": CL, "shape": shape, "acs": rng.random() < 0.5,
                        "seed": seed if rng.random() < 0.5 else None})
            cloned = True
        elif k == "other_gen":
            ops.append({"op": "call", "inst": 2, "shape": shape_for(other, rng, small=True), "acs": False,
                        "seed": seed if rng.random() < 0.5 else None})
        elif k == "ssl_fill":
            ops.append({"op": "ssl_fill", "s": rng.randrange(2 ** 20, 2 ** 31)})
            has_pert = True
        else:
            if not sizes[k]:
                continue
            if rng.random() < 0.3:
                ops.append({"op": k + "_seed", "s": rng.randrange(2 ** 20, 2 ** 31)})
            else:
                ops.append({"op": k + "_draw", "n": sizes[k].pop()})
            has_pert = True
        if ops[-1]["op"] in ("call", "transform", "apply_mask", "body_coil") and ops[-1].get("inst") == 0:
            has_call0 = True
    if idx % 3 == 0:
        # DataLoader worker processes over samples of two files (one of them the observed file when the seed is a name)
        nm2 = "file%d.h5" % rng.randint(1, 9999)
        names = [fname or "vol_%d.h5" % idx, nm2, fname or "vol_%d.h5" % idx, nm2]
        ops.append({"op": "loader", "inst": 0, "kshape": [2] + shape, "filenames": names, "workers": 2,
                    "same": bool(fname)})
        has_pert = True
    obs_kind = ["reused", "fresh", "clone"][rng.randrange(3)] if rng.random() < 0.9 else "reused"
    if obs_kind == "fresh":
        ops.append({"op": "new", "inst": 1})
        obs = 1
    elif obs_kind == "clone":
        ops.append({"op": "clone", "src": 0, "dst": CL, "how": ["deepcopy", "pickle"][idx % 2]})
        obs = CL
    else:
        obs = 0
    # the observed calls, each immediately preceded by the *other* kind of call with *another* seed on the same instance
    # (a per-instance memo of "the last mask" / "the last ACS" must not leak into the next call):
    #   pattern A: mask(a1) ACS(b)* mask(a2) ACS(b)* mask(b)*      pattern B: ACS(a1) mask(b)* ACS(a2) mask(b)* ACS(b)*
    observed = []
    first_acs = (idx // 2 + idx) % 2 == 1          # pattern B (alternates over seed kinds and repetitions)
    for rep_i in range(2):
        ops.append({"op": "call", "inst": obs, "shape": shape, "acs": first_acs,
                    "seed": _seed_of(rng.choice(["int", "tuple"]), rng)})
        ops.append({"op": "call", "inst": obs, "shape": shape, "acs": not first_acs, "seed": seed})
        observed.append(len(ops) - 1)
    ops.append({"op": "call", "inst": obs, "shape": shape, "acs": first_acs, "seed": seed})
    observed.append(len(ops) - 1)
    if kseed is not None:
        # (the draws inside DataLoader worker processes cannot be forced: no loader op in these histories)
        drop = [i for i, o in enumerate(ops) if o["op"] == "loader"]
        for i in reversed(drop):
            del ops[i]
            observed = [j - 1 if j > i else j for j in observed]
            for o in ops:
                if o.get("twin") is not None and o["twin"] > i:
                    o["twin"] -= 1
        for o in ops:
            if o["op"] in ("call", "transform", "apply_mask", "body_coil"):
                o["kseed"] = kseed
    return {"confs": confs, "ops": ops, "shape": shape, "seed": seed, "seedkind": seedkind, "fresh": obs_kind == "fresh",
            "kseed": kseed,
            "obs_kind": obs_kind, "observed": observed, "pattern": "B" if first_acs else "A",
            "nontrivial": has_call0 and has_pert and max(shape[:-1]) >= 2, "idx": idx}


def reference_job(h: dict) -> dict:
    # the same calls alone, each on its own fresh instance, in another process: steps[1] = mask, steps[3] = ACS
    ks = {"kseed": h["kseed"]} if h.get("kseed") is not None else {}
    return {"confs": [h["confs"][0], h["confs"][0]],
            "ops": [{"op": "new", "inst": 0},
                    {"op": "call", "inst": 0, "shape": h["shape"], "acs": False, "seed": h["seed"], **ks},
                    {"op": "new", "inst": 1},
                    {"op": "call", "inst": 1, "shape": h["shape"], "acs": True, "seed": h["seed"], **ks}]}


def _observed(h):
    """indices of the observed ops; (last observed mask call, last observed ACS call)"""
    obs = h.get("observed") or [len(h["ops"]) - 2, len(h["ops"]) - 1]
    m = [i for i in obs if not h["ops"][i]["acs"]]
    a = [i for i in obs if h["ops"][i]["acs"]]
    return obs, m[-1], a[-1]


_RUN: dict = {}


def _table():
    """the RNG-access table of the current source; when the source can no longer be walked (translator skipped) the
    executed draws are not mapped to sites and the check rests on state ids and bitwise masks"""
    from translate.recipes import c05 as R

    try:
        return R.rng_table()
    except Exception as e:  # noqa: BLE001 - Untranslatable and friends
        return {"sites": [{"name": "*", "src": "priv", "in_scope": True, "lineno": 0, "end_lineno": 0, "method": "*"}],
                "skipped": repr(e)}


def _site_index(table: dict, e: dict) -> int:
    """static site of an executed draw: by caller function name, line and scope flag; -1 = not listed"""
    if table.get("skipped"):
        return 0
    best = -1
    for i, s in enumerate(table["sites"]):
        if s["name"] == e["func"] and s["lineno"] <= e["lineno"] <= s["end_lineno"] and s["method"] == e.get("method"):
            if s["src"] == "priv" and s["in_scope"] == e["in_scope"]:
                return i
            if s["src"] == "priv":
                best = i
    return best


def run_histories(ctx: Ctx, n_per_conf: int, store: dict, kseeds=()):
    # two processes with different hash randomisation: nothing about a seeded mask may depend on `hash()`
    wa, wb = RC.Worker(extra_env={"PYTHONHASHSEED": "1"}), RC.Worker(extra_env={"PYTHONHASHSEED": "20230917"})
    store.setdefault("histories", [])
    store.setdefault("hangs", [])
    try:
        wa.start()
        wb.start()
        idx = len(store["histories"])
        nconf = 0
        for gen in RC.GENERATORS:
            for conf in confs_for(gen):
                nconf += 1
                for rep in range(n_per_conf):
                    # per configuration: int and file-name seeds, and (every other repetition) one of the edge seeds,
                    # rotating over configurations and VERIF_SEED so that every run has every kind
                    edge = EDGE_SEEDS[(nconf + ctx.seed + rep // 2) % len(EDGE_SEEDS)]
                    for seedkind in (("int", "tuple") if rep % 2 == 0 else (edge, "tuple" if rep % 4 == 1 else "int")):
                        h = make_history(conf, seedkind, ctx.rng, idx)
                        idx += 1
                        try:
                            h["res"] = wa.call(MOD, "job_history", {"confs": h["confs"], "ops": h["ops"]}, budget=60)
                            h["ref"] = wb.call(MOD, "job_history", reference_job(h), budget=60)
                        except RC.Hang as e:
                            store["hangs"].append({"history": {k: h[k] for k in ("confs", "ops")}, "budget": e.budget})
                            continue
                        except RC.WorkerFailure as e:     # the process died: a finding with its arguments, never exit 2
                            store["hangs"].append({"history": {k: h[k] for k in ("confs", "ops")}, "budget": 0,
                                                   "crash": str(e)[:120], "gen": conf["gen"]})
                            continue
                        store["histories"].append(h)
        # rare kernel seeds reached deterministically (every `self.rng.randint(1e5)` forced to the value): thorough
        # tier and failing-input search only
        for ks in kseeds:
            for gen in KERNEL_GENS:
                for conf in confs_for(gen):
                    h = make_history(conf, "int", ctx.rng, idx, kseed=ks)
                    idx += 1
                    try:
                        h["res"] = wa.call(MOD, "job_history", {"confs": h["confs"], "ops": h["ops"]}, budget=60)
                        h["ref"] = wb.call(MOD, "job_history", reference_job(h), budget=60)
                    except RC.Hang as e:
                        store["hangs"].append({"history": {k: h[k] for k in ("confs", "ops")}, "budget": e.budget})
                        continue
                    except RC.WorkerFailure as e:
                        store["hangs"].append({"history": {k: h[k] for k in ("confs", "ops")}, "budget": 0,
                                               "crash": str(e)[:120], "gen": conf["gen"]})
                        continue
                    store["histories"].append(h)
    finally:
        wa.close()
        wb.close()


def prepare(ctx: Ctx):
    _RUN.clear()
    _RUN["table"] = _table()
    # the forced-kernel-seed probe (every `self.rng.randint(1e5)` replaced by 0 / 99999, the ends of its range) is part of
    # every tier: a kernel seed treated specially (`seed or …`, `if seed > 0: srand(seed)`) shows at 1e-5 per frame otherwise
    run_histories(ctx, ctx.budget(2, 12), _RUN, kseeds=(0, 99999))


# --------------------------------------------------------------------------------------------------
def _number(xs):
    seen = {}
    out = []
    for x in xs:
        if x not in seen:
            seen[x] = len(seen)
        out.append(seen[x])
    return out


def _events(table, call, reqs: dict):
    """flat (kind, site, req) of a recorded call; kind 0 draw, 1 in-body reseed, 2 kernel run"""
    ev = []
    for e in call["log"]:
        if e["kind"] == "draw":
            ev += [0, _site_index(table, e) if _site_index(table, e) >= 0 else 9999, reqs.setdefault(e["req"], len(reqs))]
        elif e["kind"] == "seed":
            ev += [1, _site_index(table, e) if _site_index(table, e) >= 0 else 9999, 0]
        elif e["kind"] == "kernel":
            ev += [2, _kernel_index(table, e["name"]), reqs.setdefault(("k", e["name"], e.get("args")), len(reqs))]
        elif e["kind"] == "set_state":
            ev += [0, 9999, reqs.setdefault("set_state", len(reqs))]
    return ev


def _out_identity(conf_id, op, call):
    scope = [e.get("post") for e in call["log"] if e["kind"] in ("scope_seed", "seed")]
    draws = [(e["pre"], e["req"]) for e in call["log"] if e["kind"] == "draw"]
    kern = [(e["name"], e["seed"]) for e in call["log"] if e["kind"] == "kernel"]
    if not draws:
        scope = []      # nothing was drawn: the outcome (an exception) cannot depend on the seed
    return RC.sha(conf_id, op["shape"], op["acs"], call["err"], call.get("mask"), scope, draws, kern)


def _table_groups(table):
    from translate.recipes.c05 import SRC_CODE

    flat = []
    for s in table["sites"]:
        flat += [SRC_CODE[s["src"]], 1 if s["in_scope"] else 0]
    return flat


_EV_CODE = {"srand:seed": 0, "srand:other": 1}


def _pyx_groups(table):
    """the generated libc event lists of the .pyx kernels, `-1` terminated (0 srand(seed), 1 other srand, 2 rand)"""
    flat = []
    for k in table.get("pyx") or [{"events": ["srand:seed", "rand"]}]:
        flat += [_EV_CODE.get(e, 2) for e in k.get("events", [])] + [-1]
    return flat


def _kernel_index(table, name: str) -> int:
    names = [k["name"] for k in table.get("pyx") or []]
    nm = name.lstrip("_")
    return names.index(nm) if nm in names else (0 if table.get("skipped") else 99)


def _tag(call, op):
    """a call that raised before it drew anything is the same outcome whatever its seed"""
    if call["err"] and not any(e["kind"] == "draw" for e in call["log"]):
        return f"nodraw:{call['err']}"
    return "fault" if (op.get("fault") and call["err"] == "RuntimeError") else None


CONSUMER_SUBS = {"transform": [False, True], "apply_mask": [False], "body_coil": [True]}


def _consumer_seed_and_shape(op):
    """(canonical seed, shape) the consumer hands to the generator"""
    if op["op"] == "apply_mask":
        return canon_seed(op["seed"]), op["kshape"][1:]
    if op["op"] == "body_coil":
        return list(map(ord, op["filename"])), op["kshape"][-3:]
    return list(map(ord, op["filename"])), op["kshape"][1:]


def correspondence(ctx: Ctx):
    table = _RUN["table"]
    tflat = _table_groups(table)
    pflat = _pyx_groups(table)
    for h in _RUN["histories"]:
        res = h["res"]
        ninst = len(h["confs"])
        conf_ids = {}
        keys, seeds, reqs = {}, {}, {}
        groups = [[ninst], tflat, pflat]
        snaps = [res["initial"]]
        outs = []
        for op, st in zip(h["ops"], res["steps"]):
            k = op["op"]
            if k == "new":
                groups.append([1, op["inst"]])
                snaps.append(st["snap"])
            elif k == "clone":
                groups.append([4, op["src"], op["dst"]])
                snaps.append(st["snap"])
            elif k == "call":
                cid = conf_ids.setdefault(json.dumps(h["confs"][op["inst"]], sort_keys=True), len(conf_ids))
                tag = _tag(st["call"], op)
                key = keys.setdefault((cid, tuple(op["shape"]), op["acs"], tag), len(keys))
                sd = -1 if op["seed"] is None else seeds.setdefault(json.dumps(canon_seed(op["seed"])), len(seeds))
                groups.append([0, op["inst"], key, sd] + _events(table, st["call"], reqs))
                snaps.append(st["snap"])
                outs.append(_out_identity(cid, op, st["call"]))
            elif k in CONSUMER_SUBS:
                # one generator call per `with temp_seed` scope the consumer opened
                cid = conf_ids.setdefault(json.dumps(h["confs"][op["inst"]], sort_keys=True), len(conf_ids))
                cseed, cshape = _consumer_seed_and_shape(op)
                sd = -1 if cseed is None else seeds.setdefault(json.dumps(cseed), len(seeds))
                subs, cur = [], None
                for e in st["call"]["log"]:
                    if e["kind"] == "scope_seed":
                        cur = [e]
                        subs.append(cur)
                    elif cur is not None:
                        cur.append(e)
                if not subs:
                    subs = [[]]
                flags = CONSUMER_SUBS[k]
                for n_sub, sub in enumerate(subs):
                    acs = flags[min(n_sub, len(flags) - 1)]
                    pop = {"shape": list(cshape), "acs": acs}
                    masks = st["call"].get("masks") or []
                    pcall = {"err": st["call"]["err"] if n_sub == len(subs) - 1 else None,
                             "mask": masks[n_sub] if n_sub < len(masks) else None, "log": sub}
                    key = keys.setdefault((cid, tuple(pop["shape"]), acs, _tag(pcall, {})), len(keys))
                    groups.append([0, op["inst"], key, sd] + _events(table, pcall, reqs))
                    snaps.append(st["snap"])
                    outs.append(_out_identity(cid, pop, pcall))
            elif k == "loader":
                # in the parent process a DataLoader is one draw from the global torch generator (its base seed);
                # the generator calls happen in the workers' copies
                groups.append([2, 1, reqs.setdefault(("loader", len(reqs)), len(reqs))])
                snaps.append(st["snap"])
            elif k == "ssl_fill":
                # srand(s) + the draws of another kernel: an opaque new libc state
                groups.append([3, 3, seeds.setdefault(json.dumps(["ssl", op["s"]]), len(seeds))])
                snaps.append(st["snap"])
            else:
                which = {"np": 0, "torch": 1, "py": 2, "libc": 3}[k.split("_")[0]]
                if k.endswith("_draw"):
                    groups.append([2, which, reqs.setdefault(("g", op["n"]), len(reqs))])
                else:
                    groups.append([3, which, seeds.setdefault(json.dumps(["g", op["s"]]), len(seeds))])
                snaps.append(st["snap"])
        ans = "ok " + " | ".join(" ".join(map(str, g)) for g in [
            _number([s["np"] for s in snaps]), _number([s["torch"] for s in snaps]), _number([s["py"] for s in snaps]),
            _number([p for s in snaps for p in s["priv"]]), _number(outs), _number([s["libc"] for s in snaps])])
        conf = h["confs"][0]
        yield {"line": line("hist", *groups), "impl": (lambda a=ans: a), "nontrivial": h["nontrivial"],
               "key": ("hist", h["idx"], json.dumps(h["ops"], sort_keys=True)),
               "bucket": f"hist/{conf['gen']}/{conf['mode']}/{h['seedkind']}/{h.get('obs_kind', 'fresh' if h['fresh'] else 'reused')}/{h.get('pattern', '')}"
                         + (f"/kseed{h['kseed']}" if h.get("kseed") is not None else "")}
        # ACS branch vs mask branch of the observed call (last two steps)
        _, mi, ai = _observed(h)
        mask_call, acs_call = res["steps"][mi]["call"], res["steps"][ai]["call"]
        if mask_call["err"] or acs_call["err"]:
            continue
        reqs2: dict = {}
        lead = _events(table, acs_call, reqs2)
        full = _events(table, mask_call, reqs2)
        rest = full[len(lead):]
        sd = 0

        def trace(call):
            out = []
            for e in call["log"]:
                if e["kind"] == "draw":
                    out += [max(_site_index(table, e), 0) if _site_index(table, e) >= 0 else 9999, reqs2[e["req"]]]
            return out

        ta, tm = trace(acs_call), trace(mask_call)
        vals = []
        for c in (acs_call, mask_call):
            last = None
            for e in c["log"]:
                if e["kind"] == "draw":
                    last = (e["pre"], e["req"])
                    vals.append(last)
                elif e["kind"] == "kernel":      # the result of a kernel run: a function of its seed (the last draw) and arguments
                    vals.append(("kernel", last, e["name"], e.get("args")))
        ans2 = "ok " + " | ".join(" ".join(map(str, g)) for g in [[1 if tm[:len(ta)] == ta else 0], ta, tm, _number(vals)])
        yield {"line": line("acs", tflat, pflat, [sd], lead, rest), "impl": (lambda a=ans2: a), "nontrivial": len(tm) > len(ta),
               "key": ("acs", h["idx"], conf["gen"], conf["mode"], tuple(h["shape"]), json.dumps(h["seed"])),
               "bucket": f"acs/{conf['gen']}/{conf['mode']}"}


# --------------------------------------------------------------------------------------------------
def _check_history(h, table):
    """the property stated directly on what the real code did"""
    res, ref = h["res"], h["ref"]
    conf = h["confs"][0]
    tag = f"{conf['gen']}/{conf['mode']}"
    rep = {"op": "history", "confs": h["confs"], "ops": h["ops"], "shape": h["shape"], "seed": h["seed"],
           "observed": h.get("observed")}
    prev = res["initial"]
    for op, st in zip(h["ops"], res["steps"]):
        if op["op"] in ("call", "transform", "apply_mask", "body_coil"):
            for stream in ("np", "torch", "py"):
                if st["snap"][stream] != prev[stream]:
                    yield Violation(f"global-{stream}-touched/{h['confs'][op['inst']]['gen']}",
                                    f"a generator call changed the global {stream} random stream",
                                    dict(rep, failing_op=op, stream=stream))
            # (a private stream that did not exist before the call — lazily created — has no earlier state to compare)
            if any(a != b for a, b in zip(prev["priv"], st["snap"]["priv"]) if not str(a).startswith("uncreated-")):
                yield Violation(f"private-stream-not-restored/{h['confs'][op['inst']]['gen']}",
                                "a generator call left a private RandomState in a different state",
                                dict(rep, failing_op=op))
            # NOTE: whether an executed draw is a listed in-scope site of the RNG-access table is a *structural* fact; it
            # is compared in the correspondence (site indices of the trace) and decided in the bridge — never reported
            # here as a failing input: only observables (stream states, masks) are.
        prev = st["snap"]
    obs_idx, mi, ai = _observed(h)
    obs_mask, obs_acs = res["steps"][mi]["call"], res["steps"][ai]["call"]
    ref_mask, ref_acs = ref["steps"][1]["call"], ref["steps"][-1]["call"]
    # every observed call (sampling masks AND autocalibration masks) bitwise against the same call on a fresh instance
    for oi in obs_idx:
        what = "acs" if h["ops"][oi]["acs"] else "mask"
        a, b = res["steps"][oi]["call"], (ref_acs if what == "acs" else ref_mask)
        if (a["err"], a.get("mask")) != (b["err"], b.get("mask")):
            rep2 = dict(rep, observed_op_index=oi, previous_op=h["ops"][oi - 1])
            yield Violation(f"seeded-{what}-depends-on-history/{tag}",
                            f"same shape + seed gives a different {what} after a history than alone in a fresh process",
                            dict(rep2, what=what, observed={"err": a["err"], "mask": a.get("mask"), "sum": a.get("sum")},
                                 expected={"err": b["err"], "mask": b.get("mask"), "sum": b.get("sum")}))
    # the data pipeline's route: CreateSamplingMask on a sample of the same file / shape gives the observed mask
    for op, st in zip(h["ops"], res["steps"]):
        if op["op"] == "transform" and op.get("same") and st["call"]["err"] is None and obs_mask["err"] is None:
            got = st["call"]["masks"]
            if got[0] != obs_mask["mask"] or (len(got) > 1 and got[1] != obs_acs["mask"]):
                yield Violation(f"transform-mask-differs/{tag}",
                                "CreateSamplingMask(use_seed) on a sample with this file name gives another mask than "
                                "mask_func(shape, seed=tuple(map(ord, filename)))", dict(rep, failing_op=op))
        if op["op"] == "transform" and op.get("same") and (st["call"]["err"] is None) != (obs_mask["err"] is None):
            yield Violation(f"transform-outcome-differs/{tag}",
                            f"CreateSamplingMask: {st['call']['err']} but the direct seeded call: {obs_mask['err']}",
                            dict(rep, failing_op=op))
    # the other consumers (apply_mask, EstimateBodyCoilImage): the mask they obtained is the one of the direct call with
    # the seed they were given / the file-name tuple (the direct call follows them in the history)
    for i, (op, st) in enumerate(zip(h["ops"], res["steps"])):
        if op.get("twin") is None:
            continue
        cop, cst = h["ops"][op["twin"]], res["steps"][op["twin"]]
        a, b = cst["call"], st["call"]
        if (a["err"] is None) != (b["err"] is None) or (a["err"] is None and (a.get("masks") or [None])[-1] != b.get("mask")):
            yield Violation(f"consumer-mask-differs/{cop['op']}/{tag}",
                            f"{cop['op']}: the mask obtained through this call site ({a['err'] or 'ok'}) is not the one of "
                            f"mask_func(shape, seed) with the same seed ({b['err'] or 'ok'})",
                            dict(rep, failing_op=cop, direct_call=op))
    # DataLoader workers: one mask per file whichever worker process serves the item, equal to the direct call's
    for op, st in zip(h["ops"], res["steps"]):
        if op["op"] != "loader":
            continue
        items = st.get("items")
        if items is None:
            yield Violation(f"loader-fails/{tag}", f"a DataLoader over CreateSamplingMask samples raised: {st.get('err')}",
                            dict(rep, failing_op=op))
            continue
        by_name: dict = {}
        for nm, it in zip(op["filenames"], items):
            by_name.setdefault(nm, []).append(it)
        for nm, its in by_name.items():
            if len({(it["mask"], it["acs"]) for it in its}) > 1:
                yield Violation(f"worker-masks-differ/{tag}",
                                f"two samples of file {nm!r} got different masks in DataLoader workers "
                                f"(pids {[it['pid'] for it in its]})", dict(rep, failing_op=op, items=its))
        if op.get("same") and obs_mask["err"] is None and obs_acs["err"] is None:
            it = items[0]
            if it["mask"] != obs_mask["mask"] or it["acs"] != obs_acs["mask"]:
                yield Violation(f"worker-mask-differs-from-direct-call/{tag}",
                                "the mask a DataLoader worker made for this file is not the one of the direct seeded call",
                                dict(rep, failing_op=op, items=items[:1]))
    # repeated identical seeded calls inside the history
    seen = {}
    for op, st in zip(h["ops"], res["steps"]):
        if op["op"] == "call" and op["seed"] is not None:
            k = (json.dumps(h["confs"][op["inst"]], sort_keys=True), tuple(op["shape"]), op["acs"],
                 json.dumps(canon_seed(op["seed"])), op.get("fault"))
            v = (st["call"]["err"], st["call"].get("mask"))
            if k in seen and seen[k] != v:
                yield Violation(f"seeded-mask-depends-on-history/{tag}", "two identical seeded calls in one history differ",
                                dict(rep, failing_op=op))
            seen.setdefault(k, v)


def oracle(ctx: Ctx, deep: bool = False):
    store = _RUN
    if deep or "histories" not in store:
        store = {"table": _table()}
        run_histories(ctx, 4 if deep else ctx.budget(2, 12), store, kseeds=(0, 99999, 1) if deep else (0, 99999))
    table = store["table"]
    for hg in store.get("hangs", []):
        if hg.get("crash"):
            yield Violation(f"generator-crashes/{hg['gen']}", f"the process running the history died: {hg['crash']}",
                            {"op": "history", **hg["history"], "shape": None, "seed": None})
            continue
        yield Violation("call-does-not-return", f"a generator call did not return within {hg['budget']} s",
                        {"op": "history", **hg["history"]})
    n_err = 0
    errs: dict = {}
    for h in store["histories"]:
        for op, st in zip(h["ops"], h["res"]["steps"]):
            if op["op"] in CONSUMER_SUBS:
                kk = op["op"] + ":" + (st["call"]["err"] or "ok")
                errs[kk] = errs.get(kk, 0) + 1
            if op["op"] in ("loader", "clone", "ssl_fill", "libc_draw", "libc_seed"):
                errs[op["op"]] = errs.get(op["op"], 0) + 1
            if op["op"] == "call":
                k = st["call"]["err"] or "ok"
                malformed = op.get("bad") or len(op["shape"]) < (4 if h["confs"][op["inst"]]["gen"] in RC.KT else 3)
                cls = "fault-injected:" if op.get("fault") else \
                    "infeasible-raiser:" if (len(h["confs"]) == 5 and op["inst"] == 3) else \
                    "malformed:" if malformed else "valid:"
                errs[cls + k] = errs.get(cls + k, 0) + 1
        conf = h["confs"][0]
        ctx.count(("oracle", h["idx"], json.dumps(h["ops"], sort_keys=True)), h["nontrivial"],
                  sample={"gen": conf["gen"], "mode": conf["mode"], "shape": h["shape"], "seed": h["seed"],
                          "ops": [o["op"] for o in h["ops"]]},
                  bucket=f"oracle/{conf['gen']}/{conf['mode']}/{h['seedkind']}/{h.get('obs_kind', '')}")
        if h["res"]["steps"][_observed(h)[1]]["call"]["err"]:
            n_err += 1
        yield from _check_history(h, table)
    ctx.notes.append(f"oracle: {len(store['histories'])} histories, observed call raised in {n_err}; calls by outcome: "
                     + ", ".join(f"{k}={v}" for k, v in sorted(errs.items())))


def replay(rep: dict) -> bool:
    if rep.get("op") != "history":
        return True
    wa, wb = RC.Worker(), RC.Worker()
    try:
        h = {"confs": rep["confs"], "ops": rep["ops"], "shape": rep["shape"], "seed": rep["seed"], "idx": 0,
             "observed": rep.get("observed")}
        try:
            h["res"] = wa.call(MOD, "job_history", {"confs": h["confs"], "ops": h["ops"]}, budget=60)
            h["ref"] = wb.call(MOD, "job_history", reference_job(h), budget=60)
        except (RC.Hang, RC.WorkerFailure):
            return True
        return any(True for _ in _check_history(h, _table()))
    finally:
        wa.close()
        wb.close()
