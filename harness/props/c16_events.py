"""C16 — everything that happens *between* training iterations on the REAL `Engine.train`:
validation rounds (real `validation_loop` / `MRIModelEngine.evaluate` / `reconstruct_volumes`), periodic checkpoints, log
writes, `start_with_validation`, the SIGINT kill path, clean stops and resumes — interleaved with gradient accumulation
(k in 1..4, validation_steps / checkpoint_steps that are not multiples of k).

Per process the harness records, for every completed iteration: the iteration index the engine used, the learning rate in
effect during the backward pass, the parameters and the learning rate after `lr_scheduler.step()`; per process also the
start iteration, `last_epoch`, the label of the latest checkpoint and the bookkeeping events.

Helpers for harness/props/c16.py (reuses its toy trainer; nothing here changes the helpers shared with C15).
"""
from __future__ import annotations

import contextlib
import logging
import pathlib
import signal
import types
from fractions import Fraction as Fr

import boot  # noqa: F401
import torch

from core import err_name, ints
from props import c16 as toy

logging.disable(logging.CRITICAL)


class EValDS(toy._ToyDS):
    """validation data: one volume of two slices (one batch per validation round)"""

    def __init__(self, X, y):
        super().__init__(X[:2], y[:2])
        self.text_description = "val"
        self.volume_indices = {pathlib.Path("f"): range(len(self.X))}


@contextlib.contextmanager
def cheap_gc():
    """`reconstruct_volumes` calls gc.collect() for every validation batch (tens of ms each with torch loaded)"""
    import direct.nn.mri_models as MM

    real = MM.gc
    MM.gc = types.SimpleNamespace(collect=lambda *a: 0)
    try:
        yield
    finally:
        MM.gc = real


class ScaledAux(torch.nn.Module):
    """an additional model contributing `scale · (x·v)`: its gradient is `scale ×` the main model's (very different norms)"""

    def __init__(self, d, scale):
        super().__init__()
        self.v = torch.nn.Parameter(torch.zeros(d, dtype=torch.float64))
        self.scale = float(scale)

    def forward(self, x):
        return (x @ self.v) * self.scale


class IdleHead(torch.nn.Module):
    """a conditionally used head: contributes `x·v` only in the accumulation windows that are not in `idle_windows`
    (the engine's forward_function leaves it out of the graph there, so it receives NO gradient in those windows)"""

    def __init__(self, d, idle_windows):
        super().__init__()
        self.v = torch.nn.Parameter(torch.zeros(d, dtype=torch.float64))
        self.idle_windows = set(idle_windows)

    def forward(self, x):
        return x @ self.v


_ENGINE_E = None


def engine_e():
    global _ENGINE_E
    if _ENGINE_E is not None:
        return _ENGINE_E
    from direct.nn.mri_models import MRIModelEngine

    class EngineE(toy._engine_class()):
        trace = None        # (iteration index, lr in effect, last_epoch) of every completed training `_do_iteration`
        events = None       # [kind, iteration]: 1 validation round, 2 completed save(label)
        seen_opt = None
        seen_sched = None

        def _do_iteration(self, data, loss_fns=None, regularizer_fns=None):
            if not self.model.training:      # a validation pass: not an iteration of the training loop
                return MRIModelEngine._do_iteration(self, data, loss_fns, regularizer_fns)
            it = self.it_counter
            out = super()._do_iteration(data, loss_fns, regularizer_fns)
            self.trace.append((it, self.seen_opt.param_groups[0]["lr"], self.seen_sched.last_epoch))
            return out

        def forward_function(self, data):
            out = self.model(data["x"])
            for m in self.models.values():          # any number of additional models
                idle = getattr(m, "idle_windows", None)
                if idle and self.model.training and (self.it_counter // self.cfg.training.gradient_steps) in idle:
                    continue                        # a head this window's batches do not touch
                out = out + m(data["x"])
            return out.reshape(-1, 1, 1), None

        def validation_loop(self, validation_datasets, loss_fns, experiment_directory, iter_idx, **kw):
            if validation_datasets:
                self.events.append([1, int(iter_idx)])
            return super().validation_loop(validation_datasets, loss_fns, experiment_directory, iter_idx, **kw)

    _ENGINE_E = EngineE
    return EngineE


@contextlib.contextmanager
def record_saves(events):
    import direct.checkpointer as CK

    inner = CK.Checkpointer.save

    def save(self, iteration, **kw):
        r = inner(self, iteration, **kw)
        events.append([2, int(iteration)])
        return r

    CK.Checkpointer.save = save
    try:
        yield
    finally:
        CK.Checkpointer.save = inner


def stale_backward(c, model, auxes, j):
    """what user code does before `train()`: a backward pass of the toy loss on batch `j` (fills `.grad`)"""
    rows = toy.batch_rows(c, j)
    x = torch.tensor([[float(v) for v in r] for r, _ in rows], dtype=torch.float64)
    y = torch.tensor([float(t) for _, t in rows], dtype=torch.float64)
    out = model(x)
    for a in auxes:
        out = out + a(x)
    (out - y).abs().sum().backward()


def run_eprocess(expdir, c, *, total, resume=True, kill=None, kill_where="pre", swv=False, val_steps=10 ** 6,
                 has_val=True, scaler=None, stale=None):
    """One process of the REAL `Engine.train`.  `c`: the toy configuration of props/c16.py (`ck` = checkpoint_steps).
    `stale`: batch index whose gradient already sits on the parameters when `train()` is entered."""
    model = toy._ToyModel(c["w0"])
    if c.get("idle_windows") is not None:
        auxes = [IdleHead(c["d"], c["idle_windows"])]
    elif c.get("aux_scales"):
        auxes = [ScaledAux(c["d"], sc) for sc in c["aux_scales"]]
    else:
        auxes = [toy._ToyAux(c["d"])] if c.get("aux") else []
    aux = auxes[0] if auxes else None
    groups = [{"params": model.parameters()}] + [{"params": a.parameters()} for a in auxes]
    opt = c.get("opt", ("sgd", Fr(0)))
    if opt[0] == "sgd":
        o = torch.optim.SGD(groups, lr=float(c["base_lr"]), momentum=float(opt[1]), weight_decay=float(c.get("wd", 0)))
    else:
        o = torch.optim.Adam(groups, lr=float(c["base_lr"]))
    s = toy.make_scheduler(o, c["sched"])
    cfg = toy._make_cfg(total, c["k"], c["ck"], c["bs"], c.get("clip", 0))
    cfg.training.validation_steps = val_steps
    cfg.validation.batch_size = 2
    cfg.validation.crop = None
    models = {("aux_model" if i == 0 else f"aux_model{i + 1}"): a for i, a in enumerate(auxes)}
    eng = engine_e()(cfg, model, "cpu", **models)
    if stale is not None:
        stale_backward(c, model, auxes, stale)
    eng.trace, eng.events, eng.seen_opt, eng.seen_sched = [], [], o, s
    eng.kill_at, eng.kill_where = kill, kill_where
    eng._scaler = scaler if scaler is not None else toy.counting_scaler()
    records = []

    def params():
        return model.w.detach().clone().tolist() + [v for a in auxes for v in a.v.detach().clone().tolist()]

    class Recording(type(s)):
        def step(self, *a, **kw):
            r = super().step(*a, **kw)
            records.append((params(), o.param_groups[0]["lr"]))
            return r

    s.__class__ = Recording
    code = None
    try:
        with record_saves(eng.events), cheap_gc():
            eng.train(o, s, [toy._ToyDS(c["X"], c["y"])], pathlib.Path(expdir),
                      validation_datasets=[EValDS(c["X"], c["y"])] if has_val else None,
                      resume=resume, start_with_validation=swv, num_workers=0)
    except SystemExit as e:
        code = e.code
    except Exception as e:  # noqa: BLE001
        if not eng.kill_delivered:
            raise
        code = "died:" + err_name(e)       # already dying (see props/c16.py run_process)
    finally:
        signal.signal(signal.SIGINT, signal.default_int_handler)
    lm = pathlib.Path(expdir) / "last_model.txt"
    latest = int(lm.read_text()) if lm.exists() else -1
    pend = [p.grad for p in model.parameters()]
    return {"start": eng.started_at, "records": records, "trace": eng.trace, "code": code, "last_epoch": s.last_epoch,
            "w": params(), "latest": latest, "events": eng.events, "total": total,
            "pending": [None if g is None else g.detach().clone().tolist() for g in pend],
            "scaler": getattr(eng._scaler, "n_updates", None)}


def amp_scaler_from(desc):
    """an ENABLED GradScaler on CPU (power-of-two scale, growing every `growth_interval` unskipped steps)"""
    try:
        return torch.amp.GradScaler("cpu", init_scale=float(desc[0]), growth_factor=2.0, backoff_factor=0.5,
                                    growth_interval=int(desc[1]), enabled=True)
    except Exception:  # noqa: BLE001 - older torch: no CPU scaler
        return None


def amp_scaler(rng):
    desc = [2 ** rng.randint(1, 6), rng.randint(1, 3)]
    sc = amp_scaler_from(desc)
    return None if sc is None or not sc.is_enabled() else (sc, desc)


# --------------------------------------------------------------------------------------------------
# histories
def gen_history(rng, k=None, force_mid_val=False):
    """(config, (val_steps, has_val), processes [total, kill (-1 none), kill_where, swv, resume])"""
    k = k if k is not None else rng.choice([1, 2, 2, 3, 3, 4])
    T = rng.randint(9, 14)
    c = toy.gen_cfg(rng, k=k, T=T, bs=rng.randint(1, 3))
    # make lost / dropped gradients matter: no zero entries in the data
    c["X"] = [[v if v else (3 if k == 3 else 1) for v in row] for row in c["X"]]
    nonmult = [v for v in (2, 3, 4, 5, 7) if k == 1 or v % k != 0]
    c["ck"] = rng.choice(nonmult + [10 ** 6])
    val_steps = rng.choice(nonmult)
    if force_mid_val and k > 1:
        # a validation round at an iteration i >= 5 with (i + 1) % k != 0 well before the end of the run
        cands = [v for v in (2, 3, 5, 6, 7) if any(i % v == 0 and (i + 1) % k != 0 for i in range(5, T - 1))]
        val_steps = rng.choice(cands)
    has_val = force_mid_val or rng.random() < 0.85
    if rng.random() < 0.3:
        c["aux"] = True
    procs = []
    n_stops = rng.choice([0, 1, 1, 2])
    stops = sorted(rng.sample(range(5, T - 1), min(n_stops, T - 6)))
    for t in stops:
        kind = rng.choice(["stop", "stop", "kill"])
        swv = int(rng.random() < 0.3)
        if kind == "stop":
            procs.append([t + 1, -1, 0, swv, 1])            # runs with num_iterations = t + 1 (final checkpoint label t)
        else:
            procs.append([T, t, rng.randint(0, 1), swv, 1])  # SIGINT inside iteration t → save label t - 1
    procs.append([T, -1, 0, int(rng.random() < 0.3), 1])
    if rng.random() < 0.2:
        procs[0][4] = 0                                       # resume=False on an empty directory
    for pi, p in enumerate(procs):                            # gradients already on the parameters when train() is entered
        p.append(T + 3 + pi if rng.random() < (0.5 if pi == 0 else 0.25) else -1)
    return c, (val_steps, has_val), procs


def run_history(c, val, procs):
    val_steps, has_val = val
    out = []
    with toy.scratch_dir() as d:
        for total, kill, where, swv, res, stale in procs:
            out.append(run_eprocess(d, c, total=total, resume=bool(res), kill=None if kill < 0 else kill,
                                    kill_where="pre" if where == 0 else "post", swv=bool(swv), val_steps=val_steps,
                                    has_val=has_val, stale=None if stale < 0 else stale))
    return out


def fmt_history(outs) -> str:
    gs = []
    for r in outs:
        gs.append([r["start"], len(r["records"]), r["latest"], r["last_epoch"]])
        for (it, lr_eff, _), (w, lr_after) in zip(r["trace"], r["records"]):
            gs.append([it] + toy.fr_pairs(w) + toy.fr_pairs([lr_eff, lr_after]))
    return "ok " + " | ".join(ints(g) for g in gs)


def history_line(c, val, procs, table_codes) -> str:
    groups = toy.toy_groups(c, [0]) + [[c["ck"], val[0], int(val[1])], [v for p in procs for v in p], list(table_codes)]
    return toy.proto("hist", groups)


def mid_window_events(c, outs):
    """(validation rounds, saves) that fell strictly inside an accumulation window"""
    k = c["k"]
    v = sum(1 for r in outs for kind, it in r["events"] if kind == 1 and (it + 1) % k != 0)
    s = sum(1 for r in outs for kind, it in r["events"] if kind == 2 and (it + 1) % k != 0)
    return v, s


# --------------------------------------------------------------------------------------------------
# the property on a history, stated on the observations only (independent of the Lean model)
def reference_history(c, starts_total):
    """Exact reference **with the known finding modelled and nothing else**: the property's update rule (one step per
    window on the mean of the window's k batch gradients, lr of iteration t = schedule(t)), except that a process that
    starts at `start` with start % k != 0 has lost the gradients accumulated before its checkpoint.
    `starts_total`: [(start, end)] of the processes that restored a checkpoint written right before `start` (or start 0).
    Returns {iteration: parameters after it} of the surviving timeline."""
    k, mu = c["k"], Fr(c["opt"][1])
    w0 = [Fr(v) for v in c["w0"]] + ([Fr(0)] * c["d"] if c.get("aux") else [])
    after = {}           # iteration -> (w, buf) after it
    for start, end in starts_total:
        if start == 0:
            w, buf = list(w0), None
        else:
            w, buf = after[start - 1]
            w, buf = list(w), (None if buf is None else list(buf))
        window = []
        for it in range(start, end):
            window.append(toy.toy_grad(w, toy.batch_rows(c, it)))
            if (it + 1) % k == 0:
                mean = [sum(col) / k for col in zip(*window)]
                window = []
                if mu != 0:
                    buf = mean if buf is None else [mu * b + g for b, g in zip(buf, mean)]
                    upd = buf
                else:
                    upd = mean
                lr = toy.lr_closed_form(c["sched"], it)
                w = [wi - lr * u for wi, u in zip(w, upd)]
            after[it] = (list(w), None if buf is None else list(buf))
    return {it: v[0] for it, v in after.items()}


def check_history(c, val, procs, outs):
    """yields (key, what, detail) for every way the observed history violates the property"""
    k, T = c["k"], c["T"]
    ref = toy.reference_run(c, total=max(p[0] for p in procs))       # the uninterrupted run, as the property demands
    latest = -1
    spans = []
    mis_resume = False
    for pi, (p, r) in enumerate(zip(procs, outs)):
        total, kill, _, _, res = p[:5]
        want_start = latest + 1 if (res and latest >= 0) else 0
        if len(r["trace"]) != len(r["records"]):
            yield ("iteration-without-training-backward", f"process {pi}: {len(r['records'])} completed iterations (scheduler "
                   f"steps) but only {len(r['trace'])} back-propagated in training mode (events {r['events']}): the gradients "
                   f"of the other batches are dropped", {"process": pi})
            if r["latest"] >= 0:
                latest = r["latest"]
            continue
        its = [t for t, _, _ in r["trace"]]
        end = kill if 0 <= kill < total and kill >= want_start else total
        if r["start"] != want_start or its != list(range(want_start, max(want_start, end))):
            yield ("resume-iterations-not-once", f"process {pi} (latest checkpoint {latest}) executed iterations "
                   f"{its[:4]}…{its[-2:]} from start_iter {r['start']}; every iteration after the checkpoint must run exactly "
                   f"once: {want_start}…{end - 1}", {"process": pi})
        for (t, lr_eff, le), (w, lr_after) in zip(r["trace"], r["records"]):
            if Fr(lr_eff) != toy.lr_closed_form(c["sched"], t) or Fr(lr_after) != toy.lr_closed_form(c["sched"], t + 1):
                yield ("lr-not-once-per-iteration" + ("-after-resume" if pi > 0 or r["start"] > 0 else ""),
                       f"process {pi}: learning rate in effect during iteration {t} is {lr_eff} (last_epoch {le}), after its "
                       f"scheduler step {lr_after}; the schedule gives {float(toy.lr_closed_form(c['sched'], t))} and "
                       f"{float(toy.lr_closed_form(c['sched'], t + 1))}", {"process": pi, "iteration": t})
                break
        if r["trace"] and r["last_epoch"] != r["trace"][-1][0] + 1:
            yield ("scheduler-steps-not-iterations", f"process {pi}: last_epoch {r['last_epoch']} after iteration "
                   f"{r['trace'][-1][0]}: the scheduler advanced {r['last_epoch']} times for {r['trace'][-1][0] + 1} iterations",
                   {"process": pi})
        if r["start"] % k != 0 and r["trace"]:
            mis_resume = True
        spans.append((r["start"], r["start"] + len(r["records"])))
        # parameters: against the uninterrupted reference; after a mid-window resume against the reference that models the
        # known finding and nothing else
        known = None
        for (t, _, _), (w, _) in zip(r["trace"], r["records"]):
            if t >= len(ref):
                break
            if [Fr(v) for v in w] != ref[t][0]:
                if mis_resume:
                    if known is None:
                        try:
                            known = reference_history(c, spans)
                        except KeyError:
                            known = {}
                    if known.get(t) == [Fr(v) for v in w]:
                        yield ("resume-mid-window", f"k={k}: process {pi} resumed at iteration {r['start']} inside an "
                               f"accumulation window; parameters after iteration {t} are {w}, the uninterrupted run has "
                               f"{[float(v) for v in ref[t][0]]}", {"process": pi, "iteration": t})
                        break
                    yield ("resume-mid-window-other-deviation", f"k={k}: parameters after iteration {t} of process {pi} are "
                           f"{w}: neither the uninterrupted run ({[float(v) for v in ref[t][0]]}) nor what the loss of the "
                           f"pre-checkpoint gradients alone explains "
                           f"({[float(v) for v in known.get(t, [])]})", {"process": pi, "iteration": t})
                    break
                key = "step-not-mean-of-window" if pi == 0 and r["start"] == 0 else "resume-window-boundary"
                if k == 1 and key.startswith("step"):
                    key = "k1-step-not-own-gradient"
                yield (key, f"k={k}, validation_steps={val[0]}, checkpoint_steps={c['ck']}: parameters after iteration {t} "
                       f"(process {pi}, events {r['events']}) are {w}, the step on the mean gradient of the window gives "
                       f"{[float(v) for v in ref[t][0]]}", {"process": pi, "iteration": t})
                break
        if r["latest"] >= 0:
            latest = r["latest"]
    last = outs[-1]
    if procs[-1][1] < 0 and last["trace"] and last["last_epoch"] != procs[-1][0]:
        yield ("scheduler-steps-not-iterations", f"after the whole history last_epoch is {last['last_epoch']}, "
               f"num_iterations is {procs[-1][0]}", {})


def history_replay(c, val, procs, **kw):
    r = toy._cfg_replay(c, check="history", val=list(val), procs=[list(p) for p in procs])
    r.update(kw)
    return r


# --------------------------------------------------------------------------------------------------
# a second `train()` on the SAME engine / model / optimiser objects after a phase that ended inside a window
def run_two_phase(c, t1, t2):
    """phase 1: `num_iterations = t1` (t1 % k != 0 leaves gradients pending); phase 2: a fresh scheduler and experiment
    directory, `num_iterations = t2`, resume=False.  Returns (parameters after phase 1, pending gradients there, records of
    phase 2)."""
    model = toy._ToyModel(c["w0"])
    o = torch.optim.SGD([{"params": model.parameters()}], lr=float(c["base_lr"]), momentum=0.0)
    eng = engine_e()(toy._make_cfg(t1, c["k"], 10 ** 6, c["bs"], 0), model, "cpu")
    eng._scaler = toy.counting_scaler()
    out = []
    for total in (t1, t2):
        eng.cfg.training.num_iterations = total
        s = toy.make_scheduler(o, c["sched"])
        eng.trace, eng.events, eng.seen_opt, eng.seen_sched = [], [], o, s
        records = []

        class Recording(type(s)):
            def step(self, *a, _records=records, **kw):
                r = super().step(*a, **kw)
                _records.append((model.w.detach().clone().tolist(), o.param_groups[0]["lr"]))
                return r

        s.__class__ = Recording
        try:
            with toy.scratch_dir() as d, cheap_gc():
                eng.train(o, s, [toy._ToyDS(c["X"], c["y"])], pathlib.Path(d), resume=False, num_workers=0)
        finally:
            signal.signal(signal.SIGINT, signal.default_int_handler)
        pend = None if model.w.grad is None else model.w.grad.detach().clone().tolist()
        out.append({"records": records, "w": model.w.detach().clone().tolist(), "pending": pend})
    return out


# --------------------------------------------------------------------------------------------------
# clipping x additional models: the reference clips the window mean over ALL optimised parameters against its global norm
def clip_aux_reference(c, scales, clip):
    """float64 reference (sqrt): returns (records, clipping active at some step?, per-module clipping would differ?) or None
    when a residual sits next to the kink of |·|"""
    d = c["d"]
    w = torch.nn.Parameter(torch.tensor([float(v) for v in c["w0"]], dtype=torch.float64))
    vs = [torch.nn.Parameter(torch.zeros(d, dtype=torch.float64)) for _ in scales]
    o = torch.optim.SGD([w] + vs, lr=float(c["base_lr"]), momentum=float(c["opt"][1]))
    out, window, active, differs = [], [], False, False
    for it in range(c["T"]):
        rows = toy.batch_rows(c, it)
        xb = torch.tensor([[float(v) for v in x] for x, _ in rows], dtype=torch.float64)
        yb = torch.tensor([float(y) for _, y in rows], dtype=torch.float64)
        res = xb @ w.detach() - yb
        for sc, v in zip(scales, vs):
            res = res + (xb @ v.detach()) * float(sc)
        near = res.abs() < 1e-9
        if bool((near & (res != 0)).any()):
            return None
        g = (torch.sign(res)[:, None] * xb).sum(0)
        window.append(g)
        if (it + 1) % c["k"] == 0:
            mean = torch.stack(window).sum(0) / c["k"]
            window = []
            parts = [mean] + [mean * float(sc) for sc in scales]
            norm = float(torch.cat(parts).norm(2))
            coef = min(1.0, clip / (norm + 1e-6)) if clip > 0 else 1.0
            active |= coef < 1.0
            differs |= coef < 1.0 or any(float(p.norm(2)) > clip > 0 for p in parts)
            for grp in o.param_groups:
                grp["lr"] = float(toy.lr_closed_form(c["sched"], it))
            for p, gp in zip([w] + vs, parts):
                p.grad = (gp * coef).clone()
            o.step()
        out.append((w.detach().clone().tolist() + [x for v in vs for x in v.detach().clone().tolist()],
                    float(toy.lr_closed_form(c["sched"], it + 1))))
    return out, active, differs


# --------------------------------------------------------------------------------------------------
# a conditionally used head: windows without a gradient for it must leave it (and its optimiser state) alone
def idle_head_reference(c):
    """float64 reference: the optimiser (Adam / SGD+momentum / SGD+weight decay) applied to the window's mean gradient, with
    `None` for the head in the windows that do not touch it.  None when a residual sits next to the kink of |·|."""
    d, k, idle = c["d"], c["k"], set(c["idle_windows"])
    w = torch.nn.Parameter(torch.tensor([float(v) for v in c["w0"]], dtype=torch.float64))
    v = torch.nn.Parameter(torch.zeros(d, dtype=torch.float64))
    if c["opt"][0] == "adam":
        o = torch.optim.Adam([w, v], lr=float(c["base_lr"]))
    else:
        o = torch.optim.SGD([w, v], lr=float(c["base_lr"]), momentum=float(c["opt"][1]), weight_decay=float(c.get("wd", 0)))
    out, window, moved_idle = [], [], False
    for it in range(c["T"]):
        active = (it // k) not in idle
        rows = toy.batch_rows(c, it)
        xb = torch.tensor([[float(a) for a in x] for x, _ in rows], dtype=torch.float64)
        yb = torch.tensor([float(y) for _, y in rows], dtype=torch.float64)
        res = xb @ w.detach() - yb
        if active:
            res = res + xb @ v.detach()
        if bool((res.abs() < 1e-9).any()):
            return None
        window.append((torch.sign(res)[:, None] * xb).sum(0))
        if (it + 1) % k == 0:
            mean = torch.stack(window).sum(0) / k
            window = []
            for grp in o.param_groups:
                grp["lr"] = float(toy.lr_closed_form(c["sched"], it))
            w.grad = mean.clone()
            v.grad = mean.clone() if active else None
            o.step()
        out.append((w.detach().clone().tolist() + v.detach().clone().tolist(), float(toy.lr_closed_form(c["sched"], it + 1))))
    return out
