"""Import shim for running the real NKI-AI/direct code from /repo's working tree.

* puts the repository (env VERIF_REPO, default /repo) first on sys.path;
* serves the three Cython kernels without writing under /repo:
    - compiled from the Cython-generated .c (repo copy, else /verif/vendor/ext) when the source
      lines Cython embedded in the .c equal the current .pyx (staleness check);
    - otherwise through a small .pyx -> Python front-end (libc rand/srand through ctypes);
* registers stub modules for packages that are absent from this sandbox and only used for logging
  pictures (torchvision.utils.make_grid, torch.utils.tensorboard.SummaryWriter).

Everything here is part of the trusted base of the correspondence checks.
"""
from __future__ import annotations

import ctypes
import hashlib
import importlib.abc
import importlib.machinery
import importlib.util
import math
import os
import pathlib
import re
import subprocess
import sys
import sysconfig
import types
import warnings

VERIF = pathlib.Path(__file__).resolve().parent.parent
REPO = pathlib.Path(os.environ.get("VERIF_REPO", "/repo")).resolve()
BUILD = VERIF / ".build"

KERNELS = {
    "direct.common._gaussian": "direct/common/_gaussian",
    "direct.common._poisson": "direct/common/_poisson",
    "direct.ssl._gaussian_fill": "direct/ssl/_gaussian_fill",
}

ext_info: dict[str, str] = {}  # fullname -> "compiled:<path>" | "frontend"

# ----------------------------------------------------------------------------------------------
# staleness check: the .c produced by Cython embeds every translated source line as
#   /* "direct/common/_gaussian.pyx":LINENO
#    * context
#    * the line             # <<<<<<<<<<<<<<
# We require every such marked line to equal line LINENO of the current .pyx.
_MARK = re.compile(r'/\* "([^"]+\.pyx)":(\d+)\n((?: \*.*\n)+?) ?\*/')


def c_matches_pyx(c_path: pathlib.Path, pyx_path: pathlib.Path) -> bool:
    try:
        c_src = c_path.read_text(errors="replace")
        pyx_lines = pyx_path.read_text().split("\n")
    except OSError:
        return False
    seen = set()
    n_marked = 0
    for m in _MARK.finditer(c_src):
        if not m.group(1).endswith(pyx_path.name):
            continue
        lineno = int(m.group(2))
        for ln in m.group(3).split("\n"):
            if ln.rstrip().endswith("# <<<<<<<<<<<<<<"):
                text = ln[3:].rstrip()[: -len("# <<<<<<<<<<<<<<")].rstrip()
                n_marked += 1
                if lineno - 1 >= len(pyx_lines) or pyx_lines[lineno - 1].rstrip() != text:
                    return False
                seen.add(lineno)
    if n_marked == 0:
        return False
    # every other code line of the .pyx must be of a kind Cython does not mark (imports of C names,
    # declarations without initialiser, signature continuation lines); otherwise lines were added.
    in_doc = False
    for i, ln in enumerate(pyx_lines, 1):
        s = ln.strip()
        if s.count('"""') == 1:
            in_doc = not in_doc
            continue
        if in_doc or not s or s.startswith("#") or s.count('"""') == 2 or i in seen:
            continue
        if not _unmarked_ok(s):
            return False
    return True


_TYPE0 = r"(?:int|double|float|Py_ssize_t|cnp\.ndarray\[[^\]]*\])"


def _unmarked_ok(s: str) -> bool:
    if s.startswith("cimport ") or re.match(r"from\s+\S+\s+cimport\s", s):
        return True
    if s in ("):", "else:", ") nogil:"):
        return True
    if re.fullmatch(rf"cdef\s+{_TYPE0}\s+\w+(\s*,\s*\w+)*", s):
        return True
    if re.fullmatch(rf"({_TYPE0}\s+\w+\s*,?\s*)+", s):
        return True
    return False


def _compile(c_path: pathlib.Path, fullname: str) -> pathlib.Path | None:
    import numpy as np

    h = hashlib.sha256(c_path.read_bytes()).hexdigest()[:16]
    outdir = BUILD / "ext" / h
    suffix = sysconfig.get_config_var("EXT_SUFFIX")
    so = outdir / (fullname.rsplit(".", 1)[1] + suffix)
    if so.exists():
        return so
    outdir.mkdir(parents=True, exist_ok=True)
    tmp = so.with_suffix(f".tmp{os.getpid()}")
    cmd = [
        "gcc", "-O2", "-fPIC", "-shared", "-w",
        f"-I{sysconfig.get_paths()['include']}", f"-I{np.get_include()}",
        str(c_path), "-o", str(tmp), "-lm",
    ]
    r = subprocess.run(cmd, capture_output=True, text=True)
    if r.returncode != 0:
        return None
    os.replace(tmp, so)
    return so


# ----------------------------------------------------------------------------------------------
# .pyx front-end (Cython subset used by the three kernels -> plain Python)
_libc = ctypes.CDLL("libc.so.6")
_libc.rand.restype = ctypes.c_int
_libc.srand.argtypes = [ctypes.c_uint]
RAND_MAX = 2147483647


def _srand(seed):
    _libc.srand(int(seed) & 0xFFFFFFFF)


def _rand():
    return float(_libc.rand())


def _f32(x):
    import numpy as np

    return float(np.float32(x))


_TYPE = r"(?:int|double|float|Py_ssize_t|cnp\.ndarray\[[^\]]*\])"


def pyx_to_python(src: str) -> str:
    out = []
    float_vars: set[str] = set()
    in_sig = False
    for ln in src.split("\n"):
        s = ln.strip()
        ind = ln[: len(ln) - len(ln.lstrip())]
        if s.startswith("cimport ") or re.match(r"from\s+\S+\s+cimport", s) or s == "cnp.import_array()":
            continue
        if s.startswith("#cython"):
            continue
        m = re.match(rf"cdef\s+(?:inline\s+)?{_TYPE}\s+(\w+)\((.*)$", s)
        if m:  # cdef function header (maybe multi-line)
            rest = m.group(2)
            ln = f"{ind}def {m.group(1)}({rest}"
            s = ln.strip()
            in_sig = not re.search(r"\)\s*(nogil)?\s*:\s*$", rest)
        if s.startswith("def ") and not s.rstrip().endswith(":"):
            in_sig = True
        if in_sig or s.startswith("def "):
            ln = re.sub(rf"(?<![\w.]){_TYPE}\s+(?=\w+\s*[,)=]|\w+\s*$)", "", ln)
            ln = re.sub(r"\)\s*nogil\s*:", "):", ln)
            if re.search(r"\)\s*:\s*$", ln):
                in_sig = False
            out.append(ln)
            continue
        m = re.match(rf"cdef\s+({_TYPE})\s+(.*)$", s)
        if m:
            typ, rest = m.group(1), m.group(2)
            if "=" in rest:
                name = rest.split("=")[0].strip()
                expr = rest.split("=", 1)[1].strip()
                if typ == "float":
                    float_vars.add(name)
                    expr = f"_f32({expr})"
                elif typ == "double":
                    expr = f"float({expr})"
                out.append(f"{ind}{name} = {expr}")
            else:
                if typ == "float":
                    float_vars.update(v.strip() for v in rest.split(","))
            continue
        if s == "with nogil:":
            out.append(f"{ind}if True:")
            continue
        m = re.match(r"(\w+)\s*=\s*(.+)$", s)
        if m and m.group(1) in float_vars:
            out.append(f"{ind}{m.group(1)} = _f32({m.group(2)})")
            continue
        out.append(ln)
    return "\n".join(out)


def _frontend_module(fullname: str, pyx: pathlib.Path) -> types.ModuleType:
    code = pyx_to_python(pyx.read_text())
    mod = types.ModuleType(fullname)
    mod.__file__ = str(pyx)
    mod.__dict__.update(
        rand=_rand, srand=_srand, RAND_MAX=RAND_MAX, cos=math.cos, sin=math.sin, log=math.log,
        sqrt=math.sqrt, pi=math.pi, _f32=_f32,
    )
    exec(compile(code, str(pyx) + "<frontend>", "exec"), mod.__dict__)
    return mod


class _KernelFinder(importlib.abc.MetaPathFinder, importlib.abc.Loader):
    def find_spec(self, fullname, path=None, target=None):
        if fullname not in KERNELS:
            return None
        rel = KERNELS[fullname]
        pyx = REPO / (rel + ".pyx")
        force_fe = os.environ.get("VERIF_FORCE_FRONTEND") == "1"
        if not force_fe:
            for c_path in (REPO / (rel + ".c"), VERIF / "vendor" / "ext" / (pathlib.Path(rel).name + ".c")):
                if c_path.exists() and c_matches_pyx(c_path, pyx):
                    so = _compile(c_path, fullname)
                    if so is not None:
                        ext_info[fullname] = f"compiled:{c_path}"
                        loader = importlib.machinery.ExtensionFileLoader(fullname, str(so))
                        return importlib.util.spec_from_file_location(fullname, str(so), loader=loader)
        ext_info[fullname] = "frontend"
        return importlib.util.spec_from_loader(fullname, self)

    def create_module(self, spec):
        return _frontend_module(spec.name, REPO / (KERNELS[spec.name] + ".pyx"))

    def exec_module(self, module):
        return None


def _install_stubs():
    try:
        import torchvision  # noqa: F401
    except Exception:
        tv = types.ModuleType("torchvision")
        tvu = types.ModuleType("torchvision.utils")

        def make_grid(tensor, nrow=8, padding=2, **kw):  # logging only
            import torch

            if isinstance(tensor, (list, tuple)):
                tensor = torch.stack([t for t in tensor])
            return tensor.reshape(-1, *tensor.shape[-2:])[:1]

        tvu.make_grid = make_grid
        tv.utils = tvu
        tv.__version__ = "0.0-stub"
        sys.modules["torchvision"] = tv
        sys.modules["torchvision.utils"] = tvu
    try:
        import tensorboard  # noqa: F401
    except Exception:
        tb = types.ModuleType("torch.utils.tensorboard")

        class SummaryWriter:  # logging only
            def __init__(self, *a, **k):
                pass

            def __getattr__(self, name):
                return lambda *a, **k: None

        tb.SummaryWriter = SummaryWriter
        sys.modules["torch.utils.tensorboard"] = tb


_booted = False


def boot():
    global _booted
    if _booted:
        return
    _booted = True
    warnings.filterwarnings("ignore", category=SyntaxWarning)
    warnings.filterwarnings("ignore", category=DeprecationWarning)
    if str(REPO) in sys.path:
        sys.path.remove(str(REPO))
    sys.path.insert(0, str(REPO))
    sys.meta_path.insert(0, _KernelFinder())
    _install_stubs()
    import torch

    torch.set_num_threads(int(os.environ.get("VERIF_TORCH_THREADS", "2")))


boot()
