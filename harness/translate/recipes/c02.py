"""C02 translation recipes: component formulas of the real-pair complex helpers, safe_divide, and the tensor
expressions of complex_dot_product / reduce_operator / expand_operator / modulus / root_sum_of_squares."""
from __future__ import annotations

import ast

from ..gen import EXTRA, Kernel, Untranslatable, find_assign, register
from ..pyexpr import ExprTr, emit_def, translate_block

T = "direct/data/transforms.py"
CX = ("DirectVerif.Model.Complex",)


class ExprTr2(ExprTr):
    """+ `x ** 2` and integral float constants (`-1.0`)"""

    def int(self, node: ast.AST) -> str:
        if isinstance(node, ast.Constant) and isinstance(node.value, float) and node.value == int(node.value):
            return f"({int(node.value)} : Int)"
        if isinstance(node, ast.BinOp) and isinstance(node.op, ast.Pow):
            if isinstance(node.right, ast.Constant) and node.right.value == 2:
                a = self.int(node.left)
                return f"({a} * {a})"
            raise Untranslatable(f"power `{ast.unparse(node)}`")
        if isinstance(node, ast.BinOp):
            a, b = self.int(node.left), self.int(node.right)
            sym = {ast.Add: "+", ast.Sub: "-", ast.Mult: "*"}.get(type(node.op))
            if sym:
                return f"({a} {sym} {b})"
        if isinstance(node, ast.UnaryOp) and isinstance(node.op, ast.USub):
            return f"(-{self.int(node.operand)})"
        return super().int(node)


_AB = {"input_tensor[..., 0]": "a_re", "input_tensor[..., 1]": "a_im", "other_tensor[..., 0]": "b_re", "other_tensor[..., 1]": "b_im"}
_P4 = ["a_re", "a_im", "b_re", "b_im"]


def _assign_rhs(target, arg=None, binds=_AB, params=_P4, pre_names=()):
    def build(k: Kernel, fn: ast.FunctionDef) -> str:
        tr = ExprTr2(binds)
        lets = []
        for nm in pre_names:       # locals the expression may mention (e.g. `denominator`)
            st = find_assign(fn, nm)
            lets.append(f"let {nm} : Int := {tr.int(st.value)}")
            tr.locals[nm] = nm
        node = find_assign(fn, target).value
        if arg is not None:
            if not (isinstance(node, ast.Call) and ast.unparse(node.func) == "safe_divide" and len(node.args) == 2):
                raise Untranslatable(f"`{target}` is not `safe_divide(numerator, denominator)`")
            node = node.args[arg]
        return emit_def(k.name, params, lets, tr.int(node), "Int")
    return build


def _conj_build(k: Kernel, fn: ast.FunctionDef) -> str:
    subs = [st for st in ast.walk(fn) if isinstance(st, ast.Assign) and isinstance(st.targets[0], ast.Subscript)]
    if len(subs) != 1 or ast.unparse(subs[0].targets[0]) != "data[..., 1]":
        raise Untranslatable("expected exactly one in-place assignment, to `data[..., 1]`")
    tr = ExprTr2({"data[..., 1]": "d_im"})
    return emit_def(k.name, ["d_im"], [], tr.int(subs[0].value), "Int")


register("C02", [
    Kernel("complex_multiplication_re", T, "complex_multiplication", _P4, "(fun a b c d => (Cx.cmul (⟨a, b⟩ : Cx.Cpx Int) ⟨c, d⟩).re)",
           _assign_rhs("real_part"), imports=CX),
    Kernel("complex_multiplication_im", T, "complex_multiplication", _P4, "(fun a b c d => (Cx.cmul (⟨a, b⟩ : Cx.Cpx Int) ⟨c, d⟩).im)",
           _assign_rhs("imaginary_part"), imports=CX),
    Kernel("complex_division_num_re", T, "complex_division", _P4, "(fun a b c d => (Cx.cdivNum (⟨a, b⟩ : Cx.Cpx Int) ⟨c, d⟩).re)",
           _assign_rhs("real_part", arg=0), imports=CX),
    Kernel("complex_division_num_im", T, "complex_division", _P4, "(fun a b c d => (Cx.cdivNum (⟨a, b⟩ : Cx.Cpx Int) ⟨c, d⟩).im)",
           _assign_rhs("imaginary_part", arg=0), imports=CX),
    Kernel("complex_division_den_re", T, "complex_division", _P4, "(fun _ _ c d => Cx.cdivDen (⟨c, d⟩ : Cx.Cpx Int))",
           _assign_rhs("real_part", arg=1, pre_names=("denominator",)), imports=CX),
    Kernel("complex_division_den_im", T, "complex_division", _P4, "(fun _ _ c d => Cx.cdivDen (⟨c, d⟩ : Cx.Cpx Int))",
           _assign_rhs("imaginary_part", arg=1, pre_names=("denominator",)), imports=CX),
    Kernel("conjugate_im", T, "conjugate", ["d_im"], "(fun d => (Cx.conj (⟨0, d⟩ : Cx.Cpx Int)).im)", _conj_build, imports=CX),
])

# =================================================================================================
# generic (scalar-polymorphic) definitions
_RVARS = "{R : Type} [Add R] [Sub R] [Mul R] [Neg R] [Zero R] [Inhabited R]"


def _is_doc(st):
    return isinstance(st, ast.Expr) and isinstance(st.value, ast.Constant) and isinstance(st.value.value, str)


_SD_SIG = "{R : Type} [Zero R] [One R] [Add R] [Mul R] [Div R] [DecidableEq R]"


def _safe_divide(fn: ast.FunctionDef) -> str:
    """scalar reading of safe_divide: torch.where(c, a, b) -> if c then a else b; `x == k` used as a value -> indicator;
    + * / on tensors -> the scalar operation; torch.tensor([k], …).to(…) / zeros_like -> k"""
    body = [s for s in fn.body if not _is_doc(s)]
    params = [a.arg for a in fn.args.args]
    if len(params) != 2:
        raise Untranslatable("safe_divide does not take two tensors")
    env: dict[str, str] = {}

    def const(n):
        m = n
        while isinstance(m, ast.Call) and isinstance(m.func, ast.Attribute) and m.func.attr == "to":
            m = m.func.value
        if isinstance(m, ast.Call) and ast.unparse(m.func) == "torch.tensor" and m.args:
            m = m.args[0]
            if isinstance(m, (ast.List, ast.Tuple)) and len(m.elts) == 1:
                m = m.elts[0]
        if isinstance(m, ast.Call) and ast.unparse(m.func) in ("torch.zeros_like", "torch.ones_like"):
            return "0" if "zeros" in ast.unparse(m.func) else "1"
        if isinstance(m, ast.Constant) and isinstance(m.value, (int, float)) and not isinstance(m.value, bool) and m.value in (0, 1):
            return str(int(m.value))
        return None

    def cond(n):
        if isinstance(n, ast.Compare) and len(n.ops) == 1 and isinstance(n.ops[0], (ast.Eq, ast.NotEq)):
            k = const(n.comparators[0])
            if k is None:
                raise Untranslatable(f"condition `{ast.unparse(n)}`")
            c = f"{val(n.left)} = {k}"
            return c if isinstance(n.ops[0], ast.Eq) else f"¬ ({c})"
        raise Untranslatable(f"condition `{ast.unparse(n)}`")

    def val(n):
        if isinstance(n, ast.Name) and n.id in params:
            return n.id
        if isinstance(n, ast.Name) and n.id in env:
            return env[n.id]
        k = const(n)
        if k is not None:
            return k
        if isinstance(n, ast.BinOp) and type(n.op) in (ast.Div, ast.Add, ast.Mult):
            sym = {ast.Div: "/", ast.Add: "+", ast.Mult: "*"}[type(n.op)]
            return f"({val(n.left)} {sym} {val(n.right)})"
        if isinstance(n, ast.Compare):
            return f"(if {cond(n)} then 1 else 0)"
        if isinstance(n, ast.Call) and ast.unparse(n.func) == "torch.where" and len(n.args) == 3:
            return f"(if {cond(n.args[0])} then {val(n.args[1])} else {val(n.args[2])})"
        raise Untranslatable(f"value `{ast.unparse(n)}`")

    ret = None
    for st in body:
        if isinstance(st, ast.Assign) and len(st.targets) == 1 and isinstance(st.targets[0], ast.Name):
            env[st.targets[0].id] = val(st.value)
        elif isinstance(st, ast.Return):
            ret = val(st.value)
        else:
            raise Untranslatable(f"unexpected statement `{ast.unparse(st)[:50]}`")
    if ret is None:
        raise Untranslatable("no return")
    ps = " ".join(f"({p} : R)" for p in params)
    return f"def safe_divide {_SD_SIG} {ps} : R :=\n  {ret}\n"


class TensorTr:
    """expressions over tensors: complex_multiplication / conjugate / x.sum(d) / x.unsqueeze(d) / x ** 2 / sqrt"""

    def __init__(self, fn: ast.FunctionDef):
        self.fn = fn
        self.params = [a.arg for a in fn.args.args]
        self.ann = {a.arg: (ast.unparse(a.annotation) if a.annotation else "") for a in fn.args.args}

    def is_axis_list(self, name):
        return "list" in self.ann.get(name, "").lower()

    def axis(self, n):
        if isinstance(n, ast.Name) and n.id in self.params and "Tensor" not in self.ann[n.id]:
            return n.id
        try:
            v = ast.literal_eval(n)
        except Exception:  # noqa: BLE001
            v = None
        if isinstance(v, int) and not isinstance(v, bool):
            return f"({v} : Int)"
        raise Untranslatable(f"axis expression `{ast.unparse(n)}`")

    def t(self, n) -> str:
        if isinstance(n, ast.Name) and n.id in self.params and "Tensor" in self.ann[n.id]:
            return n.id
        if isinstance(n, ast.BinOp) and isinstance(n.op, ast.Pow) and isinstance(n.right, ast.Constant) and n.right.value == 2:
            return f"(Cx.mapT (fun x => x * x) {self.t(n.left)})"
        if isinstance(n, ast.Call):
            f = n.func
            if isinstance(f, ast.Name) and f.id == "complex_multiplication" and len(n.args) == 2 and not n.keywords:
                return f"(Cx.cmulT {self.t(n.args[0])} {self.t(n.args[1])})"
            if isinstance(f, ast.Name) and f.id == "conjugate" and len(n.args) == 1 and not n.keywords:
                return f"(Cx.conjT {self.t(n.args[0])})"
            if isinstance(f, ast.Attribute) and f.attr in ("sum", "unsqueeze") and not n.keywords and len(n.args) == 1:
                ax = self.axis(n.args[0])
                if f.attr == "unsqueeze":
                    return f"(Cx.unsqueeze {self.t(f.value)} {ax})"
                return f"(Cx.{'sumAxes' if ax in self.params and self.is_axis_list(ax) else 'sumAxis'} {self.t(f.value)} {ax})"
        raise Untranslatable(f"tensor expression `{ast.unparse(n)}`")

    def strip_sqrt(self, n):
        if isinstance(n, ast.Call) and ast.unparse(n.func) == "torch.sqrt" and len(n.args) == 1:
            return n.args[0]
        if isinstance(n, ast.Call) and isinstance(n.func, ast.Attribute) and n.func.attr == "sqrt" and not n.args:
            return n.func.value
        raise Untranslatable(f"`{ast.unparse(n)}` is not a square root")

    def sig(self, elem):
        out = []
        for p in self.params:
            a = self.ann[p]
            out.append(f"({p} : Tensor {elem})" if "Tensor" in a else f"({p} : List Int)" if self.is_axis_list(p) else f"({p} : Int)")
        return " ".join(out)


def _ret_only(fn):
    """the single `return e` of a function whose other statements are docstring / assert_complex calls"""
    ret = None
    for st in fn.body:
        if _is_doc(st):
            continue
        if isinstance(st, ast.Expr) and isinstance(st.value, ast.Call) and ast.unparse(st.value.func) == "assert_complex":
            continue
        if isinstance(st, ast.Return) and ret is None:
            ret = st.value
            continue
        raise Untranslatable(f"unexpected statement `{ast.unparse(st)[:60]}`")
    if ret is None:
        raise Untranslatable("no return")
    return ret


def _tensor_def(name, fn, elem_in, elem_out, sqrt=False):
    tr = TensorTr(fn)
    e = _ret_only(fn)
    if sqrt:
        e = tr.strip_sqrt(e)
    return f"def {name} {_RVARS} {tr.sig(elem_in)} : Tensor {elem_out} :=\n  {tr.t(e)}\n"


def _rss_def(fn):
    """if is_complex_data(data): return sqrt(A)  ;  return sqrt(B)"""
    tr = TensorTr(fn)
    body = [s for s in fn.body if not _is_doc(s)]
    if not (len(body) == 2 and isinstance(body[0], ast.If) and ast.unparse(body[0].test) == "is_complex_data(data)"
            and len(body[0].body) == 1 and isinstance(body[0].body[0], ast.Return) and not body[0].orelse
            and isinstance(body[1], ast.Return)):
        raise Untranslatable("unexpected body of root_sum_of_squares")
    a = tr.t(tr.strip_sqrt(body[0].body[0].value))
    b = tr.t(tr.strip_sqrt(body[1].value))
    return (f"def root_sum_of_squares_sq {_RVARS} {tr.sig('R')} : Tensor R :=\n"
            f"  if data.shape.getLast? = some 2 then {a} else {b}\n")


def _cat_order(fn):
    """torch.cat([real_part.unsqueeze(dim=complex_index), imaginary_part.unsqueeze(dim=complex_index)], dim=complex_index)"""
    cats = [n for n in ast.walk(fn) if isinstance(n, ast.Call) and ast.unparse(n.func) == "torch.cat"]
    if len(cats) != 1 or not cats[0].args or not isinstance(cats[0].args[0], (ast.List, ast.Tuple)):
        raise Untranslatable("single torch.cat([...]) not found")
    ci = find_assign(fn, "complex_index").value
    if ast.unparse(ci) != "-1":
        raise Untranslatable("complex_index is not -1")
    names = []
    for e in cats[0].args[0].elts:
        if not (isinstance(e, ast.Call) and isinstance(e.func, ast.Attribute) and e.func.attr == "unsqueeze"
                and isinstance(e.func.value, ast.Name)):
            raise Untranslatable(f"cat operand `{ast.unparse(e)}`")
        arg = e.args[0] if e.args else (e.keywords[0].value if e.keywords else None)
        if arg is None or ast.unparse(arg) != "complex_index":
            raise Untranslatable("operand not unsqueezed at complex_index")
        names.append(e.func.value.id)
    d = next((k.value for k in cats[0].keywords if k.arg == "dim"), cats[0].args[1] if len(cats[0].args) > 1 else None)
    if d is None or ast.unparse(d) != "complex_index":
        raise Untranslatable("cat not along complex_index")
    return "[" + ", ".join(f'"{n}"' for n in names) + "]"


# =================================================================================================
# call sites of the coil operators under direct/ (structural table `coil_sites`)
_SKIP_FILES = {"direct/data/transforms.py"}
_COIL_ATTRS = ("_coil_dim", "coil_dim")


def _lean_str(s: str) -> str:
    return '"' + s.replace("\\", "\\\\").replace('"', '\\"').replace("\n", " ") + '"'


def _dim_form(node):
    """-> (constructor text, python-side tuple)"""
    if node is None:
        return ".omitted", ("omitted", None)
    if isinstance(node, ast.Attribute) and isinstance(node.value, ast.Name) and node.value.id == "self":
        return f".attr {_lean_str(node.attr)}", ("attr", node.attr)
    if isinstance(node, ast.Name):
        return f".name {_lean_str(node.id)}", ("name", node.id)
    v = None
    try:
        v = ast.literal_eval(node)
    except Exception:  # noqa: BLE001
        pass
    if isinstance(v, int) and not isinstance(v, bool):
        return f".lit ({v})", ("lit", v)
    return f".other {_lean_str(ast.unparse(node)[:80])}", ("other", ast.unparse(node)[:80])


def _call_name(call: ast.Call) -> str:
    f = call.func
    if isinstance(f, ast.Name):
        return f.id
    if isinstance(f, ast.Attribute) and isinstance(f.value, ast.Name) and f.value.id in ("T", "transforms"):
        return f.attr
    return ""


def _meth_name(call) -> str:
    return call.func.attr if isinstance(call, ast.Call) and isinstance(call.func, ast.Attribute) else ""


def _arg(call: ast.Call, pos: int, kw: str):
    if len(call.args) > pos:
        return call.args[pos]
    return next((k.value for k in call.keywords if k.arg == kw), None)


def _class_declared(cls: ast.ClassDef):
    """literal value of `self._coil_dim` / `self.coil_dim` (also via a constructor parameter's literal default)"""
    found = {}
    for fn in [n for n in cls.body if isinstance(n, ast.FunctionDef)]:
        a = fn.args
        pos = a.posonlyargs + a.args
        defaults = {arg.arg: d for arg, d in zip(pos[len(pos) - len(a.defaults):], a.defaults)}
        defaults.update({arg.arg: d for arg, d in zip(a.kwonlyargs, a.kw_defaults) if d is not None})
        for n in ast.walk(fn):
            if isinstance(n, ast.Assign) and len(n.targets) == 1 and isinstance(n.targets[0], ast.Attribute) \
                    and isinstance(n.targets[0].value, ast.Name) and n.targets[0].value.id == "self" and n.targets[0].attr in _COIL_ATTRS:
                v = n.value
                if isinstance(v, ast.Name) and v.id in defaults:
                    v = defaults[v.id]
                try:
                    lit = ast.literal_eval(v)
                    if isinstance(lit, int) and not isinstance(lit, bool):
                        found[n.targets[0].attr] = lit
                except Exception:  # noqa: BLE001
                    pass
    for a in _COIL_ATTRS:
        if a in found:
            return found[a]
    return None


def scan_coil_sites(repo) -> list[dict]:
    """every call of reduce_operator / expand_operator / root_sum_of_squares and every inline re-implementation under direct/
    (transforms.py itself excluded), in file / source order.  Rows carry the AST node (`node`) for the oracle."""
    rows = []
    for py in sorted((repo / "direct").rglob("*.py")):
        rel = str(py.relative_to(repo))
        if rel in _SKIP_FILES:
            continue
        try:
            import warnings
            with warnings.catch_warnings():
                warnings.simplefilter("ignore")
                tree = ast.parse(py.read_text())
        except (OSError, SyntaxError) as e:
            raise Untranslatable(f"{rel}: {e}")
        local_defs = {n.name for n in tree.body if isinstance(n, ast.FunctionDef)}
        parents = {}
        for node in ast.walk(tree):
            for ch in ast.iter_child_nodes(node):
                parents[ch] = node
        units = []      # (qualified name, function node, class node | None)
        for n in tree.body:
            if isinstance(n, ast.FunctionDef):
                units.append((n.name, n, None))
            elif isinstance(n, ast.ClassDef):
                units.extend((f"{n.name}.{m.name}", m, n) for m in n.body if isinstance(m, ast.FunctionDef))
        for qual, fn, cls in units:
            declared = _class_declared(cls) if cls is not None else None
            calls = sorted((n for n in ast.walk(fn) if isinstance(n, ast.Call)), key=lambda n: (n.lineno, n.col_offset))
            for call in calls:
                nm = _call_name(call)
                row = None
                if nm in ("reduce_operator", "expand_operator") and nm not in local_defs:
                    row = dict(kind="reduceCall" if nm == "reduce_operator" else "expandCall", dim=_arg(call, 2, "dim"))
                elif nm == "root_sum_of_squares" and nm not in local_defs:
                    row = dict(kind="rssCall", dim=_arg(call, 1, "dim"))
                elif nm == "complex_multiplication" and len(call.args) == 2 and not call.keywords:
                    a = list(call.args)
                    is_conj = [isinstance(x, ast.Call) and _call_name(x) == "conjugate" and len(x.args) == 1 for x in a]
                    is_unsq = [_meth_name(x) == "unsqueeze" for x in a]
                    conj_unsq = [is_unsq[i] and isinstance(a[i].func.value, ast.Call) and _call_name(a[i].func.value) == "conjugate" for i in (0, 1)]
                    if sum(conj_unsq) == 1:
                        i = conj_unsq.index(True)
                        row = dict(kind="sensGrad", dim=_arg(a[i], 0, "dim"), conj=ast.unparse(a[i].func.value.args[0]), other=ast.unparse(a[1 - i]))
                    elif sum(is_conj) == 1:
                        i = is_conj.index(True)
                        dnode, summed = _summed_dim(call, parents)
                        row = dict(kind="inlineReduce" if summed else "conjProduct", dim=dnode, conj=ast.unparse(a[i].args[0]),
                                   other=ast.unparse(a[1 - i]), conj_index=i)
                    elif sum(is_unsq) == 1:
                        i = is_unsq.index(True)
                        row = dict(kind="inlineExpand", dim=_arg(a[i], 0, "dim"), unsq=ast.unparse(a[i].func.value), other=ast.unparse(a[1 - i]),
                                   unsq_index=i)
                elif _meth_name(call) == "sum" and _meth_name(call.func.value) == "sum":
                    inner = call.func.value
                    base = inner.func.value
                    if isinstance(base, ast.BinOp) and isinstance(base.op, ast.Pow) and isinstance(base.right, ast.Constant) and base.right.value == 2:
                        row = dict(kind="inlineRss", dim=_arg(call, 0, "dim"), cdim=_arg(inner, 0, "dim"), other=ast.unparse(base.left))
                if row is None:
                    continue
                row.update(file=rel, func=qual, declared=declared, node=call, line=call.lineno, cls=cls)
                rows.append(row)
    return rows


def _summed_dim(call, parents):
    """is the product summed: chained `.sum(D)` or `name = <product>` followed by `name = name.sum(D)` -> (D node, summed?)"""
    par = parents.get(call)
    if isinstance(par, ast.Attribute) and par.attr == "sum" and isinstance(parents.get(par), ast.Call):
        sc = parents[par]
        return _arg(sc, 0, "dim"), True
    st = par
    while st is not None and not isinstance(st, ast.stmt):
        st = parents.get(st)
    if isinstance(st, ast.Assign) and st.value is call and len(st.targets) == 1 and isinstance(st.targets[0], ast.Name):
        sib = getattr(parents.get(st), "body", [])
        if st in sib and sib.index(st) + 1 < len(sib):
            v = getattr(sib[sib.index(st) + 1], "value", None)
            if isinstance(v, ast.Call) and _meth_name(v) == "sum" and ast.unparse(v.func.value) == st.targets[0].id:
                return _arg(v, 0, "dim"), True
    return None, False


def _coil_sites_text():
    from ..gen import REPO

    rows = scan_coil_sites(REPO)
    out = []
    for r in rows:
        dim, _ = _dim_form(r.get("dim"))
        cdim, _ = _dim_form(r.get("cdim"))
        decl = "none" if r["declared"] is None else f"some ({r['declared']})"
        out.append(f"  ⟨{_lean_str(r['file'])}, {_lean_str(r['func'])}, .{r['kind']}, {dim}, {cdim}, {decl}, "
                   f"{_lean_str(r.get('conj', ''))}, {_lean_str(r.get('unsq', ''))}, {_lean_str(r.get('other', '')[:120])}⟩")
    kinds = {}
    for r in rows:
        kinds[r["kind"]] = kinds.get(r["kind"], 0) + 1
    return "def coil_sites : List Cx.CoilSite := [\n" + ",\n".join(out) + "]\n", f"translated ({len(rows)} sites: {kinds})"


# =================================================================================================
# statelessness of the helpers reachable from the C02 operators (structural table `helper_state_uses`)
C02_ROOTS = ("complex_multiplication", "complex_division", "safe_divide", "conjugate", "modulus", "modulus_if_complex",
             "complex_dot_product", "_complex_matrix_multiplication", "complex_mm", "complex_bmm", "tensor_to_complex_numpy",
             "root_sum_of_squares", "reduce_operator", "expand_operator", "view_as_complex", "view_as_real")
_CACHE_WORDS = ("cache", "memo")


def _module_info(repo, rel, _memo={}):
    """-> (tree, local function defs, imported direct.* names {name: (rel file, name)}, module-level mutable names)"""
    import warnings

    key = (str(repo), rel)
    if key in _memo:
        return _memo[key]
    with warnings.catch_warnings():
        warnings.simplefilter("ignore")
        try:
            tree = ast.parse((repo / rel).read_text())
        except (OSError, SyntaxError) as e:
            raise Untranslatable(f"{rel}: {e}")
    defs = {n.name: n for n in tree.body if isinstance(n, ast.FunctionDef)}
    imported = {}
    for n in tree.body:
        if isinstance(n, ast.ImportFrom) and n.module and n.module.split(".")[0] == "direct" and n.level == 0:
            base = n.module.replace(".", "/")
            f = base + ".py" if (repo / (base + ".py")).exists() else base + "/__init__.py"
            if (repo / f).exists():
                for a in n.names:
                    imported[a.asname or a.name] = (f, a.name)
    state = {}
    for n in tree.body:                     # module-level bindings that are not constants / imports / defs / classes
        targets = n.targets if isinstance(n, ast.Assign) else [n.target] if isinstance(n, (ast.AnnAssign, ast.AugAssign)) else []
        val = getattr(n, "value", None)
        for t in targets:
            for nm in [x for x in ast.walk(t) if isinstance(x, ast.Name)]:
                if nm.id == "__all__":
                    continue
                immutable = isinstance(val, ast.Constant) or (isinstance(val, ast.Tuple) and all(isinstance(e, ast.Constant) for e in val.elts)) \
                    or (isinstance(val, ast.UnaryOp) and isinstance(val.operand, ast.Constant))
                if not immutable:
                    state[nm.id] = ast.unparse(val)[:40] if val is not None else ""
    _memo[key] = (tree, defs, imported, state)
    return _memo[key]


def scan_helper_state(repo, rel=T, roots=C02_ROOTS):
    """-> (closure [(file, function)], uses [(function, kind, detail)]): every function reachable from the C02 operators through
    calls by name (following `from direct.… import …`), and every use of state that survives a call in them: caching decorators,
    `global` / `nonlocal`, reads or writes of module-level non-constant bindings, function attributes, mutable default arguments"""
    todo = [(rel, r) for r in roots]
    seen, closure, uses = set(), [], []
    while todo:
        f, name = todo.pop(0)
        if (f, name) in seen:
            continue
        seen.add((f, name))
        tree, defs, imported, state = _module_info(repo, f)
        fn = defs.get(name)
        if fn is None:
            if (f, name) in [(rel, r) for r in roots]:
                raise Untranslatable(f"{name} not found in {f}")
            continue
        closure.append((f, name))
        q = name if f == rel else f"{f}:{name}"
        for d in fn.decorator_list:
            uses.append((q, "decorator", ast.unparse(d)[:60]))
        a = fn.args
        for arg, d in list(zip((a.posonlyargs + a.args)[::-1], a.defaults[::-1])) + [(x, y) for x, y in zip(a.kwonlyargs, a.kw_defaults) if y is not None]:
            if isinstance(d, (ast.List, ast.Dict, ast.Set, ast.ListComp, ast.DictComp)) or \
                    (isinstance(d, ast.Call) and ast.unparse(d.func) in ("dict", "list", "set", "torch.empty", "torch.zeros")):
                uses.append((q, "mutable-default", arg.arg))
        local = {x.arg for x in a.posonlyargs + a.args + a.kwonlyargs} | {x.id for x in ast.walk(fn) if isinstance(x, ast.Name) and isinstance(x.ctx, ast.Store)}
        declared_global = set()
        for n in ast.walk(fn):
            if isinstance(n, (ast.Global, ast.Nonlocal)):
                declared_global.update(n.names)
                uses.extend((q, "global", g) for g in n.names)
        for n in ast.walk(fn):
            if isinstance(n, ast.Name):
                if n.id in state and (n.id not in local or n.id in declared_global):
                    uses.append((q, "module-state", n.id))
                elif isinstance(n.ctx, ast.Load) and n.id not in local:
                    if n.id in defs:
                        todo.append((f, n.id))
                    elif n.id in imported:
                        todo.append(imported[n.id])
            if isinstance(n, ast.Attribute) and isinstance(n.value, ast.Name) and (n.value.id in defs or n.value.id in imported) \
                    and n.value.id not in local and (isinstance(n.ctx, ast.Store) or any(w in n.attr.lower() for w in _CACHE_WORDS)):
                uses.append((q, "function-attribute", ast.unparse(n)[:60]))
            if isinstance(n, ast.Call) and ast.unparse(n.func) in ("setattr", "getattr") and n.args and isinstance(n.args[0], ast.Name) \
                    and (n.args[0].id in defs or n.args[0].id in imported):
                uses.append((q, "function-attribute", ast.unparse(n)[:60]))
    uses = sorted(set(uses))
    return closure, uses


_SIZE_WORDS = (".shape", ".size(", ".numel(", "len(", ".ndim", ".dim()")
_CHUNK_CALLS = ("narrow", "split", "chunk", "tensor_split", "unbind", "index_select", "select", "unfold", "hsplit", "vsplit", "dsplit")


def scan_size_branches(repo, rel=T, roots=C02_ROOTS):
    """-> [(function, kind, text)]: in every function reachable from the C02 operators, control flow that depends on a SIZE
    (`if` / conditional expression / `while` / `assert`-free tests mentioning shape / size / numel / len / ndim), every loop, and
    every call that cuts a tensor into pieces (narrow / split / chunk / unbind / select …).  The verified expressions are
    size-uniform: one formula for all shapes; a threshold or a chunked accumulation is a different algorithm per size class."""
    closure, _ = scan_helper_state(repo, rel, roots)
    out = []
    for f, name in closure:
        _, defs, _, _ = _module_info(repo, f)
        fn = defs[name]
        q = name if f == rel else f"{f}:{name}"
        for n in ast.walk(fn):
            if isinstance(n, (ast.If, ast.IfExp, ast.While)):
                t = ast.unparse(n.test)
                if any(w in t for w in _SIZE_WORDS):
                    out.append((q, "size-test", t[:80]))
            if isinstance(n, (ast.For, ast.AsyncFor, ast.While, ast.ListComp, ast.GeneratorExp, ast.SetComp, ast.DictComp)):
                out.append((q, "loop", ast.unparse(n.iter if hasattr(n, "iter") else n.test if isinstance(n, ast.While) else n.generators[0].iter)[:80]))
            if isinstance(n, ast.Call):
                cn = n.func.attr if isinstance(n.func, ast.Attribute) else n.func.id if isinstance(n.func, ast.Name) else ""
                if cn in _CHUNK_CALLS:
                    out.append((q, "chunking-call", ast.unparse(n)[:80]))
    return sorted(set(out))


def _size_branch_text():
    from ..gen import REPO

    rows = scan_size_branches(REPO)
    body = ",\n".join(f"  ({_lean_str(a)}, {_lean_str(b)}, {_lean_str(c)})" for a, b, c in rows)
    return (f"def helper_size_branches : List (String × String × String) := [\n{body}]\n",
            f"translated ({len(rows)} size-dependent branches / loops / chunking calls)")


def _helper_state_text():
    from ..gen import REPO

    closure, uses = scan_helper_state(REPO)
    rows = ",\n".join(f"  ({_lean_str(a)}, {_lean_str(b)}, {_lean_str(c)})" for a, b, c in uses)
    cl = ", ".join(_lean_str(n if f == T else f"{f}:{n}") for f, n in closure)
    text = (f"def helper_closure : List String := [{cl}]\n\n"
            f"def helper_state_uses : List (String × String × String) := [\n{rows}]\n")
    return text, f"translated ({len(closure)} functions reachable from {len(C02_ROOTS)} operators, {len(uses)} state uses)"


def _c02_extra():
    from ..gen import REPO, find_function, parse_file

    out, status = [], {}
    try:
        tree = parse_file(REPO / T)
        perr = None
    except Untranslatable as e:
        tree, perr = None, e

    def emit(name, build, fallback):
        try:
            if tree is None:
                raise perr
            out.append(f"/-- translated from `{T}` -/\n" + build())
            status[name] = "translated"
        except Untranslatable as e:
            out.append(f"/-- SKIPPED ({e}) -/\n" + fallback)
            status[name] = f"skipped: {e}"

    emit("safe_divide", lambda: _safe_divide(find_function(tree, "safe_divide")),
         f"def safe_divide {_SD_SIG} (a b : R) : R := Cx.safeDiv a b\n")
    emit("complex_dot_product", lambda: _tensor_def("complex_dot_product", find_function(tree, "complex_dot_product"), "(Cx.Cpx R)", "(Cx.Cpx R)"),
         f"def complex_dot_product {_RVARS} (a b : Tensor (Cx.Cpx R)) (dim : List Int) : Tensor (Cx.Cpx R) := Cx.cdotT a b dim\n")
    emit("reduce_operator", lambda: _tensor_def("reduce_operator", find_function(tree, "reduce_operator"), "(Cx.Cpx R)", "(Cx.Cpx R)"),
         f"def reduce_operator {_RVARS} (coil_data sensitivity_map : Tensor (Cx.Cpx R)) (dim : Int) : Tensor (Cx.Cpx R) := "
         "Cx.reduceOp coil_data sensitivity_map dim\n")
    emit("expand_operator", lambda: _tensor_def("expand_operator", find_function(tree, "expand_operator"), "(Cx.Cpx R)", "(Cx.Cpx R)"),
         f"def expand_operator {_RVARS} (data sensitivity_map : Tensor (Cx.Cpx R)) (dim : Int) : Tensor (Cx.Cpx R) := "
         "Cx.expandOp data sensitivity_map dim\n")
    emit("modulus_sq", lambda: _tensor_def("modulus_sq", find_function(tree, "modulus"), "R", "R", sqrt=True),
         f"def modulus_sq {_RVARS} (data : Tensor R) (complex_axis : Int) : Tensor R := Cx.modSqAxis data complex_axis\n")
    emit("root_sum_of_squares_sq", lambda: _rss_def(find_function(tree, "root_sum_of_squares")),
         f"def root_sum_of_squares_sq {_RVARS} (data : Tensor R) (dim : Int) (complex_dim : Int) : Tensor R := "
         "Cx.rssSqReal data dim complex_dim\n")
    try:
        text, st = _coil_sites_text()
        out.append(f"/-- translated: every coil-operator call site / inline re-implementation under `direct/` -/\n" + text)
        status["coil_sites"] = st
    except Untranslatable as e:
        out.append(f"/-- SKIPPED ({e}) -/\ndef coil_sites : List Cx.CoilSite := []\n")
        status["coil_sites"] = f"skipped: {e}"
    try:
        text, st = _helper_state_text()
        out.append("/-- translated: functions reachable from the C02 operators and every use of call-surviving state in them -/\n" + text)
        status["helper_state_uses"] = st
    except Untranslatable as e:
        roots = ", ".join(f'"{r}"' for r in C02_ROOTS)
        out.append(f"/-- SKIPPED ({e}) -/\ndef helper_closure : List String := [{roots}]\n\n"
                   "def helper_state_uses : List (String × String × String) := []\n")
        status["helper_state_uses"] = f"skipped: {e}"
    try:
        text, st = _size_branch_text()
        out.append("/-- translated: size-dependent control flow, loops and chunking calls in the functions reachable from the C02 operators -/\n" + text)
        status["helper_size_branches"] = st
    except Untranslatable as e:
        out.append(f"/-- SKIPPED ({e}) -/\ndef helper_size_branches : List (String × String × String) := []\n")
        status["helper_size_branches"] = f"skipped: {e}"
    for fname in ("complex_multiplication", "complex_division"):
        emit(f"{fname}_cat", lambda fname=fname: f"def {fname}_cat : List String := {_cat_order(find_function(tree, fname))}\n",
             f'def {fname}_cat : List String := ["real_part", "imaginary_part"]\n')
    return "\n".join(out), status


EXTRA["C02"] = _c02_extra
