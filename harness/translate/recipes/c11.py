"""C11 translation recipes: the rejection loop of `_gaussian_fill.pyx` (guard, acceptance test, updates), the
protected-region slice bounds of the three splitters, the count / cap / seed expressions, the boolean mask
algebra and the order of the statements of `_gaussian_split`, emitted as Lean definitions / data
(`Bridge/C11.lean` proves them equal to the hand-written model)."""
from __future__ import annotations

import ast

from ..gen import EXTRA, REPO, Kernel, Untranslatable, all_stmts, register
from ..pyexpr import ExprTr, emit_def, find_function, parse_file, translate_block
from . import c11_state

SSL = "direct/ssl/ssl.py"
FILL = "direct/ssl/mask_fillers.py"
PYX = "direct/ssl/_gaussian_fill.pyx"
IMPORTS = ("DirectVerif.Model.SslSplit", "DirectVerif.Model.SslHistory")
_REGION_BINDS = {"nrow": "nrow", "ncol": "ncol", "self.acs_region[0]": "a0", "self.acs_region[1]": "a1"}


def _txt(node) -> str:
    return ast.unparse(node).replace(" ", "")


# ---- protected-region slice --------------------------------------------------------------------
def _region_assign(fn: ast.FunctionDef, array: str):
    """the statement `<array>[lo0:hi0, lo1:hi1] = <const>` and the chain of enclosing `if`s"""
    def walk(stmts, guards):
        # `guards`: the path condition — enclosing `if`s, and the negation of earlier `if …: return` (if/else in statement form)
        guards = list(guards)
        for st in stmts:
            if (isinstance(st, ast.Assign) and len(st.targets) == 1 and isinstance(st.targets[0], ast.Subscript)
                    and ast.unparse(st.targets[0].value) == array):
                yield st, list(guards)
            if isinstance(st, ast.If):
                yield from walk(st.body, guards + [(st.test, True)])
                yield from walk(st.orelse, guards + [(st.test, False)])
                if c11_state._all_paths_end(st.body) and not c11_state._all_paths_end(st.orelse):
                    guards.append((st.test, False))
                elif st.orelse and c11_state._all_paths_end(st.orelse) and not c11_state._all_paths_end(st.body):
                    guards.append((st.test, True))
            elif isinstance(st, (ast.With, ast.For, ast.While)):
                yield from walk(st.body, guards)
    found = list(walk(fn.body, []))
    if len(found) != 1:
        raise Untranslatable(f"{len(found)} slice assignments to `{array}`")
    return found[0]


def _region_build(array: str, value: bool):
    def build(k: Kernel, fn: ast.FunctionDef) -> str:
        st, guards = _region_assign(fn, array)
        if not (isinstance(st.value, ast.Constant) and st.value.value is value):
            raise Untranslatable(f"`{array}[...]` is assigned `{ast.unparse(st.value)}`")
        sl = st.targets[0].slice
        if isinstance(sl, (ast.Call, ast.Name)):
            # the region computed by a private helper / a hoisted local: inline it at the call site
            scan = c11_state._Scan(SSL)
            if isinstance(sl, ast.Name):
                sl = c11_state._local_env(fn).get(sl.id, sl)
            sl = c11_state._inline(scan, sl)

        def bounds(e):
            if isinstance(e, ast.Slice):
                if e.step is not None or e.lower is None or e.upper is None:
                    raise Untranslatable("open or stepped slice")
                return e.lower, e.upper
            if isinstance(e, ast.Call) and ast.unparse(e.func) == "slice" and len(e.args) == 2 and not e.keywords:
                return e.args[0], e.args[1]
            raise Untranslatable(f"`{ast.unparse(e)}` is not a slice with two bounds")

        if not (isinstance(sl, ast.Tuple) and len(sl.elts) == 2):
            raise Untranslatable(f"subscript `{ast.unparse(sl)[:80]}` is not a pair of slices")
        (r0, r1), (c0, c1) = bounds(sl.elts[0]), bounds(sl.elts[1])
        tr = ExprTr(_REGION_BINDS)
        lets, _ = translate_block(fn.body, tr, [])
        parts = [tr.int(r0), tr.int(r1), tr.int(c0), tr.int(c1)]
        return emit_def(k.name, k.params, lets, "[" + ", ".join(parts) + "]", "List Int")
    return build


def _region_guard_build(array: str):
    def build(k: Kernel, fn: ast.FunctionDef) -> str:
        _, guards = _region_assign(fn, array)
        tr = ExprTr({}, {"self.keep_acs": "(keep != 0)"})
        conds = [tr.bool(t) if pos else f"(!{tr.bool(t)})" for t, pos in guards] or ["true"]
        return emit_def(k.name, k.params, [], "(" + " && ".join(conds) + ")", "Bool")
    return build


_REGION_FALLBACK = ("(fun nrow ncol a0 a1 => [SslSplit.regionLo nrow a0, SslSplit.regionHi nrow a0, "
                    "SslSplit.regionLo ncol a1, SslSplit.regionHi ncol a1])")


# ---- count expressions on exact rationals ------------------------------------------------------
def _rat(node, leaves):
    """expression -> (numerator, denominator) Lean terms; `leaves`: source text -> (num, den)"""
    t = _txt(node)
    if t in leaves:
        return leaves[t]
    if isinstance(node, ast.BinOp) and isinstance(node.op, ast.Mult):
        (a, b), (c, d) = _rat(node.left, leaves), _rat(node.right, leaves)
        return f"({a} * {c})", f"({b} * {d})"
    if isinstance(node, ast.BinOp) and isinstance(node.op, (ast.Add, ast.Sub)):
        (a, b), (c, d) = _rat(node.left, leaves), _rat(node.right, leaves)
        op = "+" if isinstance(node.op, ast.Add) else "-"
        return f"({a} * {d} {op} {c} * {b})", f"({b} * {d})"
    if isinstance(node, ast.Constant) and isinstance(node.value, int) and not isinstance(node.value, bool):
        return f"({node.value} : Int)", "(1 : Int)"
    if isinstance(node, ast.Call) and isinstance(node.func, ast.Name) and node.func.id in ("int", "float") and len(node.args) == 1:
        return _rat(node.args[0], leaves)
    raise Untranslatable(f"rational expression `{ast.unparse(node)}`")


def _rat_cmp(node, leaves) -> str:
    """comparison of two fractions with positive denominators"""
    if not (isinstance(node, ast.Compare) and len(node.ops) == 1):
        raise Untranslatable(f"comparison `{ast.unparse(node)}`")
    (a, b), (c, d) = _rat(node.left, leaves), _rat(node.comparators[0], leaves)
    sym = {ast.LtE: "≤", ast.Lt: "<", ast.GtE: "≥", ast.Gt: ">"}.get(type(node.ops[0]))
    if sym is None:
        raise Untranslatable(f"comparison operator in `{ast.unparse(node)}`")
    return f"(decide ({a} * {d} {sym} {c} * {b}))"


def _half_diag() -> str:
    fn = find_function(parse_file(REPO / SSL), "MaskSplitter._half_split")
    asg = {ast.unparse(st.targets[0]): _txt(st.value) for st in all_stmts(fn)
           if isinstance(st, ast.Assign) and len(st.targets) == 1 and ast.unparse(st.targets[0]) in ("x", "y", "(xv, yv)", "xv, yv")}
    if asg.get("x") != "torch.linspace(-1,1,nrow)" or asg.get("y") != "torch.linspace(-1,1,ncol)":
        raise Untranslatable(f"coordinates are {asg.get('x')}, {asg.get('y')}")
    if (asg.get("(xv, yv)") or asg.get("xv, yv")) != "torch.meshgrid(x,y,indexing='ij')":
        raise Untranslatable("meshgrid(x, y, indexing='ij') not found")
    # the `if direction == DIAGONAL_RIGHT: … else: …` with four `mask * (<cmp>)` assignments
    node = None
    for st in all_stmts(fn):
        if isinstance(st, ast.If) and _txt(st.test) == "direction==HalfSplitType.DIAGONAL_RIGHT":
            node = st
    if node is None:
        raise Untranslatable("`if direction == HalfSplitType.DIAGONAL_RIGHT` not found")
    leaves = {"xv": ("xn", "xd"), "yv": ("yn", "yd")}
    out = []
    for branch, stmts in (("right", node.body), ("left", node.orelse)):
        got = {}
        for st in stmts:
            if (isinstance(st, ast.Assign) and isinstance(st.value, ast.BinOp) and isinstance(st.value.op, ast.Mult)
                    and ast.unparse(st.value.left) == "mask"):
                got[ast.unparse(st.targets[0])] = st.value.right
        if set(got) != {"input_mask", "target_mask"} or len(stmts) != 2:
            raise Untranslatable(f"diagonal branch `{branch}` is not two `mask * (<comparison>)` assignments")
        for which in ("input", "target"):
            out.append(f"def half_diag_{branch}_{which} (xn xd yn yd : Int) : Bool := {_rat_cmp(got[which + '_mask'], leaves)}\n")
    return "/-- translated from `_half_split`: the diagonal predicates on the exact fractions xv = xn/xd, yv = yn/yd -/\n" + "".join(out)


_HALF_DIAG_FALLBACK = (
    "def half_diag_right_input (xn xd yn yd : Int) : Bool := decide (xn * yd + yn * xd ≤ 0)\n"
    "def half_diag_right_target (xn xd yn yd : Int) : Bool := !decide (xn * yd + yn * xd ≤ 0)\n"
    "def half_diag_left_input (xn xd yn yd : Int) : Bool := decide (xn * yd - yn * xd ≤ 0)\n"
    "def half_diag_left_target (xn xd yn yd : Int) : Bool := !decide (xn * yd - yn * xd ≤ 0)\n")


def _count_build(target: str, leaves: dict):
    """`<target> = int(ceil(x))` or `int(x)` (as an assignment or a call argument named by position)"""
    def build(k: Kernel, fn: ast.FunctionDef) -> str:
        node = None
        for st in all_stmts(fn):
            if isinstance(st, ast.Assign) and len(st.targets) == 1 and ast.unparse(st.targets[0]) == target:
                node = st.value
                break
            if target == "<uniform_fill arg 0>":
                for c in ast.walk(st):
                    if isinstance(c, ast.Call) and ast.unparse(c.func) == "uniform_fill" and c.args:
                        node = c.args[0]
                if node is not None:
                    break
        if node is None:
            raise Untranslatable(f"`{target}` not found")
        if not (isinstance(node, ast.Call) and isinstance(node.func, ast.Name) and node.func.id == "int" and len(node.args) == 1):
            raise Untranslatable(f"`{ast.unparse(node)}` is not int(…)")
        inner = node.args[0]
        if isinstance(inner, ast.Call) and _txt(inner.func) in ("ceil", "math.ceil", "np.ceil") and len(inner.args) == 1:
            n, d = _rat(inner.args[0], leaves)
            body = f"(-(Int.fdiv (-{n}) {d}))"
        elif isinstance(inner, ast.Call) and _txt(inner.func) in ("floor", "math.floor", "np.floor") and len(inner.args) == 1:
            n, d = _rat(inner.args[0], leaves)
            body = f"(Int.fdiv {n} {d})"
        else:
            n, d = _rat(inner, leaves)
            body = f"(Int.fdiv {n} {d})"      # int() of a non-negative product truncates = floors
        return emit_def(k.name, k.params, [], body, "Int")
    return build


def _cap_build(k: Kernel, fn: ast.FunctionDef) -> str:
    """what `nonzero_mask_count` is when `gaussian_fill` is called, in terms of the computed count `c`"""
    assigns = []
    for st in all_stmts(fn):
        if isinstance(st, ast.Assign) and len(st.targets) == 1 and ast.unparse(st.targets[0]) == "nonzero_mask_count":
            assigns.append(st)
        if any(isinstance(c, ast.Call) and ast.unparse(c.func) == "gaussian_fill" for c in ast.walk(st)) and not isinstance(
                st, (ast.If, ast.With, ast.For, ast.While)):
            call = [c for c in ast.walk(st) if isinstance(c, ast.Call) and ast.unparse(c.func) == "gaussian_fill"][0]
            arg0 = call.args[0] if call.args else next((kw.value for kw in call.keywords if kw.arg == "nonzero_mask_count"), None)
            if arg0 is None or ast.unparse(arg0) != "nonzero_mask_count":
                raise Untranslatable("the requested count handed to gaussian_fill is not `nonzero_mask_count`")
            break
    else:
        raise Untranslatable("call of gaussian_fill not found")
    if not assigns:
        raise Untranslatable("no assignment to nonzero_mask_count")
    tr = ExprTr({"temp_mask.sum()": "free", "int(temp_mask.sum())": "free"})
    tr.locals["nonzero_mask_count"] = "c"
    lets = []
    cur = "c"
    for i, st in enumerate(assigns[1:], 1):
        tr.locals["nonzero_mask_count"] = cur
        lets.append(f"let c{i} : Int := {tr.int(st.value)}")
        cur = f"c{i}"
    return emit_def(k.name, k.params, lets, cur, "Int")


def _early_return_build(k: Kernel, fn: ast.FunctionDef) -> str:
    """when does `uniform_fill` NOT draw?  The negation of the path condition under which `rng.choice` is reached — the
    same decision whether written as an early return, as a guard around the draw or as if/else."""
    tr = ExprTr({"nonzero_mask_count": "count", "prob.sum()": "free", "mask.sum()": "free", "mask.flatten().numpy().sum()": "free",
                 "np.count_nonzero(prob)": "free", "torch.count_nonzero(mask)": "free"})
    loc = c11_state._local_env(fn)

    def ends(stmts):
        return c11_state._all_paths_end(stmts)

    def has_draw(st):
        return any(isinstance(c, ast.Call) and isinstance(c.func, ast.Attribute) and c.func.attr == "choice" for c in ast.walk(st))

    def find(stmts, conds):
        for st in stmts:
            if isinstance(st, ast.If):
                if not has_draw(ast.Module(body=[ast.Expr(value=st.test)], type_ignores=[])):
                    for blk, pol in ((st.body, True), (st.orelse, False)):
                        r = find(blk, conds + [(st.test, pol)])
                        if r is not None:
                            return r
                    if ends(st.body) and not ends(st.orelse):
                        conds = conds + [(st.test, False)]
                    elif st.orelse and ends(st.orelse) and not ends(st.body):
                        conds = conds + [(st.test, True)]
                    continue
            if has_draw(st):
                if isinstance(st, (ast.For, ast.While, ast.Try)):
                    raise Untranslatable("the draw of uniform_fill is inside a loop / try")
                return conds
        return None

    conds = find(c11_state._body(fn), [])
    if conds is None:
        raise Untranslatable("no `rng.choice(…)` in uniform_fill")
    parts = []
    for test, pol in conds:
        t = test
        for _ in range(3):
            t = c11_state._subst(t, {n: v for n, v in loc.items() if n in {x.id for x in ast.walk(t) if isinstance(x, ast.Name)}})
        b = tr.bool(t)
        parts.append(b if pol else f"(!{b})")
    body = "false" if not parts else "(!(" + " && ".join(parts) + "))"
    return emit_def(k.name, k.params, [], body, "Bool")


def _half_bound_build(which: str):
    def build(k: Kernel, fn: ast.FunctionDef) -> str:
        tr = ExprTr({"nrow": "nrow", "ncol": "ncol"})
        lets, _ = translate_block(fn.body, tr, [])
        want_in = "input_mask[:center_x]" if which == "row" else "input_mask[:, :center_y]"
        want_tg = "target_mask[center_x:]" if which == "row" else "target_mask[:, center_y:]"
        src = "mask[:center_x]" if which == "row" else "mask[:, :center_y]"
        src_t = "mask[center_x:]" if which == "row" else "mask[:, center_y:]"
        seen = {ast.unparse(st.targets[0]): ast.unparse(st.value) for st in all_stmts(fn)
                if isinstance(st, ast.Assign) and len(st.targets) == 1 and isinstance(st.targets[0], ast.Subscript)}
        if seen.get(want_in) != src or seen.get(want_tg) != src_t:
            raise Untranslatable(f"half split assignments `{want_in} = {src}` / `{want_tg} = {src_t}` not found")
        return emit_def(k.name, k.params, lets, tr.int(ast.Name(id="center_x" if which == "row" else "center_y")), "Int")
    return build


_P4 = ["nrow", "ncol", "a0", "a1"]
register("C11", [
    Kernel("gaussian_region", SSL, "MaskSplitter._gaussian_split", _P4, _REGION_FALLBACK, _region_build("temp_mask", False),
           ret_type="List Int", imports=IMPORTS),
    Kernel("uniform_region", SSL, "MaskSplitter._uniform_split", _P4, _REGION_FALLBACK, _region_build("temp_mask", False),
           ret_type="List Int", imports=IMPORTS),
    Kernel("half_region", SSL, "MaskSplitter._half_split", _P4, _REGION_FALLBACK, _region_build("protected", True),
           ret_type="List Int", imports=IMPORTS),
    Kernel("gaussian_region_guard", SSL, "MaskSplitter._gaussian_split", ["keep"], "(fun keep => !(keep != 0))",
           _region_guard_build("temp_mask"), ret_type="Bool", imports=IMPORTS),
    Kernel("uniform_region_guard", SSL, "MaskSplitter._uniform_split", ["keep"], "(fun keep => !(keep != 0))",
           _region_guard_build("temp_mask"), ret_type="Bool", imports=IMPORTS),
    Kernel("half_region_guard", SSL, "MaskSplitter._half_split", ["keep"], "(fun keep => !(keep != 0))",
           _region_guard_build("protected"), ret_type="Bool", imports=IMPORTS),
    Kernel("gaussian_count", SSL, "MaskSplitter._gaussian_split", ["S", "p", "q"], "SslSplit.ratioCeil",
           _count_build("nonzero_mask_count", {"mask.sum()": ("S", "(1 : Int)"), "self._choose_ratio()": ("p", "q")}),
           imports=IMPORTS),
    Kernel("uniform_count", SSL, "MaskSplitter._uniform_split", ["S", "p", "q"], "SslSplit.ratioFloor",
           _count_build("<uniform_fill arg 0>", {"torch.count_nonzero(temp_mask.flatten())": ("S", "(1 : Int)"),
                                                 "temp_mask.sum()": ("S", "(1 : Int)"),
                                                 "self._choose_ratio()": ("p", "q")}), imports=IMPORTS),
    Kernel("gaussian_cap", SSL, "MaskSplitter._gaussian_split", ["c", "free"], "SslSplit.capRequest", _cap_build,
           imports=IMPORTS),
    Kernel("uniform_early_return", FILL, "uniform_fill", ["count", "free"], "(fun count free => count == 0 || free == 0)",
           _early_return_build, ret_type="Bool", imports=IMPORTS),
    Kernel("half_row_bound", SSL, "MaskSplitter._half_split", ["nrow", "ncol"], "(fun nrow _ => SslSplit.centre nrow)",
           _half_bound_build("row"), imports=IMPORTS),
    Kernel("half_col_bound", SSL, "MaskSplitter._half_split", ["nrow", "ncol"], "(fun _ ncol => SslSplit.centre ncol)",
           _half_bound_build("col"), imports=IMPORTS),
])


# ---- EXTRA: the .pyx loop, grid algebra, seeds, statement order ---------------------------------
def _pyx_function():
    import boot  # the .pyx front-end lives there (trusted base)

    src = (REPO / PYX).read_text()
    try:
        tree = ast.parse(boot.pyx_to_python(src))
    except SyntaxError as e:
        raise Untranslatable(f"cannot parse the front-end output for {PYX}: {e}")
    return find_function(tree, "gaussian_fill")


def _pyx_kernels():
    fn = _pyx_function()
    loops = [st for st in fn.body if isinstance(st, ast.While)]
    if len(loops) != 1 or loops[0].orelse:
        raise Untranslatable(f"{len(loops)} while loops in gaussian_fill")
    loop = loops[0]
    idx = fn.body.index(loop)
    # count = 0 before the loop, `return output_mask` after it
    init = [st for st in fn.body[:idx] if isinstance(st, ast.Assign) and ast.unparse(st.targets[0]) == "count"]
    if len(init) != 1:
        raise Untranslatable("initialisation of `count` not found")
    rets = [st for st in fn.body[idx + 1:] if isinstance(st, ast.Return)]
    if len(rets) != 1 or ast.unparse(rets[0].value) != "output_mask":
        raise Untranslatable("`return output_mask` after the loop not found")
    tr0 = ExprTr({"count": "count", "nonzero_mask_count": "n"})
    guard = tr0.bool(loop.test)
    ifs = [st for st in loop.body if isinstance(st, ast.If)]
    if len(ifs) != 1 or ifs[0].orelse:
        raise Untranslatable("the loop body does not have exactly one `if` without else")
    # indx / indy must be the truncated components of the candidate
    cand = {ast.unparse(st.targets[0]): _txt(st.value) for st in loop.body if isinstance(st, ast.Assign)}
    if cand.get("indx") != "int(rnd_normal[0])" or cand.get("indy") != "int(rnd_normal[1])":
        raise Untranslatable(f"candidate indices are {cand.get('indx')}, {cand.get('indy')}")
    tr = ExprTr({"indx": "indx", "indy": "indy", "nrow": "nrow", "ncol": "ncol", "mask[indx, indy]": "m",
                 "output_mask[indx, indy]": "o", "count": "count"})
    accept = tr.bool(ifs[0].test)
    body = ifs[0].body
    mark = [st for st in body if isinstance(st, ast.Assign) and ast.unparse(st.targets[0]) == "output_mask[indx, indy]"]
    step = [st for st in body if isinstance(st, ast.Assign) and ast.unparse(st.targets[0]) == "count"]
    if len(mark) != 1 or len(step) != 1 or len(body) != 2:
        raise Untranslatable("the accept branch is not `output_mask[indx, indy] = …; count = …`")
    seeded = any(isinstance(c, ast.Call) and ast.unparse(c.func) == "srand" and len(c.args) == 1
                 and ast.unparse(c.args[0]) == "seed" for st in fn.body[:idx] for c in ast.walk(st))
    return "\n".join([
        f"/-- translated from `{PYX}`: the `while` test -/",
        emit_def("fill_loop_guard", ["count", "n"], [], guard, "Bool"),
        f"/-- translated from `{PYX}`: the acceptance test (`m`, `o` = `mask[indx, indy]`, `output_mask[indx, indy]`) -/",
        emit_def("fill_accept", ["indx", "indy", "nrow", "ncol", "m", "o"], [], accept, "Bool"),
        f"/-- translated from `{PYX}`: updates of the accept branch and the initial count -/",
        emit_def("fill_count_init", [], [], tr.int(init[0].value), "Int"),
        emit_def("fill_count_step", ["count"], [], tr.int(step[0].value), "Int"),
        emit_def("fill_mark_value", [], [], tr.int(mark[0].value), "Int"),
        f"def fill_srand_seed : Bool := {'true' if seeded else 'false'}\n",
    ])


_PYX_FALLBACK = """def fill_loop_guard (count : Int) (n : Int) : Bool := SslSplit.loopGuard count n
def fill_accept (indx : Int) (indy : Int) (nrow : Int) (ncol : Int) (m : Int) (o : Int) : Bool :=
  SslSplit.acceptTest indx indy nrow ncol m o
def fill_count_init : Int := 0
def fill_count_step (count : Int) : Int := count + 1
def fill_mark_value : Int := 1
def fill_srand_seed : Bool := true
"""


_LEAN_KEYWORDS = {"protected", "private", "end", "from", "at", "open", "local", "instance"}


def _lid(name: str) -> str:
    return name + "_" if name in _LEAN_KEYWORDS else name


def _grid(node, names):
    if isinstance(node, ast.Name) and node.id in names:
        return _lid(node.id)
    if isinstance(node, ast.BinOp) and isinstance(node.op, (ast.BitAnd, ast.BitOr)):
        f = "SslSplit.gAnd" if isinstance(node.op, ast.BitAnd) else "SslSplit.gOr"
        return f"({f} {_grid(node.left, names)} {_grid(node.right, names)})"
    if isinstance(node, ast.UnaryOp) and isinstance(node.op, ast.Invert):
        return f"(SslSplit.gNot {_grid(node.operand, names)})"
    raise Untranslatable(f"mask expression `{ast.unparse(node)}`")


def _grid_def(name, params, expr):
    ps = " ".join(f"({_lid(p)} : SslSplit.Grid)" for p in params)
    return f"def {name} {ps} : SslSplit.Grid := {expr}\n"


def _assigns(fn, target_text):
    return [st for st in all_stmts(fn) if isinstance(st, ast.Assign) and len(st.targets) == 1
            and ast.unparse(st.targets[0]) == target_text]


def _algebra(prefix: str, fn: ast.FunctionDef, with_reduce: bool) -> str:
    out = []
    if with_reduce:
        red = [st for st in _assigns(fn, "mask") if "acs_mask" in ast.unparse(st.value)]
        if len(red) != 1:
            raise Untranslatable("`mask = mask & ~acs_mask` not found")
        out.append(_grid_def(f"{prefix}_reduce", ["mask", "acs_mask"], _grid(red[0].value, {"mask", "acs_mask"})))
        inp = _assigns(fn, "input_mask")
        if len(inp) != 1:
            raise Untranslatable("`input_mask = …` not found")
        out.append(_grid_def(f"{prefix}_input", ["mask", "target_mask"], _grid(inp[0].value, {"mask", "target_mask"})))
    pairs = [st for st in _assigns(fn, "(input_mask, target_mask)") + _assigns(fn, "input_mask, target_mask")
             if isinstance(st.value, ast.Tuple) and len(st.value.elts) == 2]
    acs = [st for st in pairs if "acs_mask" in ast.unparse(st.value)]
    if len(acs) != 1:
        raise Untranslatable("`input_mask, target_mask = input_mask | acs_mask, target_mask | acs_mask` not found")
    names = {"input_mask", "target_mask", "acs_mask"}
    out.append(_grid_def(f"{prefix}_keep_input", ["input_mask", "target_mask", "acs_mask"], _grid(acs[0].value.elts[0], names)))
    out.append(_grid_def(f"{prefix}_keep_target", ["input_mask", "target_mask", "acs_mask"], _grid(acs[0].value.elts[1], names)))
    if not with_reduce:   # the half split: protected-region step
        pro = [st for st in pairs if "protected" in ast.unparse(st.value)]
        if len(pro) != 1:
            raise Untranslatable("protected-region step of the half split not found")
        names = {"input_mask", "target_mask", "mask", "protected"}
        ps = ["input_mask", "target_mask", "mask", "protected"]
        out.append(_grid_def(f"{prefix}_protect_input", ps, _grid(pro[0].value.elts[0], names)))
        out.append(_grid_def(f"{prefix}_protect_target", ps, _grid(pro[0].value.elts[1], names)))
    return "".join(out)


def _algebra_fallback(prefix: str, with_reduce: bool) -> str:
    out = ""
    if with_reduce:
        out += _grid_def(f"{prefix}_reduce", ["mask", "acs_mask"], "SslSplit.gAndNot mask acs_mask")
        out += _grid_def(f"{prefix}_input", ["mask", "target_mask"], "SslSplit.gAndNot mask target_mask")
    out += _grid_def(f"{prefix}_keep_input", ["input_mask", "target_mask", "acs_mask"], "SslSplit.gOr input_mask acs_mask")
    out += _grid_def(f"{prefix}_keep_target", ["input_mask", "target_mask", "acs_mask"], "SslSplit.gOr target_mask acs_mask")
    if not with_reduce:
        ps = ["input_mask", "target_mask", "mask", "protected"]
        out += _grid_def(f"{prefix}_protect_input", ps, "SslSplit.gOr input_mask (SslSplit.gAnd mask protected_)")
        out += _grid_def(f"{prefix}_protect_target", ps, "SslSplit.gAndNot target_mask protected_")
    return out


_STAGE_ORDER = ["reduce", "count", "clone", "protect", "cap", "fill", "input", "acs"]


def _stages(fn: ast.FunctionDef) -> str:
    seq = []
    for st in all_stmts(fn):
        if not isinstance(st, ast.Assign) or len(st.targets) != 1:
            continue
        t, v = ast.unparse(st.targets[0]), _txt(st.value)
        if t == "mask" and "acs_mask" in v:
            seq.append("reduce")
        elif t == "nonzero_mask_count" and "ceil" in v:
            seq.append("count")
        elif t == "nonzero_mask_count":
            seq.append("cap")
        elif t == "temp_mask" and "clone" in v:
            seq.append("clone")
        elif t.startswith("temp_mask["):
            seq.append("protect")
        elif "gaussian_fill(" in v:
            seq.append("fill")          # whatever local receives the kernel's result
        elif t == "input_mask":
            seq.append("input")
        elif t in ("(input_mask, target_mask)", "input_mask, target_mask") and "acs_mask" in v:
            seq.append("acs")
    if "fill" not in seq:
        raise Untranslatable("call of gaussian_fill not found among the assignments")
    return "def gaussian_stages : List String := [" + ", ".join(f'"{s}"' for s in seq) + "]\n"


def _inside_with(fn: ast.FunctionDef, call_text: str) -> bool:
    """is every call `call_text(...)` lexically inside `with temp_seed(self.rng, seed)`?"""
    inside, outside = 0, 0

    def walk(stmts, in_with):
        nonlocal inside, outside
        for st in stmts:
            if isinstance(st, ast.With):
                ok = any(_txt(it.context_expr) == "temp_seed(self.rng,seed)" for it in st.items)
                walk(st.body, in_with or ok)
                continue
            if isinstance(st, (ast.If, ast.For, ast.While)):
                for c in ast.walk(st.test if isinstance(st, (ast.If, ast.While)) else st.iter):
                    if isinstance(c, ast.Call) and ast.unparse(c.func) == call_text:
                        inside, outside = inside + in_with, outside + (not in_with)
                walk(st.body, in_with)
                walk(st.orelse, in_with)
                continue
            for c in ast.walk(st):
                if isinstance(c, ast.Call) and ast.unparse(c.func) == call_text:
                    inside, outside = inside + in_with, outside + (not in_with)
    walk(fn.body, False)
    if inside + outside == 0:
        raise Untranslatable(f"no call of `{call_text}`")
    return outside == 0


def _seeds(tree) -> str:
    # the seed handed to `split_method` (in `forward` or a helper it calls per sample): which of the two strings comes
    # first in the concatenation, and when it is `None`
    _, order, none_when = c11_state.seed_tables()
    if order is None or none_when is None:
        raise Untranslatable("seed expression `None if not self.use_seed else tuple(map(ord, str(filename) + str(slice_no)))` not found")
    g = find_function(tree, "MaskSplitter._gaussian_split")
    red = [st for st in all_stmts(g) if isinstance(st, ast.Assign) and ast.unparse(st.targets[0]) == "seed"
           and _txt(st.value) in ("int(np.mean(seed))", "int(np.sum(seed))", "int(sum(seed))")]
    if len(red) != 1:
        raise Untranslatable("`seed = int(np.mean(seed))` not found")
    body = ("Int.fdiv (t.sum : Int) (t.length : Int)" if "mean" in _txt(red[0].value) else "(t.sum : Int)")
    return (
        "/-- translated from `MaskSplitter.forward`: code points of `str(filename) + str(slice_no)` -/\n"
        f"def seed_tuple (filename slice : List Nat) : List Nat := {order}\n"
        f"def seed_is_none (use_seed : Bool) : Bool := {none_when}\n"
        "/-- translated from `_gaussian_split`: `int(np.mean(seed))` (truncated mean of non-negative code points) -/\n"
        f"def gaussian_seed (t : List Nat) : Int := {body}\n"
    )


_SEED_FALLBACK = ("def seed_tuple (filename slice : List Nat) : List Nat := SslSplit.seedTuple filename slice\n"
                  "def seed_is_none (use_seed : Bool) : Bool := !use_seed\n"
                  "def gaussian_seed (t : List Nat) : Int := SslSplit.gaussianSeed t\n")


# ---- the SSL branch of build_mri_transforms and the keys the SSL engines read ---------------------
MT = "direct/data/mri_transforms.py"
ENG = "direct/nn/mri_models.py"
SSLENG = "direct/nn/ssl/mri_models.py"
TYPES = "direct/types.py"


def _enum_table() -> dict[str, str]:
    """`TransformKey.ACS_MASK` -> "acs_mask" for the string enums the key expressions use"""
    table = {}
    for rel in (TYPES, SSL, MT):
        for node in ast.walk(parse_file(REPO / rel)):
            if isinstance(node, ast.ClassDef):
                for st in node.body:
                    if (isinstance(st, ast.Assign) and len(st.targets) == 1 and isinstance(st.targets[0], ast.Name)
                            and isinstance(st.value, ast.Constant) and isinstance(st.value.value, str)):
                        table[f"{node.name}.{st.targets[0].id}"] = st.value.value
    return table


def _sval(node, enums, env=None) -> str:
    env = env or {}
    if isinstance(node, ast.Constant) and isinstance(node.value, str):
        return node.value
    t = ast.unparse(node)
    if t in env:
        return env[t]
    if t in enums:
        return enums[t]
    if isinstance(node, ast.BinOp) and isinstance(node.op, ast.Add):
        return _sval(node.left, enums, env) + _sval(node.right, enums, env)
    raise Untranslatable(f"key expression `{t}`")


def _slist(node, enums, env=None) -> list[str]:
    if not isinstance(node, (ast.List, ast.Tuple)):
        raise Untranslatable(f"`{ast.unparse(node)}` is not a list of keys")
    return [_sval(e, enums, env) for e in node.elts]


def _lstr(xs) -> str:
    return "[" + ", ".join(f'"{x}"' for x in xs) + "]"


def _split_keys(enums):
    """what MaskSplitter.forward reads and writes, with the k-space key as placeholder"""
    fwd = find_function(parse_file(REPO / SSL), "MaskSplitter.forward")
    K = "«K»"
    env = {"self.kspace_key": K}
    writes = []
    for st in all_stmts(fwd):
        if isinstance(st, ast.Assign) and len(st.targets) == 1:
            tg = st.targets[0]
            tgs = tg.elts if isinstance(tg, ast.Tuple) else [tg]
            if isinstance(tgs[0], ast.Subscript) and ast.unparse(tgs[0].value) == "sample":
                writes.append((_sval(tgs[0].slice, enums, env), _txt(st.value)))
    want = ["apply_mask(kspace,input_mask)", "apply_mask(kspace,target_mask)", "input_mask", "target_mask"]
    if [w[1] for w in writes] != want:
        raise Untranslatable(f"forward writes {[w[1] for w in writes]}")
    k_in, k_tg, m_in, m_tg = [w[0] for w in writes]
    if not (k_in.endswith(K) and k_tg.endswith(K)):
        raise Untranslatable("split k-space keys are not <prefix> + kspace_key")
    ip, tp = k_in[:-len(K)], k_tg[:-len(K)]
    if not (m_in.startswith(ip) and m_tg.startswith(tp)) or m_in[len(ip):] != m_tg[len(tp):]:
        raise Untranslatable("split mask keys are not <prefix> + <mask key>")
    mk = m_in[len(ip):]
    reads = {ast.unparse(st.targets[0]): st.value for st in fwd.body if isinstance(st, ast.Assign) and len(st.targets) == 1}
    if "sampling_mask" not in reads or "kspace" not in reads or "acs_mask" not in reads:
        raise Untranslatable("forward's reads of sampling_mask / kspace / acs_mask")
    if _txt(reads["sampling_mask"]) != f"sample['{mk}'].clone()" or _txt(reads["kspace"]) != "sample[self.kspace_key].clone()":
        raise Untranslatable("forward does not read sample[mask key] / sample[self.kspace_key]")
    acs = reads["acs_mask"]
    if not (isinstance(acs, ast.IfExp) and _txt(acs.test) == "self.keep_acs" and _txt(acs.orelse) == "None"):
        raise Untranslatable("forward's acs_mask read")
    ak = _txt(acs.body).replace("sample['", "").replace("'].clone()", "")
    return ip, tp, mk, ak


def _ssl_tail() -> str:
    enums = _enum_table()
    fn = find_function(parse_file(REPO / MT), "build_mri_transforms")
    body = fn.body
    cut = None
    for i, st in enumerate(body):
        if (isinstance(st, ast.If) and _txt(st.test) == "transforms_type==TransformsType.SUPERVISED"
                and len(st.body) == 1 and isinstance(st.body[0], ast.Return)):
            cut = i
    if cut is None:
        raise Untranslatable("`if transforms_type == TransformsType.SUPERVISED: return …` not found")
    ops = []
    flag = body[cut - 1]
    if not (isinstance(flag, ast.AugAssign) and _txt(flag.value) ==
            "[AddBooleanKeysModule(['is_ssl'],[transforms_type!=TransformsType.SUPERVISED])]"):
        raise Untranslatable("the `is_ssl` flag statement before the supervised return")
    ops.append('.addFlag "is_ssl" true')
    ip, tp, mk, ak = _split_keys(enums)
    kwargs = None
    for st in body[cut + 1:]:
        if isinstance(st, ast.Assign) and ast.unparse(st.targets[0]) == "mask_splitter_kwargs" and isinstance(st.value, ast.Dict):
            kwargs = {_sval(k, enums): v for k, v in zip(st.value.keys, st.value.values)}
            continue
        if isinstance(st, ast.Return):
            if _txt(st.value) != "Compose(mri_transforms)":
                raise Untranslatable("SSL branch does not return Compose(mri_transforms)")
            continue
        if not (isinstance(st, ast.AugAssign) and ast.unparse(st.target) == "mri_transforms" and isinstance(st.value, ast.List)):
            raise Untranslatable(f"statement `{ast.unparse(st)[:60]}` in the SSL branch")
        for el in st.value.elts:
            calls = []
            node = el
            while isinstance(node, ast.IfExp):          # splitter chosen by type
                calls.append(node.body)
                node = node.orelse
            calls.append(node)
            names = [ast.unparse(c.func) if isinstance(c, ast.Call) else "?" for c in calls]
            if len(calls) > 1 or names[0].endswith("MaskSplitter"):
                if kwargs is None or not all(n.endswith("MaskSplitter") for n in names):
                    raise Untranslatable(f"splitter stage {names}")
                for c in calls:
                    if not any(k.arg is None for k in c.keywords):
                        raise Untranslatable("splitter built without **mask_splitter_kwargs")
                if ast.unparse(kwargs.get("keep_acs")) != "mask_split_keep_acs":
                    raise Untranslatable("keep_acs of the splitter")
                kk = _sval(kwargs["kspace_key"], enums)
                ops.append(f'.split "{kk}" keep "{ip}" "{tp}" "{mk}" "{ak}"')
            elif names[0] == "DeleteKeys":
                ops.append(f".delete {_lstr(_slist(calls[0].args[0], enums))}")
            elif names[0] == "RenameKeys":
                ops.append(f".rename {_lstr(_slist(calls[0].args[0], enums))} {_lstr(_slist(calls[0].args[1], enums))}")
            elif names[0] == "ComputeImage":
                kw = {k.arg: k.value for k in calls[0].keywords}
                ops.append(f'.computeImage "{_sval(kw["kspace_key"], enums)}" "{_sval(kw["target_key"], enums)}"')
            else:
                raise Untranslatable(f"transform `{names[0]}` in the SSL branch")
    return ("/-- translated from `build_mri_transforms`: the transforms after the supervised ones (SSL branch) -/\n"
            "def ssl_tail (keep : Bool) : List SslSplit.KeyOp :=\n  [" + ",\n   ".join(ops) + "]\n")


_TAIL_FALLBACK = (
    "def ssl_tail (keep : Bool) : List SslSplit.KeyOp :=\n"
    '  [.addFlag "is_ssl" true, .split "masked_kspace" keep "input_" "target_" "sampling_mask" "acs_mask",\n'
    '   .delete ["acs_mask"], .rename ["input_masked_kspace", "target_masked_kspace"] ["input_kspace", "kspace"],\n'
    '   .delete ["masked_kspace", "sampling_mask"], .computeImage "kspace" "target"]\n')


def _data_key(node) -> str:
    if (isinstance(node, ast.Subscript) and ast.unparse(node.value) == "data" and isinstance(node.slice, ast.Constant)
            and isinstance(node.slice.value, str)):
        return node.slice.value
    raise Untranslatable(f"`{ast.unparse(node)}` is not data[<key>]")


def _engine_reads(cls: str, name: str) -> str:
    fn = find_function(parse_file(REPO / SSLENG), f"{cls}._do_iteration")
    got = {}
    for st in all_stmts(fn):
        if (isinstance(st, ast.Assign) and len(st.targets) == 1 and ast.unparse(st.targets[0]) in ("kspace", "mask")
                and isinstance(st.value, ast.IfExp) and _txt(st.value.test) == "self.model.training"):
            which = ast.unparse(st.targets[0])
            got["train" + which], got["eval" + which] = _data_key(st.value.body), _data_key(st.value.orelse)
        if isinstance(st, ast.If) and _txt(st.test) in ("is_sslandself.model.training", "self.model.trainingandis_ssl") and st.orelse:
            for branch, stmts in (("train", st.body), ("eval", st.orelse)):
                for s2 in stmts:
                    if (isinstance(s2, ast.Assign) and _txt(s2.targets[0]) in ("(kspace,mask)", "kspace,mask")
                            and isinstance(s2.value, ast.Tuple)):
                        got[branch + "kspace"], got[branch + "mask"] = _data_key(s2.value.elts[0]), _data_key(s2.value.elts[1])
        if isinstance(st, ast.If) and "self.model.training" in _txt(st.test) and not st.orelse:
            for c in ast.walk(st):
                if (isinstance(c, ast.Call) and ast.unparse(c.func) == "T.apply_mask" and len(c.args) >= 2
                        and ast.unparse(c.args[0]) == "output_kspace" and isinstance(c.args[1], ast.Subscript)):
                    got["project"] = _data_key(c.args[1])
    loss = find_function(parse_file(REPO / ENG), "MRIModelEngine.compute_loss_on_data")
    for st in all_stmts(loss):
        if isinstance(st, ast.Assign) and isinstance(st.value, ast.Tuple) and len(st.value.elts) == 3:
            first = ast.unparse(st.value.elts[0])
            if first == "output_kspace":
                got["lossK"] = _data_key(st.value.elts[1])
            elif first == "output_image":
                got["lossImage"] = _data_key(st.value.elts[1])
    need = ["trainkspace", "trainmask", "evalkspace", "evalmask", "project", "lossK", "lossImage"]
    miss = [k for k in need if k not in got]
    if miss:
        raise Untranslatable(f"{cls}._do_iteration: could not find {miss}")
    return (f"/-- translated from `{cls}._do_iteration` and `MRIModelEngine.compute_loss_on_data` -/\n"
            f"def {name} : SslSplit.EngineReads :=\n"
            f'  {{ trainK := "{got["trainkspace"]}", trainMask := "{got["trainmask"]}", evalK := "{got["evalkspace"]}", '
            f'evalMask := "{got["evalmask"]}",\n    project := "{got["project"]}", lossK := "{got["lossK"]}", '
            f'lossImage := "{got["lossImage"]}" }}\n')


def _reads_fallback(name: str) -> str:
    return (f"def {name} : SslSplit.EngineReads :=\n"
            '  { trainK := "input_kspace", trainMask := "input_sampling_mask", evalK := "masked_kspace", evalMask := "sampling_mask",\n'
            '    project := "target_sampling_mask", lossK := "kspace", lossImage := "target" }\n')


VSHARP = "direct/nn/vsharp/vsharp_engine.py"
_VSHARP_KPATH = ["dc:kspace+self._forward_operator(output_image,data['sensitivity_map'],~mask)",
                 "mask:output_kspace:data['target_sampling_mask']",
                 "dc:kspace+self._forward_operator(output_images[-1],data['sensitivity_map'],~mask)"]


def _engine_kpath(cls: str, name: str, rel: str = None) -> str:
    """the k-space path of the training step, in source order: complement mask on the prediction, data consistency,
    projection on the target mask"""
    fn = find_function(parse_file(REPO / (rel or SSLENG)), f"{cls}._do_iteration")
    steps = []
    for st in all_stmts(fn):
        if isinstance(st, ast.Assign) and len(st.targets) == 1 and ast.unparse(st.targets[0]) == "output_kspace":
            v = st.value
            if isinstance(v, ast.Call) and ast.unparse(v.func) == "T.apply_mask" and len(v.args) >= 2:
                steps.append(f"mask:{_txt(v.args[0])}:{_txt(v.args[1])}")
            elif isinstance(v, ast.Call) and ast.unparse(v.func) == "self._forward_operator" and len(v.args) == 3:
                steps.append(f"forward:{_txt(v.args[2])}")
            elif isinstance(v, ast.Call) and ast.unparse(v.func) == "T.apply_padding" and v.args:
                steps.append(f"dc:{_txt(v.args[0])}")
            else:
                raise Untranslatable(f"assignment `output_kspace = {ast.unparse(v)[:50]}`")
    return (f"/-- translated from `{cls}._do_iteration`: every assignment to `output_kspace`, in order -/\n"
            f"def {name} : List String := {_lstr(steps)}\n")


_KPATH = ["forward:~mask", "mask:output_kspace:~mask", "dc:kspace+output_kspace", "mask:output_kspace:data['target_sampling_mask']"]


def _c11_extra():
    chunks, status = [], {}

    def attempt(name, fn, fallback):
        try:
            chunks.append(fn())
            status[name] = "translated"
        except Untranslatable as e:
            chunks.append(f"/-- SKIPPED ({e}); stands for the hand-written model -/\n" + fallback)
            status[name] = f"skipped: {e}"

    attempt("fill_loop", _pyx_kernels, _PYX_FALLBACK)
    try:
        tree = parse_file(REPO / SSL)
    except Untranslatable as e:
        tree = None
        err = e

    def need(qual):
        if tree is None:
            raise err
        return find_function(tree, qual)

    attempt("gaussian_algebra", lambda: _algebra("gaussian", need("MaskSplitter._gaussian_split"), True),
            _algebra_fallback("gaussian", True))
    attempt("uniform_algebra", lambda: _algebra("uniform", need("MaskSplitter._uniform_split"), True),
            _algebra_fallback("uniform", True))
    attempt("half_algebra", lambda: _algebra("half", need("MaskSplitter._half_split"), False), _algebra_fallback("half", False))
    attempt("gaussian_stages", lambda: _stages(need("MaskSplitter._gaussian_split")),
            "def gaussian_stages : List String := [" + ", ".join(f'"{s}"' for s in _STAGE_ORDER) + "]\n")

    def draws():
        g, u = need("MaskSplitter._gaussian_split"), need("MaskSplitter._uniform_split")
        rows = [("gaussian:self._choose_ratio", _inside_with(g, "self._choose_ratio")),
                ("uniform:self._choose_ratio", _inside_with(u, "self._choose_ratio")),
                ("uniform:uniform_fill", _inside_with(u, "uniform_fill"))]
        return ("/-- is every such call lexically inside `with temp_seed(self.rng, seed)`? -/\n"
                "def draws_in_temp_seed : List (String × Bool) := [" +
                ", ".join(f'("{n}", {"true" if b else "false"})' for n, b in rows) + "]\n")

    attempt("draws_in_temp_seed", draws,
            'def draws_in_temp_seed : List (String × Bool) := [("gaussian:self._choose_ratio", true), '
            '("uniform:self._choose_ratio", true), ("uniform:uniform_fill", true)]\n')
    attempt("half_diagonals", _half_diag, _HALF_DIAG_FALLBACK)
    attempt("ssl_tail", _ssl_tail, _TAIL_FALLBACK)
    attempt("ssl_engine_reads", lambda: _engine_reads("SSLMRIModelEngine", "ssl_engine_reads"), _reads_fallback("ssl_engine_reads"))
    attempt("jssl_engine_reads", lambda: _engine_reads("JSSLMRIModelEngine", "jssl_engine_reads"),
            _reads_fallback("jssl_engine_reads"))
    attempt("ssl_engine_kpath", lambda: _engine_kpath("SSLMRIModelEngine", "ssl_engine_kpath"),
            "def ssl_engine_kpath : List String := " + _lstr(_KPATH) + "\n")
    attempt("jssl_engine_kpath", lambda: _engine_kpath("JSSLMRIModelEngine", "jssl_engine_kpath"),
            "def jssl_engine_kpath : List String := " + _lstr(_KPATH) + "\n")
    attempt("seeds", lambda: _seeds(tree if tree is not None else need("x")), _SEED_FALLBACK)
    # structural tables: state kept between calls, what the seed derivation may call, admissible ratios
    attempt("state_writes", c11_state.state_tables, c11_state.STATE_FALLBACK)
    attempt("seed_calls", lambda: c11_state.seed_tables()[0], c11_state.SEED_CALLS_FALLBACK)
    attempt("ratio_guard", c11_state.ratio_guard, c11_state.RATIO_FALLBACK)
    attempt("engine_sites", c11_state.engine_sites, c11_state.ENGINE_SITES_FALLBACK)
    attempt("enum_compares", c11_state.enum_compares, c11_state.ENUM_COMPARES_FALLBACK)
    attempt("vsharp_ssl_engine_kpath", lambda: _engine_kpath("VSharpNetSSLEngine", "vsharp_ssl_engine_kpath", VSHARP),
            "def vsharp_ssl_engine_kpath : List String := " + _lstr(_VSHARP_KPATH) + "\n")
    attempt("vsharp_jssl_engine_kpath", lambda: _engine_kpath("VSharpNetJSSLEngine", "vsharp_jssl_engine_kpath", VSHARP),
            "def vsharp_jssl_engine_kpath : List String := " + _lstr(_VSHARP_KPATH[:2]) + "\n")
    return "\n".join(chunks), status


EXTRA["C11"] = _c11_extra
