"""C17 translation recipes: the pad / unpad / crop arithmetic of the denoisers in `direct/nn`.

Arithmetic kernels (Int-valued `def`s, compared with `Model/Shapes.lean` by `Bridge/C17.lean`):
  NormUnetModel2d.pad (`((w - 1) | 15) + 1`, floor/ceil halves), NormUnetModel2d.unpad slice bounds,
  UnetModel2d / UnetModel3d / MultiDomainUnet2d up-path padding lists, MWCNN.pad, DUB.pad, the three `crop_to_shape`s,
  `pad_to_pow_of_2`, IWT output size, the Conv2dGRU kernel / dilation / padding expressions.
Structural tables (EXTRA): order of the pad lists handed to `F.pad`, the pooling call's literal arguments, the DWT
strides, the un-pad index pairs of UnetModel3d.
"""
from __future__ import annotations

import ast

from ..gen import EXTRA, REPO, Kernel, Untranslatable, all_stmts, find_assign, register
from ..pyexpr import ExprTr, emit_def, find_function, parse_file

SH = ("DirectVerif.Model.Shapes", "DirectVerif.Model.ShapesChan")
U2 = "direct/nn/unet/unet_2d.py"
U3 = "direct/nn/unet/unet_3d.py"
MW = "direct/nn/mwcnn/mwcnn.py"
DI = "direct/nn/didn/didn.py"
MD = "direct/nn/multidomainnet/multidomain.py"
RC = "direct/nn/recurrent/recurrent.py"


class Tr17(ExprTr):
    """ExprTr + `a | b` (non-negative right operand), `2 ** k`, `math.floor(x / 2)`, `math.ceil(x / 2)`."""

    def int(self, node: ast.AST) -> str:
        if isinstance(node, ast.BinOp) and isinstance(node.op, ast.BitOr):
            return f"(Shapes.pyOr {self.int(node.left)} {self.int(node.right)})"
        if isinstance(node, ast.BinOp) and isinstance(node.op, ast.Pow):
            if isinstance(node.left, ast.Constant) and isinstance(node.left.value, int) and not isinstance(node.left.value, bool):
                return f"(({node.left.value} : Int) ^ ({self.int(node.right)}).toNat)"
            raise Untranslatable(f"power `{ast.unparse(node)}`")
        if isinstance(node, ast.Call) and ast.unparse(node.func) in ("math.floor", "math.ceil") and len(node.args) == 1:
            a = node.args[0]
            if (isinstance(a, ast.BinOp) and isinstance(a.op, ast.Div) and isinstance(a.right, ast.Constant)
                    and isinstance(a.right.value, int) and a.right.value > 0):
                num, den = self.int(a.left), f"({a.right.value} : Int)"
                if ast.unparse(node.func) == "math.floor":
                    return f"(Int.fdiv {num} {den})"
                return f"(-(Int.fdiv (-{num}) {den}))"
            raise Untranslatable(f"`{ast.unparse(node)}`: only floor/ceil of a quotient by a positive literal")
        return super().int(node)

    def bool(self, node: ast.AST) -> str:
        # `x in (a, b, …)` / `x not in (…)` over integer literals
        if isinstance(node, ast.Compare) and len(node.ops) == 1 and isinstance(node.ops[0], (ast.In, ast.NotIn)) \
                and isinstance(node.comparators[0], (ast.Tuple, ast.List, ast.Set)) and node.comparators[0].elts:
            x = self.int(node.left)
            alts = " || ".join(f"({x} == {self.int(e)})" for e in node.comparators[0].elts)
            return f"({alts})" if isinstance(node.ops[0], ast.In) else f"(!({alts}))"
        return super().bool(node)


# --------------------------------------------------------------------------------------------------------------
class _Subst(ast.NodeTransformer):
    def __init__(self, env, stop):
        self.env, self.stop = env, stop

    def visit_Name(self, node):
        if node.id in self.env and node.id not in self.stop and isinstance(node.ctx, ast.Load):
            return self.env[node.id]
        return node


def _subst(expr, env, stop):
    import copy
    return _Subst(env, stop).visit(copy.deepcopy(expr))


def _helper_of(call, funcs, qual):
    """the FunctionDef of a helper of the same class / module called as `self.h(...)`, `Class.h(...)`, `cls.h(...)` or `h(...)`"""
    f = call.func
    name = f.attr if isinstance(f, ast.Attribute) else (f.id if isinstance(f, ast.Name) else None)
    if name is None:
        return None
    scope = qual.rsplit(".", 1)[0] if "." in qual else ""
    for cand in ((scope + "." if scope else "") + name, name):
        if cand in funcs:
            return funcs[cand]
    return None


def _inline_env(fn, funcs, qual, env, stop, depth=0):
    """symbolic execution of the straight-line assignments of `fn`: local -> expression over the leaves (`stop` names, parameters,
    anything never assigned); helper calls whose result is unpacked are inlined with their argument bindings.  Returns (env,
    returned expression or None)."""
    if depth > 4:
        raise Untranslatable("helper nesting too deep")
    ret = None
    for st in fn.body:
        if isinstance(st, ast.Expr) and isinstance(st.value, ast.Constant):
            continue
        if isinstance(st, ast.Return):
            ret = _subst(st.value, env, stop) if st.value is not None else None
            break
        if not isinstance(st, ast.Assign) or len(st.targets) != 1:
            continue                        # other statements do not define the locals we look for
        tgt, val = st.targets[0], st.value
        if isinstance(val, ast.Call):
            h = _helper_of(val, funcs, qual)
            if h is not None and not val.keywords:
                params = [a.arg for a in h.args.args if a.arg not in ("self", "cls")]
                if len(params) == len(val.args):
                    henv = {p: _subst(a, env, stop) for p, a in zip(params, val.args)}
                    _e, r = _inline_env(h, funcs, qual, henv, set(), depth + 1)
                    if r is not None:
                        val = r
        else:
            val = _subst(val, env, stop)
        if isinstance(tgt, ast.Name):
            if tgt.id not in stop:
                env[tgt.id] = val
        elif isinstance(tgt, (ast.Tuple, ast.List)) and isinstance(val, (ast.Tuple, ast.List)) and len(val.elts) == len(tgt.elts):
            for t, v in zip(tgt.elts, val.elts):
                if isinstance(t, ast.Name) and t.id not in stop:
                    env[t.id] = v
    return env, ret


def _resolved_local(k, fn, name, stop, elt=None):
    funcs = _functions_of(parse_file(REPO / k.file))
    env, _ = _inline_env(fn, funcs, k.func, {}, set(stop))
    if name not in env:
        raise Untranslatable(f"assignment to `{name}` not found")
    node = env[name]
    if elt is not None:
        if isinstance(node, ast.BinOp) and isinstance(node.op, ast.Mult):
            # `[x] * 2` / `2 * [x]`: list repetition by a literal
            lst, rep = (node.left, node.right) if isinstance(node.left, (ast.List, ast.Tuple)) else (node.right, node.left)
            if isinstance(lst, (ast.List, ast.Tuple)) and isinstance(rep, ast.Constant) and isinstance(rep.value, int) and 0 <= rep.value <= 8:
                node = ast.List(elts=list(lst.elts) * rep.value, ctx=ast.Load())
        if not isinstance(node, (ast.List, ast.Tuple)) or len(node.elts) <= elt:
            raise Untranslatable(f"`{name}` is not a list literal with {elt + 1} elements")
        node = node.elts[elt]
    return node


def _value_of(binds, target, elt=None):
    """Kernel = value of local `target` (optionally element `elt` of a list literal) as an expression over the bound leaves:
    single assignments, tuple assignments and calls of helpers of the same class / module (`w_mult, w_pad = C._split(w)`) are
    followed; arithmetic differences are left to the Lean bridge."""

    def build(k: Kernel, fn: ast.FunctionDef) -> str:
        tr = Tr17(binds)
        stop = {b for b in binds if b.isidentifier() and b != target}
        node = _resolved_local(k, fn, target, stop, elt)
        return emit_def(k.name, k.params, [], tr.int(node), k.ret_type)

    return build


def _tuple_component(binds, name):
    """Kernel = the component assigned to `name` in a tuple assignment `a, b, c = x, y, z`."""

    def build(k: Kernel, fn: ast.FunctionDef) -> str:
        tr = Tr17(binds)
        for st in all_stmts(fn):
            if isinstance(st, ast.Assign) and len(st.targets) == 1 and isinstance(st.targets[0], ast.Tuple) \
                    and isinstance(st.value, ast.Tuple) and len(st.value.elts) == len(st.targets[0].elts):
                for t, v in zip(st.targets[0].elts, st.value.elts):
                    if isinstance(t, ast.Name) and t.id == name:
                        return emit_def(k.name, k.params, [], tr.int(v), k.ret_type)
        raise Untranslatable(f"tuple assignment to `{name}` not found")

    return build


def _return_slice(binds, axis_from_last, which):
    """Kernel = lower/upper bound of the slice on the `axis_from_last`-th last axis of `return x[..., a:b, c:d]`."""

    def build(k: Kernel, fn: ast.FunctionDef) -> str:
        tr = Tr17(binds)
        ret = [st for st in all_stmts(fn) if isinstance(st, ast.Return)]
        if len(ret) != 1 or not isinstance(ret[0].value, ast.Subscript):
            raise Untranslatable("single `return x[...]` not found")
        sl = ret[0].value.slice
        elts = list(sl.elts) if isinstance(sl, ast.Tuple) else [sl]
        if not (elts and isinstance(elts[0], ast.Constant) and elts[0].value is Ellipsis):
            raise Untranslatable("slice does not start with `...`")
        s = elts[len(elts) - axis_from_last]
        if not isinstance(s, ast.Slice) or s.step is not None or s.lower is None or s.upper is None:
            raise Untranslatable("unexpected slice")
        return emit_def(k.name, k.params, [], tr.int(s.lower if which == "lower" else s.upper), k.ret_type)

    return build


def _padding_list(binds, scope_for=False):
    """`padding = [0, …]; if c: padding[i] = v …` -> the list as conditional entries (List Int).  The statements are
    searched in the whole function (descending into loops)."""

    def build(k: Kernel, fn: ast.FunctionDef) -> str:
        tr = Tr17(binds)
        init = None
        conds: dict[int, list[tuple[str, str]]] = {}
        for st in all_stmts(fn):
            if isinstance(st, ast.Assign) and ast.unparse(st.targets[0]) == "padding" and isinstance(st.value, ast.List):
                init = [tr.int(e) for e in st.value.elts]
            if isinstance(st, ast.If) and not st.orelse and all(
                    isinstance(b, ast.Assign) and isinstance(b.targets[0], ast.Subscript)
                    and ast.unparse(b.targets[0].value) == "padding" for b in st.body):
                for b in st.body:
                    idx = b.targets[0].slice
                    if not (isinstance(idx, ast.Constant) and isinstance(idx.value, int)):
                        raise Untranslatable(f"non-literal index `{ast.unparse(b.targets[0])}`")
                    conds.setdefault(idx.value, []).append((tr.bool(st.test), tr.int(b.value)))
        if init is None:
            raise Untranslatable("`padding = [...]` not found")
        if not conds:
            raise Untranslatable("no conditional `padding[i] = v` found")
        out = []
        for i, v in enumerate(init):
            for c, val in conds.get(i, []):
                v = f"(if {c} then {val} else {v})"
            out.append(v)
        if any(i >= len(init) for i in conds):
            raise Untranslatable("index outside the padding list")
        ps = " ".join(f"({p} : Int)" for p in k.params)
        return f"def {k.name} {ps} : List Int :=\n  [{', '.join(out)}]\n"

    return build


class _SizeToShape(ast.NodeTransformer):
    """`T.size(c)` -> `T.shape[c]`"""

    def visit_Call(self, node):
        self.generic_visit(node)
        if isinstance(node.func, ast.Attribute) and node.func.attr == "size" and len(node.args) == 1 and not node.keywords:
            return ast.Subscript(value=ast.Attribute(value=node.func.value, attr="shape", ctx=ast.Load()), slice=node.args[0],
                                 ctx=ast.Load())
        return node


def _pad_list_general(kind):
    """The list handed to the (single) reflect `F.pad` reached from the function — through private helpers of the same class —
    as conditional entries (List Int).  Two spellings are understood: the zero-initialised list patched by `if c: padding[i] = v`
    statements, and the list literal `[0, pad_right, 0, pad_bottom]` whose entries are locals (`1 if a != b else 0`, `n % 2`).
    Leaves are bound by ROLE: axis `-k` of the padded tensor is `o<k>` (`h`/`w` for kind "even"), of the other tensor `d<k>`."""

    def build(k: Kernel, fn: ast.FunctionDef) -> str:
        import copy
        funcs = _functions_of(parse_file(REPO / k.file))
        cands = []
        if k.func not in funcs:
            raise Untranslatable(f"{k.func} not found")
        reach = _reachable(funcs[k.func], funcs, k.func)
        for q, f in funcs.items():
            if any(f is r for r in reach):
                for n in ast.walk(f):
                    if isinstance(n, ast.Call) and ast.unparse(n.func) == "F.pad" and len(n.args) >= 2 \
                            and any(isinstance(a, ast.Constant) and a.value == "reflect" for a in list(n.args[2:]) + [kw.value for kw in n.keywords]):
                        cands.append((q, f, n))
        if len(cands) != 1:
            raise Untranslatable(f"{len(cands)} reflect F.pad calls reachable")
        q, g, call = cands[0]
        padded = ast.unparse(call.args[0])
        spec = call.args[1]
        norm = lambda e: ast.fix_missing_locations(_SizeToShape().visit(copy.deepcopy(e)))  # noqa: E731
        entries = None            # list of (list of (condition ast, value ast)) per position, after the initial value
        if isinstance(spec, ast.Name):
            init, conds = None, {}
            for st in all_stmts(g):
                if isinstance(st, ast.Assign) and ast.unparse(st.targets[0]) == spec.id and isinstance(st.value, ast.List):
                    init = list(st.value.elts)
                if isinstance(st, ast.If) and not st.orelse and all(
                        isinstance(b, ast.Assign) and isinstance(b.targets[0], ast.Subscript)
                        and ast.unparse(b.targets[0].value) == spec.id for b in st.body):
                    for b in st.body:
                        idx = b.targets[0].slice
                        if not (isinstance(idx, ast.Constant) and isinstance(idx.value, int)):
                            raise Untranslatable(f"non-literal index `{ast.unparse(b.targets[0])}`")
                        conds.setdefault(idx.value, []).append((norm(st.test), norm(b.value)))
            if init is None:
                raise Untranslatable(f"`{spec.id} = [...]` not found")
            if not conds:
                raise Untranslatable(f"no conditional `{spec.id}[i] = v` found")
            if any(i >= len(init) for i in conds):
                raise Untranslatable("index outside the padding list")
            entries = [(norm(v), conds.get(i, [])) for i, v in enumerate(init)]
        elif isinstance(spec, (ast.List, ast.Tuple)):
            env, _ = _inline_env(g, funcs, q, {}, set())
            entries = [(norm(_subst(e, env, set())), []) for e in spec.elts]
        else:
            raise Untranslatable("F.pad list is neither a local list nor a list literal")
        # bind the leaves `T.shape[-k]` by role
        tensors = []
        for v, cs in entries:
            for e in [v] + [x for c in cs for x in c]:
                for n in ast.walk(e):
                    if isinstance(n, ast.Subscript) and isinstance(n.value, ast.Attribute) and n.value.attr == "shape":
                        t = ast.unparse(n.value.value)
                        if t not in tensors:
                            tensors.append(t)
        others = [t for t in tensors if t != padded]
        if len(others) > 1:
            raise Untranslatable("more than two tensors in the padding conditions")
        binds = {}
        for ax in (1, 2, 3):
            binds[f"{padded}.shape[-{ax}]"] = {1: "w", 2: "h"}.get(ax, f"o{ax}") if kind == "even" else f"o{ax}"
            if others:
                binds[f"{others[0]}.shape[-{ax}]"] = f"d{ax}"
        tr = Tr17(binds)
        out = []
        for v, cs in entries:
            cur = tr.int(v)
            for c, val in cs:
                cur = f"(if {tr.bool(c)} then {tr.int(val)} else {cur})"
            out.append(cur)
        ps = " ".join(f"({p} : Int)" for p in k.params)
        return f"def {k.name} {ps} : List Int :=\n  [{', '.join(out)}]\n"

    return build


def _crop(binds, axis_name, shape_idx):
    """`if h > shape[0]: x = x[:, :, :shape[0], :]` -> resulting length of that axis (the local holding the length may have
    any name: it is the one compared with `shape[shape_idx]`)."""

    def build(k: Kernel, fn: ast.FunctionDef) -> str:
        for st in all_stmts(fn):
            if not (isinstance(st, ast.If) and not st.orelse and len(st.body) == 1 and isinstance(st.body[0], ast.Assign)):
                continue
            t = st.test
            if not (isinstance(t, ast.Compare) and isinstance(t.left, ast.Name) and len(t.ops) == 1
                    and ast.unparse(t.comparators[0]).replace(" ", "") == f"shape[{shape_idx}]"):
                continue
            tr = Tr17(dict(binds, **{t.left.id: axis_name}))
            asg = st.body[0]
            if not (isinstance(asg.value, ast.Subscript) and ast.unparse(asg.targets[0]) == ast.unparse(asg.value.value)):
                raise Untranslatable("crop statement is not `x = x[...]`")
            sl = asg.value.slice
            elts = list(sl.elts) if isinstance(sl, ast.Tuple) else [sl]
            nontrivial = [(i, s) for i, s in enumerate(elts)
                          if not (isinstance(s, ast.Slice) and s.lower is None and s.upper is None and s.step is None)]
            if len(nontrivial) != 1 or len(elts) != 4:
                raise Untranslatable("expected one non-trivial slice of a rank-4 tensor")
            pos, s = nontrivial[0]
            if pos != 2 + shape_idx:
                raise Untranslatable(f"`{t.left.id}` is cropped on axis {pos}, expected {2 + shape_idx}")
            if not (isinstance(s, ast.Slice) and s.lower is None and s.step is None and s.upper is not None):
                raise Untranslatable("expected `:upper`")
            n = tr.int(t.left)
            up = tr.int(s.upper)
            # python: x[:u] on an axis of length n (u >= 0) has length min(n, u)
            return emit_def(k.name, k.params, [], f"(if {tr.bool(t)} then (pyMin {n} {up}) else {n})", k.ret_type)
        raise Untranslatable(f"`if <length> > shape[{shape_idx}]: x = x[…]` not found")

    return build


def _pow2(which):
    """pad_to_pow_of_2: `diffs = [_ - 2**k for _ in inp.shape[2:]]`, `if diff < 1: padding[2*i] = abs(diff)//2;
    padding[2*i+1] = abs(diff) - padding[2*i]`."""

    def build(k: Kernel, fn: ast.FunctionDef) -> str:
        comp = find_assign(fn, "diffs").value
        if not (isinstance(comp, ast.ListComp) and len(comp.generators) == 1 and isinstance(comp.generators[0].target, ast.Name)
                and ast.unparse(comp.generators[0].iter).replace(" ", "") == "inp.shape[2:]"):
            raise Untranslatable("`diffs = [… for _ in inp.shape[2:]]` not found")
        var = comp.generators[0].target.id
        tr = Tr17({var: "n", "k": "k"})
        diff = tr.int(comp.elt)
        loop = [st for st in all_stmts(fn) if isinstance(st, ast.For)]
        if len(loop) != 1 or ast.unparse(loop[0].iter).replace(" ", "") != "enumerate(diffs[::-1])":
            raise Untranslatable("`for i, diff in enumerate(diffs[::-1])` not found")
        ifs = [st for st in loop[0].body if isinstance(st, ast.If)]
        if len(ifs) != 1 or ifs[0].orelse or len(ifs[0].body) != 2:
            raise Untranslatable("unexpected loop body")
        tr2 = Tr17({"diff": "d", "padding[2 * i]": "lo"})
        test = tr2.bool(ifs[0].test)
        a0, a1 = ifs[0].body
        if ast.unparse(a0.targets[0]).replace(" ", "") != "padding[2*i]" or ast.unparse(a1.targets[0]).replace(" ", "") != "padding[2*i+1]":
            raise Untranslatable("unexpected assignment targets")
        lo = tr2.int(a0.value)
        hi = tr2.int(a1.value)
        body = {"diff": diff, "lo": f"let d : Int := {diff}\n  (if {test} then {lo} else 0)",
                "hi": f"let d : Int := {diff}\n  let lo : Int := (if {test} then {lo} else 0)\n  (if {test} then {hi} else 0)"}[which]
        return f"def {k.name} (n : Int) (k : Int) : Int :=\n  {body}\n"

    return build


def _gru(local):
    """the `nn.Conv2d(… kernel_size=5 if idx == 0 else 3, dilation=2 if idx == 1 else 1, padding=padding)` call and the
    `padding = 0 if replication_padding else 2 if idx == 0 else 1` assignment of Conv2dGRU.__init__."""

    def build(k: Kernel, fn: ast.FunctionDef) -> str:
        tr = Tr17({"idx": "idx"}, {"replication_padding": "(repl != 0)"})
        if local == "padding":
            return emit_def(k.name, k.params, [], tr.int(find_assign(fn, "padding").value), k.ret_type)
        if local == "repl_pad":
            # `block.append(nn.ReplicationPad2d(2))` under `if idx == 1` else `nn.ReplicationPad2d(2 if idx == 0 else 1)`
            for st in all_stmts(fn):
                if isinstance(st, ast.If) and ast.unparse(st.test) == "replication_padding":
                    inner = [s for s in st.body if isinstance(s, ast.If)]
                    if len(inner) == 1 and inner[0].orelse:
                        def arg(stmts):
                            c = stmts[0].value
                            if not (isinstance(c, ast.Call) and ast.unparse(c.func) == "block.append"
                                    and ast.unparse(c.args[0].func) == "nn.ReplicationPad2d"):
                                raise Untranslatable("expected block.append(nn.ReplicationPad2d(…))")
                            return tr.int(c.args[0].args[0])
                        return emit_def(k.name, k.params, [],
                                        f"(if {tr.bool(inner[0].test)} then {arg(inner[0].body)} else {arg(inner[0].orelse)})", k.ret_type)
            raise Untranslatable("replication padding branch not found")
        for n in ast.walk(fn):
            if isinstance(n, ast.Call) and ast.unparse(n.func) == "nn.Conv2d":
                kws = {kw.arg: kw.value for kw in n.keywords}
                if "dilation" in kws and local in kws:
                    return emit_def(k.name, k.params, [], tr.int(kws[local]), k.ret_type)
        raise Untranslatable("conv block call not found")

    return build


_S2 = {"x.shape[-2]": "h", "x.shape[-1]": "w"}
_UP2 = {"output.shape[-1]": "o1", "downsample_layer.shape[-1]": "d1", "output.shape[-2]": "o2", "downsample_layer.shape[-2]": "d2"}
_UP3 = dict(_UP2, **{"output.shape[-3]": "o3", "downsample_layer.shape[-3]": "d3"})
_CR = {"h": "h", "w": "w", "shape[0]": "s0", "shape[1]": "s1"}

register("C17", [
    # NormUnetModel2d.pad / unpad
    Kernel("normunet_w_mult", U2, "NormUnetModel2d.pad", ["w"], "(fun w => (Shapes.mult16 w.toNat : Int))", _value_of({"w": "w"}, "w_mult"), imports=SH),
    Kernel("normunet_h_mult", U2, "NormUnetModel2d.pad", ["h"], "(fun h => (Shapes.mult16 h.toNat : Int))", _value_of({"h": "h"}, "h_mult"), imports=SH),
    Kernel("normunet_w_pad_lo", U2, "NormUnetModel2d.pad", ["w_mult", "w"], "(fun m w => Int.fdiv (m - w) 2)",
           _value_of({"w": "w", "w_mult": "w_mult"}, "w_pad", 0), imports=SH),
    Kernel("normunet_w_pad_hi", U2, "NormUnetModel2d.pad", ["w_mult", "w"], "(fun m w => -(Int.fdiv (-(m - w)) 2))",
           _value_of({"w": "w", "w_mult": "w_mult"}, "w_pad", 1), imports=SH),
    Kernel("normunet_h_pad_lo", U2, "NormUnetModel2d.pad", ["h_mult", "h"], "(fun m w => Int.fdiv (m - w) 2)",
           _value_of({"h": "h", "h_mult": "h_mult"}, "h_pad", 0), imports=SH),
    Kernel("normunet_h_pad_hi", U2, "NormUnetModel2d.pad", ["h_mult", "h"], "(fun m w => -(Int.fdiv (-(m - w)) 2))",
           _value_of({"h": "h", "h_mult": "h_mult"}, "h_pad", 1), imports=SH),
    Kernel("normunet_unpad_h_lower", U2, "NormUnetModel2d.unpad", ["lo", "hi", "m"], "(fun lo _ _ => lo)",
           _return_slice({"h_pad[0]": "lo", "h_pad[1]": "hi", "h_mult": "m"}, 2, "lower"), imports=SH),
    Kernel("normunet_unpad_h_upper", U2, "NormUnetModel2d.unpad", ["lo", "hi", "m"], "(fun _ hi m => m - hi)",
           _return_slice({"h_pad[0]": "lo", "h_pad[1]": "hi", "h_mult": "m"}, 2, "upper"), imports=SH),
    Kernel("normunet_unpad_w_lower", U2, "NormUnetModel2d.unpad", ["lo", "hi", "m"], "(fun lo _ _ => lo)",
           _return_slice({"w_pad[0]": "lo", "w_pad[1]": "hi", "w_mult": "m"}, 1, "lower"), imports=SH),
    Kernel("normunet_unpad_w_upper", U2, "NormUnetModel2d.unpad", ["lo", "hi", "m"], "(fun _ hi m => m - hi)",
           _return_slice({"w_pad[0]": "lo", "w_pad[1]": "hi", "w_mult": "m"}, 1, "upper"), imports=SH),
    # 3-D variant of the bit trick
    Kernel("normunet3d_z_mult", U3, "NormUnetModel3d.pad", ["z"], "(fun z => (Shapes.mult16 z.toNat : Int))", _value_of({"z": "z"}, "z_mult"), imports=SH),
    # pad_to_pow_of_2
    Kernel("pow2_diff", U3, "pad_to_pow_of_2", ["n", "k"], "(fun n k => n - (2 : Int) ^ k.toNat)", _pow2("diff"), imports=SH),
    Kernel("pow2_lo", U3, "pad_to_pow_of_2", ["n", "k"], "(fun n k => (Shapes.pow2Lo k.toNat n.toNat : Int))", _pow2("lo"), imports=SH),
    Kernel("pow2_hi", U3, "pad_to_pow_of_2", ["n", "k"], "(fun n k => (Shapes.pow2Hi k.toNat n.toNat : Int))", _pow2("hi"), imports=SH),
    # crop_to_shape x 3
    Kernel("mwcnn_crop_h", MW, "MWCNN.crop_to_shape", ["h", "s0"], "(fun h s0 => if h > s0 then pyMin h s0 else h)", _crop(_CR, "h", 0), imports=SH),
    Kernel("mwcnn_crop_w", MW, "MWCNN.crop_to_shape", ["w", "s1"], "(fun w s1 => if w > s1 then pyMin w s1 else w)", _crop(_CR, "w", 1), imports=SH),
    Kernel("dub_crop_h", DI, "DUB.crop_to_shape", ["h", "s0"], "(fun h s0 => if h > s0 then pyMin h s0 else h)", _crop(_CR, "h", 0), imports=SH),
    Kernel("dub_crop_w", DI, "DUB.crop_to_shape", ["w", "s1"], "(fun w s1 => if w > s1 then pyMin w s1 else w)", _crop(_CR, "w", 1), imports=SH),
    Kernel("didn_crop_h", DI, "DIDN.crop_to_shape", ["h", "s0"], "(fun h s0 => if h > s0 then pyMin h s0 else h)", _crop(_CR, "h", 0), imports=SH),
    Kernel("didn_crop_w", DI, "DIDN.crop_to_shape", ["w", "s1"], "(fun w s1 => if w > s1 then pyMin w s1 else w)", _crop(_CR, "w", 1), imports=SH),
    # IWT output size
    Kernel("iwt_out_height", MW, "IWT.forward", ["r", "n"], "(fun r n => r * n)", _tuple_component({"self._r": "r", "in_height": "n"}, "out_height"), imports=SH),
    Kernel("iwt_out_width", MW, "IWT.forward", ["r", "n"], "(fun r n => r * n)", _tuple_component({"self._r": "r", "in_width": "n"}, "out_width"), imports=SH),
    # Conv2dGRU block hyper-parameters
    Kernel("gru_kernel", RC, "Conv2dGRU.__init__", ["idx"], "(fun idx => if idx == 0 then 5 else 3)", _gru("kernel_size"), imports=SH),
    Kernel("gru_dilation", RC, "Conv2dGRU.__init__", ["idx"], "(fun idx => if idx == 1 then 2 else 1)", _gru("dilation"), imports=SH),
    Kernel("gru_padding", RC, "Conv2dGRU.__init__", ["repl", "idx"], "(fun repl idx => if repl != 0 then 0 else if (idx == 0 || idx == 1) then 2 else 1)",
           _gru("padding"), imports=SH),
    Kernel("gru_repl_pad", RC, "Conv2dGRU.__init__", ["idx"], "(fun idx => if idx == 1 then 2 else if idx == 0 then 2 else 1)", _gru("repl_pad"), imports=SH),
])


# ---- list-valued kernels and structural tables ----------------------------------------------------------------
_LISTS = [
    ("unet2d_up_padding", U2, "UnetModel2d.forward", ["o1", "d1", "o2", "d2"], _UP2,
     "[0, (if o1 != d1 then 1 else 0), 0, (if o2 != d2 then 1 else 0)]"),
    ("multidomain_up_padding", MD, "MultiDomainUnet2d.forward", ["o1", "d1", "o2", "d2"], _UP2,
     "[0, (if o1 != d1 then 1 else 0), 0, (if o2 != d2 then 1 else 0)]"),
    ("unet3d_up_padding", U3, "UnetModel3d.forward", ["o1", "d1", "o2", "d2", "o3", "d3"], _UP3,
     "[0, (if o1 != d1 then 1 else 0), 0, (if o2 != d2 then 1 else 0), 0, (if o3 != d3 then 1 else 0)]"),
    ("mwcnn_pad_list", MW, "MWCNN.pad", ["h", "w"], _S2, "[0, (if Int.fmod w 2 != 0 then 1 else 0), 0, (if Int.fmod h 2 != 0 then 1 else 0)]"),
    ("dub_pad_list", DI, "DUB.pad", ["h", "w"], _S2, "[0, (if Int.fmod w 2 != 0 then 1 else 0), 0, (if Int.fmod h 2 != 0 then 1 else 0)]"),
]


def _call_kwargs(fn, func_text):
    for n in ast.walk(fn):
        if isinstance(n, ast.Call) and ast.unparse(n.func) == func_text:
            return n
    raise Untranslatable(f"call `{func_text}(…)` not found")


def _lit(node):
    if isinstance(node, ast.Constant) and isinstance(node.value, int) and not isinstance(node.value, bool):
        return node.value
    raise Untranslatable(f"`{ast.unparse(node)}` is not an integer literal")


def pool_params(file=U2, func="UnetModel2d.forward", call="F.avg_pool2d", repo=None):
    """(kernel_size, stride, padding) literals of the pooling call (also used by the harness: the call is functional,
    there is no module to read them from)."""
    fn = find_function(parse_file((repo or REPO) / file), func)
    c = _call_kwargs(fn, call)
    kws = {kw.arg: kw.value for kw in c.keywords}
    return [_lit(kws["kernel_size"]), _lit(kws["stride"]), _lit(kws.get("padding", ast.Constant(0)))]


def _reachable(fn, funcs, qual):
    """`fn` and the private helpers of the same class / module it (transitively) calls"""
    scope = qual.rsplit(".", 1)[0] if "." in qual else ""
    out, todo, seen = [], [(qual, fn)], set()
    while todo:
        q, f = todo.pop()
        if q in seen:
            continue
        seen.add(q)
        out.append(f)
        for c, g in funcs.items():
            nm = c.rsplit(".", 1)[-1]
            if (c.rsplit(".", 1)[0] if "." in c else "") == scope and nm.startswith("_") and not nm.startswith("__") \
                    and c not in seen and _calls_helper(f, nm):
                todo.append((c, g))
    return out


def _pad_mode(fn, funcs=None, qual=None):
    modes = []
    for f in (_reachable(fn, funcs, qual) if funcs is not None else [fn]):
        for n in ast.walk(f):
            if isinstance(n, ast.Call) and ast.unparse(n.func) == "F.pad":
                if len(n.args) >= 3 and isinstance(n.args[2], ast.Constant):
                    modes.append(n.args[2].value)
                else:
                    kw = {k.arg: k.value for k in n.keywords}
                    modes.append(kw["mode"].value if "mode" in kw and isinstance(kw["mode"], ast.Constant) else "constant")
    return modes


def _strided_slices(fn):
    """DWT.forward: every `x… = y[:, :, a::s, :]` -> [axis, start, step]."""
    out = []
    for st in fn.body:
        if isinstance(st, ast.Assign) and isinstance(st.value, (ast.Subscript, ast.BinOp)):
            v = st.value.left if isinstance(st.value, ast.BinOp) else st.value
            if not isinstance(v, ast.Subscript) or not isinstance(v.slice, ast.Tuple):
                continue
            for ax, s in enumerate(v.slice.elts):
                if isinstance(s, ast.Slice) and s.step is not None:
                    out.append([ax, _lit(s.lower) if s.lower is not None else 0, _lit(s.step)])
    return out


def _lean_str_list(xs):
    return "[" + ", ".join('"' + x + '"' for x in xs) + "]"


def _extra():
    chunks, status = [], {}

    def attempt(name, fallback_text, thunk):
        try:
            chunks.append(thunk())
            status[name] = "translated"
        except (Untranslatable, KeyError, AttributeError, IndexError) as e:
            chunks.append(f"/-- SKIPPED ({e}) -/\n" + fallback_text)
            status[name] = f"skipped: {e}"

    trees = {}

    def fn_of(file, func):
        if file not in trees:
            trees[file] = parse_file(REPO / file)
        return find_function(trees[file], func)

    for name, file, func, params, binds, fb in _LISTS:
        k = Kernel(name, file, func, params, "")
        ps = " ".join(f"({p} : Int)" for p in params)
        attempt(name, f"def {name} {ps} : List Int :=\n  {fb}\n",
                lambda k=k, file=file, func=func, binds=binds: f"/-- translated from `{file}`:`{func}` -/\n"
                + _pad_list_general("even" if params == ["h", "w"] else "updown")(k, fn_of(file, func)))
    # F.pad modes of those functions
    for name, file, func, exp in [("unet2d_pad_modes", U2, "UnetModel2d.forward", ["reflect"]),
                                  ("unet3d_pad_modes", U3, "UnetModel3d.forward", ["reflect"]),
                                  ("mwcnn_pad_modes", MW, "MWCNN.pad", ["reflect"]), ("dub_pad_modes", DI, "DUB.pad", ["reflect"]),
                                  ("normunet_pad_modes", U2, "NormUnetModel2d.pad", ["constant"]),
                                  ("pow2_pad_modes", U3, "pad_to_pow_of_2", ["constant"])]:
        attempt(name, f"def {name} : List String := {_lean_str_list(exp)}\n",
                lambda name=name, file=file, func=func: f"def {name} : List String := "
                f"{_lean_str_list(_pad_mode(fn_of(file, func), _functions_of(trees[file]), func))}\n")

    # order of the pad lists handed to F.pad by the Norm-U-Nets (last axis first)
    def order(file, func):
        c = _call_kwargs(fn_of(file, func), "F.pad")
        names = [n.strip() for n in ast.unparse(c.args[1]).split("+")]
        return names

    attempt("normunet_pad_order", 'def normunet_pad_order : List String := ["w_pad", "h_pad"]\n',
            lambda: f"def normunet_pad_order : List String := {_lean_str_list(order(U2, 'NormUnetModel2d.pad'))}\n")
    attempt("normunet3d_pad_order", 'def normunet3d_pad_order : List String := ["w_pad", "h_pad", "z_pad"]\n',
            lambda: f"def normunet3d_pad_order : List String := {_lean_str_list(order(U3, 'NormUnetModel3d.pad'))}\n")
    # pooling literals
    attempt("unet2d_pool", "def unet2d_pool : List Int := [2, 2, 0]\n",
            lambda: f"def unet2d_pool : List Int := {pool_params(U2, 'UnetModel2d.forward', 'F.avg_pool2d')}\n")
    attempt("unet3d_pool", "def unet3d_pool : List Int := [2, 2, 0]\n",
            lambda: f"def unet3d_pool : List Int := {pool_params(U3, 'UnetModel3d.forward', 'F.avg_pool3d')}\n")
    attempt("multidomain_pool", "def multidomain_pool : List Int := [2, 2, 0]\n",
            lambda: f"def multidomain_pool : List Int := {pool_params(MD, 'MultiDomainUnet2d.forward', 'F.avg_pool2d')}\n")
    # DWT strides
    attempt("dwt_slices", "def dwt_slices : List (List Int) := [[2, 0, 2], [2, 1, 2], [3, 0, 2], [3, 0, 2], [3, 1, 2], [3, 1, 2]]\n",
            lambda: f"def dwt_slices : List (List Int) := {_strided_slices(fn_of(MW, 'DWT.forward'))}\n")

    # UnetModel3d un-pad: `output[:, :, inp_pad[4] : output.shape[2] - inp_pad[5], …]` -> [lo index, hi index, axis] per axis
    def unpad3d():
        fn = fn_of(U3, "UnetModel3d.forward")
        for st in all_stmts(fn):
            if isinstance(st, ast.Assign) and isinstance(st.value, ast.Subscript) and "inp_pad" in ast.unparse(st.value.slice):
                rows = []
                for ax, s in enumerate(st.value.slice.elts):
                    if isinstance(s, ast.Slice) and s.lower is not None:
                        lo = ast.unparse(s.lower).replace(" ", "")
                        up = ast.unparse(s.upper).replace(" ", "")
                        import re
                        m1 = re.fullmatch(r"inp_pad\[(\d)\]", lo)
                        m2 = re.fullmatch(r"output\.shape\[(\d)\]-inp_pad\[(\d)\]", up)
                        if not (m1 and m2):
                            raise Untranslatable(f"unexpected un-pad slice `{lo}:{up}`")
                        rows.append([ax, int(m1.group(1)), int(m2.group(1)), int(m2.group(2))])
                return f"def unet3d_unpad : List (List Int) := {rows}\n"
        raise Untranslatable("un-pad slicing not found")

    attempt("unet3d_unpad", "def unet3d_unpad : List (List Int) := [[2, 4, 2, 5], [3, 2, 3, 3], [4, 0, 4, 1]]\n", unpad3d)
    return "\n".join(chunks), status


# ---- forward shape programs (AST of `forward` interpreted on instantiated modules; see c17_forward.py) ---------------
def forward_specs():
    """[(lean name, fallback Lean term, thunk building (module, hooked modules, number of tensor inputs))]"""
    def unet_hooks(u):
        return list(u.down_sample_layers) + [u.conv] + list(u.up_transpose_conv) + list(u.up_conv)

    specs = []

    def add(name, fallback, build):
        specs.append((name, f"Shapes.expand ({fallback})", build))

    def imports():
        from direct.nn.conv.conv import Conv2d
        from direct.nn.didn.didn import DIDN, DUB
        from direct.nn.mwcnn.mwcnn import MWCNN
        from direct.nn.recurrent.recurrent import Conv2dGRU, NormConv2dGRU
        from direct.nn.resnet.resnet import ResNet
        from direct.nn.unet.unet_2d import NormUnetModel2d, UnetModel2d
        from direct.nn.unet.unet_3d import NormUnetModel3d, UnetModel3d
        return locals()

    for L in (1, 2, 3, 4, 5):
        def b(L=L):
            m = imports()["UnetModel2d"](2, 2, 2, L, 0.0)
            return m, unet_hooks(m), 1
        add(f"fw_unet2d_L{L}", f"Shapes.unet Shapes.UnetP.std {L}", b)
    for L in (1, 2, 3, 4):
        def b(L=L):
            m = imports()["NormUnetModel2d"](2, 2, 2, L, 0.0)
            return m, unet_hooks(m.unet2d) + [m.unet2d], 1
        add(f"fw_normunet2d_L{L}", f"Shapes.normUnet Shapes.UnetP.std {L}", b)
    for L in (1, 2, 3):
        def b(L=L):
            m = imports()["UnetModel3d"](2, 2, 2, L, 0.0)
            return m, unet_hooks(m), 1
        add(f"fw_unet3d_L{L}", f"Shapes.unet3d Shapes.UnetP.std {L}", b)
    for L in (1, 2):
        def b(L=L):
            m = imports()["NormUnetModel3d"](2, 2, 2, L, 0.0)
            return m, unet_hooks(m.unet3d) + [m.unet3d], 1
        add(f"fw_normunet3d_L{L}", f"Shapes.normUnet3d Shapes.UnetP.std {L}", b)
    for S, bn in [(1, False), (2, False), (3, False), (4, False), (5, False), (3, True)]:
        def b(S=S, bn=bn):
            m = imports()["MWCNN"](2, 2, num_scales=S, batchnorm=bn)
            return m, [m.DWT, m.IWT] + list(m.down) + list(m.up), 1
        add(f"fw_mwcnn_S{S}" + ("_bn" if bn else ""), f"Shapes.mwcnn Shapes.MwP.std {S}", b)
    for e in (True, False):
        def b(e=e):
            m = imports()["DUB"](4, 4)
            return m, ([c for _n, c in m.named_children()] if e else []), 1
        add("fw_dub_" + ("hooked" if e else "plain"), f"Shapes.dub Shapes.DidnP.std {'true' if e else 'false'}", b)
    for nd, nc in [(1, 1), (2, 3), (3, 2)]:
        for skip in (False, True):
            def b(nd=nd, nc=nc, skip=skip):
                m = imports()["DIDN"](2, 2, hidden_channels=4, num_dubs=nd, num_convs_recon=nc, skip_connection=skip)
                return m, [m.conv_in, m.down] + list(m.dubs) + [m.recon_block, m.recon_agg, m.conv, m.up2, m.conv_out], 1
            add(f"fw_didn_{nd}_{nc}_{'skip' if skip else 'noskip'}",
                f"Shapes.didn Shapes.DidnP.std {nd} {nc} {'true' if skip else 'false'}", b)
    for nb, bn in [(1, True), (2, True), (3, True), (2, False)]:
        def b(nb=nb, bn=bn):
            m = imports()["ResNet"](hidden_channels=4, in_channels=2, num_blocks=nb, batchnorm=bn)
            return m, [m.conv_in, m.resblocks, m.conv_out], 1
        add(f"fw_resnet_B{nb}" + ("" if bn else "_nobn"), f"Shapes.resnet 3 1 {nb}", b)
    for n in (1, 2, 3, 4):
        for bn in (False, True):
            def b(n=n, bn=bn):
                m = imports()["Conv2d"](2, 2, 4, n_convs=n, batchnorm=bn)
                return m, list(m.conv), 1
            add(f"fw_conv_N{n}" + ("_bn" if bn else ""), f"Shapes.convNet 3 1 {'true' if bn else 'false'} {n}", b)
    for repl in (True, False):
        for inorm in (False, True):
            for layers in (1, 2, 3):
                def b(repl=repl, inorm=inorm, layers=layers):
                    m = imports()["Conv2dGRU"](4, 4, 2, num_layers=layers, instance_norm=inorm, replication_padding=repl,
                                               dense_connect=1 if layers == 2 else 0)
                    return m, list(m.conv_blocks), 2
                add(f"fw_gru_{'repl' if repl else 'zero'}_{'in' if inorm else 'noin'}_{layers}",
                    f"Shapes.gru {'true' if repl else 'false'} {'true' if inorm else 'false'} {layers}", b)

    def b():
        m = imports()["NormConv2dGRU"](4, 4, 2, num_layers=2)
        return m, list(m.convgru.conv_blocks), 2
    add("fw_normgru_2", "Shapes.gru true false 2", b)
    return specs


def forward_programs():
    """(lean text, status) for all forward programs; torch and the repo are imported here, lazily."""
    chunks, status = [], {}
    try:
        import warnings
        warnings.filterwarnings("ignore")
        import boot  # noqa: F401
        import torch  # noqa: F401

        from .c17_forward import trace_forward
        ok = None
    except Exception as e:  # noqa: BLE001
        ok = f"cannot import the implementation: {type(e).__name__}: {e}"
    for name, fallback, build in forward_specs():
        try:
            if ok is not None:
                raise Untranslatable(ok)
            try:
                mod, hooks, nin = build()
            except Untranslatable:
                raise
            except Exception as e:  # noqa: BLE001
                raise Untranslatable(f"cannot instantiate: {type(e).__name__}: {e}")
            mod.eval()
            try:
                ops = trace_forward(mod, n_inputs=nin, hooked=hooks)
            except Untranslatable:
                raise
            except Exception as e:  # noqa: BLE001
                raise Untranslatable(f"interpreter error {type(e).__name__}: {e}")
            chunks.append(f"/-- `forward` of `{type(mod).__name__}` interpreted on an instantiated module -/\n"
                          f"def {name} : List Shapes.Op :=\n  [" + ", ".join(ops) + "]\n")
            status[name] = "translated"
        except Untranslatable as e:
            chunks.append(f"/-- SKIPPED ({str(e)[:200]}) -/\ndef {name} : List Shapes.Op := {fallback}\n")
            status[name] = f"skipped: {str(e)[:200]}"
    return "\n".join(chunks), status


# ---- channel programs (AST of `forward` interpreted on instantiated modules with channel-carrying tokens; c17_channels.py) --
def channel_specs():
    """[(lean name, fallback Lean term, thunk building (module, hooked modules, n tensor inputs, in_channels, state channels))]
    — widths are pairwise different wherever the architecture allows, so that a swapped pair of widths shows"""
    specs = []

    def b(v):
        return "true" if v else "false"

    def unet_hooks(u):
        return list(u.down_sample_layers) + [u.conv] + list(u.up_transpose_conv) + list(u.up_conv)

    def add(name, fallback, build):
        specs.append((name, fallback, build))

    for cin, cout, F, L in [(2, 2, 2, 1), (3, 5, 2, 2), (2, 2, 3, 3), (4, 2, 2, 4)]:
        def bu(cin=cin, cout=cout, F=F, L=L):
            from direct.nn.unet.unet_2d import UnetModel2d
            m = UnetModel2d(cin, cout, F, L, 0.0)
            return m, unet_hooks(m), 1, cin, None
        add(f"fwc_unet2d_{cin}_{cout}_{F}_L{L}", f"Shapes.unetC {cin} {cout} {F} {L}", bu)
    # MultiDomainUnet2d: every MultiDomainConv2d is a pair of convolutions with `out_channels // 2` filters on the same input
    for cin, cout, F, L in [(2, 2, 4, 1), (4, 3, 2, 2), (2, 5, 6, 3), (6, 2, 4, 0)]:
        def bu(cin=cin, cout=cout, F=F, L=L):
            from direct.data.transforms import fft2, ifft2
            from direct.nn.multidomainnet.multidomain import MultiDomainUnet2d
            m = MultiDomainUnet2d(fft2, ifft2, cin, cout, F, L, 0.0)
            return m, unet_hooks(m), 1, cin, None
        add(f"fwc_mdunet_{cin}_{cout}_{F}_L{L}", f"Shapes.mdUnetC {cin} {cout} {F} {L}", bu)
    for cin, cout, F, L in [(2, 2, 2, 2), (6, 2, 3, 1), (4, 4, 2, 4)]:
        def bu(cin=cin, cout=cout, F=F, L=L):
            from direct.nn.unet.unet_2d import NormUnetModel2d
            m = NormUnetModel2d(cin, cout, F, L, 0.0)
            return m, unet_hooks(m.unet2d) + [m.unet2d], 1, cin, None
        add(f"fwc_normunet2d_{cin}_{cout}_{F}_L{L}", f"Shapes.normUnetC {cin} {cout} {F} {L}", bu)
    for cin, cout, F, L in [(2, 2, 2, 1), (3, 2, 2, 2), (6, 2, 3, 3)]:
        def bu(cin=cin, cout=cout, F=F, L=L):
            from direct.nn.unet.unet_3d import UnetModel3d
            m = UnetModel3d(cin, cout, F, L, 0.0)
            return m, unet_hooks(m), 1, cin, None
        add(f"fwc_unet3d_{cin}_{cout}_{F}_L{L}", f"Shapes.unetC {cin} {cout} {F} {L}", bu)
    for cin, cout, F, L in [(2, 2, 2, 1), (6, 2, 3, 2)]:
        def bu(cin=cin, cout=cout, F=F, L=L):
            from direct.nn.unet.unet_3d import NormUnetModel3d
            m = NormUnetModel3d(cin, cout, F, L, 0.0)
            return m, unet_hooks(m.unet3d) + [m.unet3d], 1, cin, None
        add(f"fwc_normunet3d_{cin}_{cout}_{F}_L{L}", f"Shapes.normUnetC {cin} {cout} {F} {L}", bu)
    for bn, cin, F, S in [(False, 2, 2, 1), (False, 2, 3, 2), (False, 4, 2, 3), (True, 2, 2, 3), (False, 2, 2, 4), (True, 6, 3, 2),
                          (False, 2, 2, 5)]:
        def bu(bn=bn, cin=cin, F=F, S=S):
            from direct.nn.mwcnn.mwcnn import MWCNN
            m = MWCNN(cin, F, num_scales=S, batchnorm=bn)
            return m, [m.DWT, m.IWT] + list(m.down) + list(m.up), 1, cin, None
        add(f"fwc_mwcnn_{cin}_{F}_S{S}" + ("_bn" if bn else ""), f"Shapes.mwcnnC {b(bn)} {cin} {F} {S}", bu)
    for c, e in [(4, True), (3, False)]:
        def bu(c=c, e=e):
            from direct.nn.didn.didn import DUB
            m = DUB(c, c)
            return m, ([ch for _n, ch in m.named_children()] if e else []), 1, c, None
        add(f"fwc_dub_{c}_" + ("hooked" if e else "plain"), f"Shapes.dubC {c} {b(e)}", bu)
    for cin, cout, c, nd, nc, skip in [(2, 2, 4, 1, 1, False), (2, 2, 4, 1, 2, True), (2, 2, 4, 2, 3, True), (2, 4, 3, 3, 2, True),
                                      (3, 3, 2, 4, 1, True), (2, 2, 3, 3, 1, False)]:
        def bu(cin=cin, cout=cout, c=c, nd=nd, nc=nc, skip=skip):
            from direct.nn.didn.didn import DIDN
            m = DIDN(cin, cout, hidden_channels=c, num_dubs=nd, num_convs_recon=nc, skip_connection=skip)
            return m, [m.conv_in, m.down] + list(m.dubs) + [m.recon_block, m.recon_agg, m.conv, m.up2, m.conv_out], 1, cin, None
        # the effective skip flag of the module is `in_channels == out_channels and skip_connection`
        add(f"fwc_didn_{cin}_{cout}_{c}_{nd}_{nc}_{'skip' if skip else 'noskip'}",
            f"Shapes.didnC {cin} {cout} {c} {nd} {nc} {b(skip and cin == cout)}", bu)
    for cin, cout, h, bn, nb in [(2, 2, 4, True, 1), (2, 3, 4, True, 2), (3, 3, 5, False, 3), (2, 5, 3, True, 4)]:
        def bu(cin=cin, cout=cout, h=h, bn=bn, nb=nb):
            from direct.nn.resnet.resnet import ResNet
            m = ResNet(hidden_channels=h, in_channels=cin, out_channels=cout, num_blocks=nb, batchnorm=bn)
            return m, [m.conv_in, m.resblocks, m.conv_out], 1, cin, None
        add(f"fwc_resnet_{cin}_{cout}_{h}_B{nb}" + ("" if bn else "_nobn"), f"Shapes.resnetC {cin} {cout} {h} {b(bn)} {nb - 1}", bu)
    for cin, cout, h, bn, n in [(2, 2, 4, False, 1), (2, 3, 4, True, 2), (3, 2, 5, False, 3), (2, 2, 4, True, 4), (2, 3, 4, True, 1)]:
        def bu(cin=cin, cout=cout, h=h, bn=bn, n=n):
            from direct.nn.conv.conv import Conv2d
            m = Conv2d(cin, cout, h, n_convs=n, batchnorm=bn)
            return m, list(m.conv), 1, cin, None
        add(f"fwc_conv_{cin}_{cout}_{h}_N{n}" + ("_bn" if bn else ""), f"Shapes.convNetC {cin} {cout} {h} {b(bn)} {n}", bu)
    # Conv2dGRU: no hand-written channel program (the gates' element-wise algebra makes it long); the bridge checks that the
    # program read from `forward` runs, leaves no register behind and shows the hidden / output widths at the hooks
    for cin, h, cout, layers, dense, norm in [(4, 3, 2, 1, 0, False), (4, 3, 2, 2, 0, False), (4, 3, 2, 2, 1, False), (4, 5, 2, 3, 2, False),
                                              (4, 3, 2, 3, 1, False), (4, 3, 2, 2, 1, True), (6, 4, 3, 4, 3, False)]:
        def bu(cin=cin, h=h, cout=cout, layers=layers, dense=dense, norm=norm):
            from direct.nn.recurrent.recurrent import Conv2dGRU, NormConv2dGRU
            m = (NormConv2dGRU if norm else Conv2dGRU)(cin, h, cout, num_layers=layers, dense_connect=dense)
            return m, list(getattr(m, "convgru", m).conv_blocks), 2, cin, h
        add(f"fwc_gru_{cin}_{h}_{cout}_L{layers}_d{dense}" + ("_norm" if norm else ""),
            f"Shapes.gruChanFallback {cin} {h} {cout} {layers}", bu)
    # learned initialisers (dilated convolutions, multi-scale concatenation `channels[-multiscale_depth:]`): instance checks
    for kind, cin, cout, chs, dil, ms, depth in [("lagrange", 2, 2, (2, 3, 4, 5), (1, 1, 2, 4), 1, 0), ("lagrange", 2, 3, (2, 3, 4), (1, 2, 4), 3, 0),
                                                ("lagrange", 2, 2, (3, 4, 5, 6), (1, 1, 2, 4), 2, 0), ("lagrange3d", 2, 2, (2, 3, 4), (1, 1, 2), 2, 0),
                                                ("riminit", 2, 5, (2, 3, 4), (1, 1, 2), 2, 2), ("recurrentinit", 2, 4, (2, 3, 4, 6), (1, 1, 2, 4), 3, 3)]:
        def bu(kind=kind, cin=cin, cout=cout, chs=chs, dil=dil, ms=ms, depth=depth):
            if kind == "lagrange":
                from direct.nn.vsharp.vsharp import LagrangeMultipliersInitializer as C
                m = C(cin, cout, channels=chs, dilations=dil, multiscale_depth=ms)
            elif kind == "lagrange3d":
                from direct.nn.vsharp.vsharp import LagrangeMultipliersInitializer3D as C
                m = C(cin, cout, channels=chs, dilations=dil, multiscale_depth=ms)
            elif kind == "riminit":
                from direct.nn.rim.rim import RIMInit
                m = RIMInit(cin, cout, channels=chs, dilations=dil, depth=depth, multiscale_depth=ms)
            else:
                from direct.nn.recurrentvarnet.recurrentvarnet import RecurrentInit
                m = RecurrentInit(cin, cout, channels=chs, dilations=dil, depth=depth, multiscale_depth=ms)
            return m, [], 1, cin, None
        fb = (f"Shapes.lagrangeC {cin} {cout} {list(chs)} {ms}" if kind.startswith("lagrange") else f"[Shapes.COp.conv {cin} {cout}]")
        add(f"fwc_{kind}_{cin}_{cout}_ms{ms}", fb, bu)
    return specs


def channel_programs():
    chunks, status = [], {}
    try:
        import warnings
        warnings.filterwarnings("ignore")
        import boot  # noqa: F401
        import torch  # noqa: F401

        from .c17_channels import trace_channels
        ok = None
    except Exception as e:  # noqa: BLE001
        ok = f"cannot import the implementation: {type(e).__name__}: {e}"
    for name, fallback, build in channel_specs():
        try:
            if ok is not None:
                raise Untranslatable(ok)
            try:
                mod, hooks, nin, cin, sch = build()
            except Untranslatable:
                raise
            except Exception as e:  # noqa: BLE001
                raise Untranslatable(f"cannot instantiate: {type(e).__name__}: {e}")
            mod.eval()
            try:
                ops = trace_channels(mod, cin, n_inputs=nin, hooked=hooks, state_channels=sch)
            except Untranslatable:
                raise
            except Exception as e:  # noqa: BLE001
                raise Untranslatable(f"interpreter error {type(e).__name__}: {e}")
            chunks.append(f"/-- channel program of `{type(mod).__name__}.forward` interpreted on an instantiated module -/\n"
                          f"def {name} : List Shapes.COp :=\n  [" + ", ".join(ops) + "]\n")
            status[name] = "translated"
        except Untranslatable as e:
            chunks.append(f"/-- SKIPPED ({str(e)[:200]}) -/\ndef {name} : List Shapes.COp := {fallback}\n")
            status[name] = f"skipped: {str(e)[:200]}"
    return "\n".join(chunks), status


# ---- structural table: every size-changing functional call in direct/nn sits in a function the shape model covers -------
_SIZE_CALLS = ("F.pad", "F.interpolate", "F.avg_pool2d", "F.avg_pool3d", "F.max_pool2d", "F.max_pool3d", "F.unfold", "F.fold",
               "F.pixel_shuffle", "F.pixel_unshuffle", "F.adaptive_avg_pool2d", "torch.nn.functional.pad", "nn.functional.pad",
               "torch.nn.functional.interpolate", "nn.functional.interpolate")


def _functions_of(tree):
    """{qualified name: FunctionDef} of a module"""
    out = {}

    def visit(node, qual):
        for child in ast.iter_child_nodes(node):
            if isinstance(child, (ast.FunctionDef, ast.AsyncFunctionDef)):
                out[(qual + "." if qual else "") + child.name] = child
                visit(child, (qual + "." if qual else "") + child.name)
            elif isinstance(child, ast.ClassDef):
                visit(child, (qual + "." if qual else "") + child.name)
    visit(tree, "")
    return out


def _calls_helper(fn, helper):
    """does `fn` call `self.<helper>` / `<Class>.<helper>` / `<helper>`?"""
    for n in ast.walk(fn):
        if isinstance(n, ast.Call):
            f = n.func
            if (isinstance(f, ast.Attribute) and f.attr == helper) or (isinstance(f, ast.Name) and f.id == helper):
                return True
    return False


def _public_callers(funcs, qual):
    """a call inside a private helper (`_name`, same class / module) belongs to the functions that reach the helper: extracting
    a statement into a helper does not create a new site"""
    seen, todo, out = set(), [qual], []
    while todo:
        q = todo.pop()
        if q in seen:
            continue
        seen.add(q)
        name = q.rsplit(".", 1)[-1]
        scope = q.rsplit(".", 1)[0] if "." in q else ""
        private = name.startswith("_") and not name.startswith("__")
        callers = [c for c, fn in funcs.items() if c != q and _calls_helper(fn, name)
                   and (c.rsplit(".", 1)[0] if "." in c else "") == scope] if private else []
        if callers:
            todo.extend(callers)
        else:
            out.append(q)
    return sorted(set(out))


def size_sites():
    """[(file relative to direct/nn, qualified function, call)] for every functional pad / pool / interpolate / fold call under
    direct/nn (mobilenet excluded: a classifier, not part of the reconstruction zoo); calls inside private helpers are attributed
    to the public functions that reach them"""
    rows = []
    root = REPO / "direct" / "nn"
    for path in sorted(root.rglob("*.py")):
        rel = str(path.relative_to(root))
        if rel.startswith("mobilenet"):
            continue
        funcs = _functions_of(parse_file(path))
        for qual, fn in funcs.items():
            for n in ast.walk(fn):
                if isinstance(n, ast.Call) and ast.unparse(n.func) in _SIZE_CALLS:
                    # nested defs are visited on their own
                    owner = [q for q, f2 in funcs.items() if q.startswith(qual + ".") and any(m is n for m in ast.walk(f2))]
                    if owner:
                        continue
                    for q in _public_callers(funcs, qual):
                        rows.append((rel, q, ast.unparse(n.func)))
    return sorted(set(rows))


def size_site_table():
    try:
        rows = size_sites()
        status = {"size_sites": "translated"}
    except Exception as e:  # noqa: BLE001
        rows = None
        status = {"size_sites": f"skipped: {type(e).__name__}: {str(e)[:120]}"}
    if rows is None:
        return "/-- SKIPPED -/\ndef size_sites : List (String × String × String) := []\n", status
    body = ", ".join(f'("{f}", "{q}", "{c}")' for f, q, c in rows)
    return ("/-- every functional pad / pool / interpolate / fold call under `direct/nn` (file, function, call) -/\n"
            f"def size_sites : List (String × String × String) :=\n  [{body}]\n"), status


def schedule_tables():
    """block schedules of the unrolled zoo models, read from the AST of each `forward` (c17_sched.py)"""
    chunks, status = [], {}
    try:
        import warnings
        warnings.filterwarnings("ignore")
        import boot  # noqa: F401

        from props import c17_zoo as X
        from props import zoo_common as Z

        from .c17_sched import io_channels, scan_schedule_full
        entries = Z.recons() + Z.recons3d() + X.schedule_entries()
        err = None
    except Exception as e:  # noqa: BLE001
        entries, err = [], f"cannot import the implementation: {type(e).__name__}: {e}"
        status["sched_tables"] = "skipped: " + err
    perms = set()
    pairs = set()
    dom_name = {0: ".image", 1: ".perCoil", 2: ".coilBatch"}
    for e in entries:
        name = "sched_" + Z.lean_ident(e.name)
        fallback = None
        try:
            m = e.model()
            term = X.sched_term(e, m)
            sch = X.schedule(e, m)
            if term is None or sch is None:
                continue
            fallback = f"Shapes.Sched.blocks ({term[0]}) {term[1]}"
            calls = scan_schedule_full(m, sch[0])
            cache = {}
            items = []
            for mod, dom, perm, operm in calls:
                pairs.add((e.name.split("/")[0], dom, tuple(perm) if perm is not None else (), tuple(operm) if operm is not None else ()))
                if id(mod) not in cache:
                    cache[id(mod)] = io_channels(mod)
                cin, cout = cache[id(mod)]
                items.append(f"⟨{dom_name[dom]}, {cin}, {cout}⟩")
                perms.add((dom, tuple(perm) if perm is not None else ()))
            chunks.append(f"/-- block schedule of `{e.name}` read from `{type(m).__name__}.forward` -/\n"
                          f"def {name} : List Shapes.Block :=\n  [" + ", ".join(items) + "]\n")
            status[name] = "translated"
        except Untranslatable as ex:
            if fallback is None:
                continue
            chunks.append(f"/-- SKIPPED ({str(ex)[:160]}) -/\ndef {name} : List Shapes.Block := {fallback}\n")
            status[name] = f"skipped: {str(ex)[:160]}"
        except Exception as ex:  # noqa: BLE001
            if fallback is None:
                continue
            chunks.append(f"/-- SKIPPED ({type(ex).__name__}) -/\ndef {name} : List Shapes.Block := {fallback}\n")
            status[name] = f"skipped: {type(ex).__name__}: {str(ex)[:120]}"
    if err is None:
        rows = sorted(perms)
        chunks.append("/-- (domain, permute literal applied to the argument of the denoiser) pairs found across the zoo -/\n"
                      "def sched_permutes : List (Nat × List Nat) :=\n  ["
                      + ", ".join(f"({d}, {list(p)})" for d, p in rows) + "]\n")
        status["sched_permutes"] = "translated"
        chunks.append("/-- (family, domain, permute of the denoiser's argument, permute of its result) found across the zoo -/\n"
                      "def sched_permute_pairs : List (String × Nat × List Nat × List Nat) :=\n  ["
                      + ", ".join(f'("{f}", {d}, {list(p)}, {list(o)})' for f, d, p, o in sorted(pairs)) + "]\n")
        status["sched_permute_pairs"] = "translated"
    else:
        chunks.append("def sched_permute_pairs : List (String × Nat × List Nat × List Nat) := []\n")
        chunks.append("def sched_permutes : List (Nat × List Nat) := [(0, [0, 3, 1, 2]), (0, [0, 4, 1, 2, 3]), (1, [0, 1, 4, 2, 3])]\n")
    return "\n".join(chunks), status


def _extra_all():
    t1, s1 = _extra()
    t2, s2 = forward_programs()
    t3, s3 = schedule_tables()
    t4, s4 = channel_programs()
    t5, s5 = size_site_table()
    s1.update(s5)
    s1.update(s2)
    s1.update(s3)
    s1.update(s4)
    return t1 + "\n" + t5 + "\n" + t2 + "\n" + t4 + "\n" + t3, s1


EXTRA["C17"] = _extra_all
