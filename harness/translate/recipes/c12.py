"""C12 translation recipes: H5SliceData.parse_filenames_data / get_slice_data, ConcatDataset, seed plumbing.

Integer arithmetic is emitted as Lean `def`s (bridged to Model/Dataset.lean by `omega`), everything structural
(what is iterated, what is tested, which stream a draw uses, whether `seed` is handed on) as Bool tables.
"""
from __future__ import annotations

import ast

from ..gen import EXTRA, REPO, Kernel, Untranslatable, all_stmts, assign_value, find_assign, guard_condition, register
from ..pyexpr import ExprTr, emit_def, find_function, parse_file, translate_block
from . import c12_norm as N

H5 = "direct/data/h5_data.py"
DS = "direct/data/datasets.py"
FK = "direct/data/fake.py"
SN = "direct/data/sens.py"
IMP = ("DirectVerif.Model.Dataset",)


def _txt(node) -> str:
    return ast.unparse(node).replace(" ", "")


# ---------------------------------------------------------------------------------------------
# get_slice_data: window bounds, guards, fill lengths
_W_BINDS = {"slice_no": "s", "self.kspace_context": "c", "num_slices": "n", "curr_shape[0]": "len"}


def _window_read(fn: ast.FunctionDef) -> ast.Slice:
    """the `lo:hi` of `curr_data = data[key][lo:hi, ]`"""
    for st in all_stmts(fn):
        if isinstance(st, ast.Assign) and _txt(st.targets[0]) == "curr_data" and isinstance(st.value, ast.Subscript):
            sl = st.value.slice
            if isinstance(sl, ast.Tuple) and len(sl.elts) == 1:
                sl = sl.elts[0]
            if isinstance(sl, ast.Slice) and sl.step is None and sl.lower is not None and sl.upper is not None:
                if _txt(st.value.value) != "data[key]":
                    raise Untranslatable("window is not read from data[key]")
                return sl
    raise Untranslatable("`curr_data = data[key][lo:hi]` not found")


def _short_if(fn: ast.FunctionDef) -> ast.If:
    """the `if curr_shape[0] < …:` that contains the two zero-fill ifs"""
    for st in all_stmts(fn):
        if isinstance(st, ast.If) and "curr_shape" in _txt(st.test):
            inner = [s for s in st.body if isinstance(s, ast.If)]
            if len(inner) == 2 and len(st.body) == 2 and not st.orelse:
                return st
    raise Untranslatable("zero-fill block `if curr_shape[0] < …: if …: if …:` not found")


def _fill_if(fn: ast.FunctionDef, which: int) -> tuple[ast.If, ast.expr]:
    st = [s for s in _short_if(fn).body if isinstance(s, ast.If)][which]
    if st.orelse:
        raise Untranslatable("zero-fill if has an else branch")
    length = None
    for s in st.body:
        if isinstance(s, ast.Assign) and _txt(s.targets[0]) == "new_shape[0]":
            length = s.value
    if length is None:
        raise Untranslatable("`new_shape[0] = …` not found")
    return st, length


_FACTS_CACHE: dict = {}


def _facts() -> "N.WindowFacts":
    """window facts of the current tree (cached per source text)"""
    src = (REPO / H5).read_text()
    if _FACTS_CACHE.get("src") != src:
        _FACTS_CACHE.clear()
        _FACTS_CACHE["src"] = src
        try:
            _FACTS_CACHE["facts"] = N.window_facts(parse_file(REPO / H5))
        except Untranslatable as e:
            _FACTS_CACHE["error"] = str(e)
    if "facts" not in _FACTS_CACHE:
        raise Untranslatable(_FACTS_CACHE["error"])
    return _FACTS_CACHE["facts"]


def _w_kernel(name, params, fallback, key, ret="Int"):
    def build(k: Kernel, fn: ast.FunctionDef) -> str:
        F = _facts()
        tr = ExprTr(F.binds)
        node = F.exprs[key]
        return emit_def(k.name, k.params, [], tr.bool(node) if ret == "Bool" else tr.int(node), ret)

    return Kernel(name, H5, "H5SliceData.get_slice_data", params, fallback, build, ret_type=ret, imports=IMP)


_WP = ["s", "c", "n", "len"]

register("C12", [
    _w_kernel("window_lo", _WP, "(fun s c _ _ => Dataset.windowLo s c)", "lo"),
    _w_kernel("window_hi", _WP, "(fun s c n _ => Dataset.windowHi s c n)", "hi"),
    _w_kernel("window_short", _WP, "(fun _ c _ len => Dataset.windowShort len c)", "short", "Bool"),
    _w_kernel("fill_before_guard", _WP, "(fun s c _ _ => Dataset.fillBeforeGuard s c)", "before_guard", "Bool"),
    _w_kernel("fill_before_len", _WP, "(fun s c _ _ => Dataset.fillBeforeLen s c)", "before_len"),
    _w_kernel("fill_after_guard", _WP, "(fun s c n _ => Dataset.fillAfterGuard s c n)", "after_guard", "Bool"),
    _w_kernel("fill_after_len", _WP, "(fun s c n _ => Dataset.fillAfterLen s c n)", "after_len"),
])

# ---------------------------------------------------------------------------------------------
# ConcatDataset.__getitem__ / cumsum
_C_BINDS = {"idx": "idx", "len(self)": "len", "dataset_idx": "d", "self.cumulative_sizes[dataset_idx - 1]": "prev",
            "self.cumulative_sizes[dataset_idx]": "curc"}


def _accumulate_gen(fn: ast.FunctionDef):
    """`return list(itertools.accumulate(<len(item) for item in sequence>))` (plain running sum) -> the generator, else None"""
    rets = [n.value for n in ast.walk(fn) if isinstance(n, ast.Return) and n.value is not None]
    if len(rets) != 1:
        return None
    v = rets[0]
    if isinstance(v, ast.Call) and _txt(v.func) == "list" and len(v.args) == 1 and not v.keywords:
        v = v.args[0]
    if isinstance(v, ast.Call) and _txt(v.func) in ("itertools.accumulate", "accumulate") and len(v.args) == 1 and not v.keywords \
            and isinstance(v.args[0], (ast.GeneratorExp, ast.ListComp)) and len(v.args[0].generators) == 1 \
            and not v.args[0].generators[0].ifs:
        return v.args[0]
    return None


def _cumsum_append(k: Kernel, fn: ast.FunctionDef) -> str:
    tr = ExprTr({"length": "length", "total": "total"})
    if _accumulate_gen(fn) is not None:       # accumulate: the k-th output is the running total after adding the k-th length
        return emit_def(k.name, k.params, [], "(total + length)")
    for st in all_stmts(fn):
        if (isinstance(st, ast.Expr) and isinstance(st.value, ast.Call) and _txt(st.value.func) == "out_sequence.append"
                and len(st.value.args) == 1):
            return emit_def(k.name, k.params, [], tr.int(st.value.args[0]))
    raise Untranslatable("`out_sequence.append(…)` not found")


def _cumsum_total(k: Kernel, fn: ast.FunctionDef) -> str:
    tr = ExprTr({"length": "length", "total": "total"})
    if _accumulate_gen(fn) is not None:
        return emit_def(k.name, k.params, [], "(total + length)")
    for st in all_stmts(fn):
        if isinstance(st, ast.AugAssign) and _txt(st.target) == "total":
            return emit_def(k.name, k.params, [], tr.int(ast.BinOp(left=st.target, op=st.op, right=st.value)))
    raise Untranslatable("`total += …` not found")


def _concat_locals(fn: ast.FunctionDef):
    """the top-level single-assignment locals of `__getitem__` with plain right-hand sides (`total_size = len(self)`, …),
    to be substituted before translating"""
    env = N.Env()
    for st in fn.body:
        if isinstance(st, ast.Assign):
            env.note(st)
    env.env.pop("idx", None)
    return ExprTr(_C_BINDS), env


def _concat_prefix(fn: ast.FunctionDef) -> dict:
    """what happens to `idx` before the bisection, in either shape
        if idx < 0: [if R: raise E]; idx = S            (nested)
        if R': raise E;  if idx < 0: idx = S            (flattened; the guard comes first, so it sees the index as given)
    -> {"reject": effective condition under which E is raised, "shift": S, "raises": text of the raise}"""
    env = N.Env()
    guard = neg = None
    for st in fn.body:
        if isinstance(st, ast.Expr) and isinstance(st.value, ast.Constant):
            continue
        if isinstance(st, ast.Assign) and len(st.targets) == 1 and isinstance(st.targets[0], ast.Name):
            if st.targets[0].id == "dataset_idx":
                break
            if st.targets[0].id == "idx":
                raise Untranslatable("`idx` is rebound outside the negative branch")
            env.note(st)
            continue
        if isinstance(st, ast.If) and not st.orelse and len(st.body) == 1 and isinstance(st.body[0], ast.Raise) \
                and guard is None and neg is None:
            guard = st
            continue
        if isinstance(st, ast.If) and not st.orelse and _txt(st.test) == "idx<0" and neg is None:
            neg = st
            continue
        raise Untranslatable(f"statement before the bisection not understood: `{ast.unparse(st)[:60]}`")
    if neg is None:
        raise Untranslatable("`if idx < 0:` not found before the bisection")
    shift = None
    for st in neg.body:
        if isinstance(st, ast.If) and not st.orelse and len(st.body) == 1 and isinstance(st.body[0], ast.Raise) and guard is None \
                and shift is None:
            guard = ast.If(test=ast.BoolOp(op=ast.And(), values=[neg.test, st.test]), body=st.body, orelse=[])
            continue
        if isinstance(st, ast.Assign) and _txt(st.targets[0]) == "idx" and shift is None:
            shift = st.value
            continue
        if isinstance(st, ast.AugAssign) and _txt(st.target) == "idx" and shift is None:
            shift = ast.BinOp(left=st.target, op=st.op, right=st.value)
            continue
        raise Untranslatable(f"statement in the negative branch not understood: `{ast.unparse(st)[:60]}`")
    if guard is None or shift is None:
        raise Untranslatable("guard or shift of the negative branch not found")
    return {"reject": env.resolve(guard.test), "shift": env.resolve(shift), "raises": _txt(guard.body[0])}


def _concat_neg_reject(k: Kernel, fn: ast.FunctionDef) -> str:
    return emit_def(k.name, k.params, [], ExprTr(_C_BINDS).bool(_concat_prefix(fn)["reject"]), "Bool")


def _concat_neg_idx(k: Kernel, fn: ast.FunctionDef) -> str:
    return emit_def(k.name, k.params, [], ExprTr(_C_BINDS).int(_concat_prefix(fn)["shift"]))


def _concat_item_index(fn: ast.FunctionDef) -> ast.expr:
    """the local index handed to the member, as one decision tree: every `return` must be `self.datasets[M][I]` with `M` the
    bisect result (or the constant it is known to equal on that branch)"""
    body = list(fn.body)
    at = next((i for i, st in enumerate(body) if isinstance(st, ast.Assign) and _txt(st.targets[0]) == "dataset_idx"), None)
    if at is None:
        raise Untranslatable("`dataset_idx = …` not found")
    env = N.Env()
    tail = []
    for st in body[at + 1:]:
        if isinstance(st, ast.Assign) and len(st.targets) == 1 and isinstance(st.targets[0], ast.Name):
            env.note(st)
            if st.targets[0].id not in env.env:
                raise Untranslatable(f"`{st.targets[0].id}` is not a plain local")
            continue
        tail.append(st)
    expr = N.returns_to_expr(tail)
    if expr is None:
        raise Untranslatable("the tail of __getitem__ is not a decision tree of returns")
    expr = env.resolve(expr)

    def idx_of(e, known: dict[str, str]):
        if isinstance(e, ast.IfExp):
            t = _txt(e.test)
            kn = dict(known)
            if t.startswith("dataset_idx==") and t[len("dataset_idx=="):].lstrip("-").isdigit():
                kn["dataset_idx"] = t[len("dataset_idx=="):]
            return ast.IfExp(test=e.test, body=idx_of(e.body, kn), orelse=idx_of(e.orelse, known))
        if isinstance(e, ast.Subscript) and isinstance(e.value, ast.Subscript) and _txt(e.value.value) == "self.datasets":
            m = _txt(e.value.slice)
            if m == "dataset_idx" or (m == known.get("dataset_idx")):
                return e.slice
        raise Untranslatable(f"`{ast.unparse(e)}` is not an item of the located member")

    return idx_of(expr, {})


def _concat_sample_idx(k: Kernel, fn: ast.FunctionDef) -> str:
    tr, env = _concat_locals(fn)
    return emit_def(k.name, k.params, [], tr.int(env.resolve(_concat_item_index(fn))))


register("C12", [
    Kernel("concat_neg_reject", DS, "ConcatDataset.__getitem__", ["idx", "len"],
           "(fun idx len => decide (idx < 0) && Dataset.concatNegReject idx len)", _concat_neg_reject, ret_type="Bool", imports=IMP),
    Kernel("concat_neg_idx", DS, "ConcatDataset.__getitem__", ["idx", "len"], "Dataset.concatNegIdx",
           _concat_neg_idx, imports=IMP),
    Kernel("concat_sample_idx", DS, "ConcatDataset.__getitem__", ["idx", "d", "prev", "curc"],
           "(fun idx d prev _ => Dataset.concatSampleIdx idx d prev)", _concat_sample_idx, imports=IMP),
    Kernel("cumsum_append", DS, "ConcatDataset.cumsum", ["length", "total"], "(fun l t => l + t)", _cumsum_append, imports=IMP),
    Kernel("cumsum_total", DS, "ConcatDataset.cumsum", ["length", "total"], "(fun l t => t + l)", _cumsum_total, imports=IMP),
])


# ---------------------------------------------------------------------------------------------
# parse_filenames_data: arithmetic of the volume ranges
def _vol_range(fn: ast.FunctionDef) -> ast.Call:
    st = find_assign(fn, "self.volume_indices[filename]")
    v = st.value
    if not (isinstance(v, ast.Call) and _txt(v.func) == "range" and len(v.args) == 2 and not v.keywords):
        raise Untranslatable("`self.volume_indices[filename] = range(a, b)` not found")
    return v


_P_BINDS = {"current_slice_number": "cur", "num_slices": "num"}


def _p_kernel(name, fallback, pick):
    def build(k: Kernel, fn: ast.FunctionDef) -> str:
        return emit_def(k.name, k.params, [], ExprTr(_P_BINDS).int(pick(fn)))

    return Kernel(name, H5, "H5SliceData.parse_filenames_data", ["cur", "num"], fallback, build, imports=IMP)


def _next_cur(fn: ast.FunctionDef):
    for st in all_stmts(fn):
        if isinstance(st, ast.AugAssign) and _txt(st.target) == "current_slice_number":
            return ast.BinOp(left=st.target, op=st.op, right=st.value)
    raise Untranslatable("`current_slice_number += …` not found")


register("C12", [
    _p_kernel("parse_vol_start", "(fun cur _ => cur)", lambda fn: _vol_range(fn).args[0]),
    _p_kernel("parse_vol_stop", "(fun cur num => cur + num)", lambda fn: _vol_range(fn).args[1]),
    _p_kernel("parse_next_cur", "(fun cur num => cur + num)", _next_cur),
])


# ---------------------------------------------------------------------------------------------
# phase 3: the synthetic datasets — number of blob samples, slices per generated volume
def _fake_num_slices(k: Kernel, fn: ast.FunctionDef) -> str:
    """`num_slices = <expr>` with private helper methods (decision trees of returns) inlined"""
    st = find_assign(fn, "num_slices")
    node = N.inline_expr_calls(st.value, parse_file(REPO / DS), "FakeMRIBlobsDataset")
    tr = ExprTr({"len(self.spatial_shape)": "ndim", "self.spatial_shape[0]": "shape0"})
    return emit_def(k.name, k.params, [], tr.int(node))


register("C12", [
    Kernel("blobs_n_samples", FK, "FakeMRIData.make_blobs", ["given", "total", "ndim"], "Dataset.blobsNSamples",
           assign_value({"self.blobs_n_samples": "given", "np.prod(list(spatial_shape))": "total", "self.ndim": "ndim"},
                        "n_samples"), imports=IMP),
    Kernel("fake_num_slices", DS, "FakeMRIBlobsDataset.parse_filenames_data", ["ndim", "shape0"], "Dataset.fakeNumSlices",
           lambda k, fn: _fake_num_slices(k, fn), imports=IMP),
])

# ---------------------------------------------------------------------------------------------
# structural tables
import re as _re

_STREAM_CTORS = ("np.random.RandomState", "np.random.default_rng")


def _global_draw(f: str) -> bool:
    """a call of a module-level function of numpy's global stream (`np.random.randn(...)`), not a constructor"""
    return bool(_re.fullmatch(r"np\.random\.\w+", f)) and f not in _STREAM_CTORS


def _calls(fn, pred):
    return [n for n in ast.walk(fn) if isinstance(n, ast.Call) and pred(_txt(n.func))]


def _arg(call: ast.Call, pos: int | None, kw: str | None):
    if kw is not None:
        for k in call.keywords:
            if k.arg == kw:
                return k.value
    if pos is not None and len(call.args) > pos:
        return call.args[pos]
    return None


def _parse_table(tree) -> dict[str, bool]:
    fn = find_function(tree, "H5SliceData.parse_filenames_data")
    loop = next((s for s in fn.body if isinstance(s, ast.For)), None)
    t: dict[str, bool] = {}
    t["loop_over_filenames"] = loop is not None and _txt(loop.iter) == "enumerate(filenames)" and _txt(loop.target) == "(idx,filename)"
    body = loop.body if loop is not None else []
    # counter initialised to 0 before the loop
    t["counter_starts_at_zero"] = any(isinstance(s, ast.Assign) and _txt(s.targets[0]) == "current_slice_number"
                                      and _txt(s.value) == "0" for s in fn.body)
    tr = next((s for s in body if isinstance(s, ast.Try)), None)
    t["oserror_skips_file"] = (tr is not None and len(tr.handlers) == 1 and _txt(tr.handlers[0].type) == "OSError"
                               and isinstance(tr.handlers[0].body[-1], ast.Continue) and not tr.orelse and not tr.finalbody)
    t["shape_from_kspace"] = tr is not None and any(
        isinstance(s, ast.Assign) and _txt(s.targets[0]) == "kspace_shape" and _txt(s.value).startswith("h5py.File(filename,'r')['kspace'].shape")
        for s in tr.body)
    after = body[body.index(tr) + 1:] if tr in body else []
    t["num_slices_is_shape0"] = bool(after) and isinstance(after[0], ast.Assign) and _txt(after[0].targets[0]) == "num_slices" \
        and _txt(after[0].value) == "kspace_shape[0]"
    br = next((s for s in after if isinstance(s, ast.If)), None)
    ok_un = ok_f = ok_else = False
    if br is not None and _txt(br.test) == "notfilter_slice":
        ok_un = len(br.body) == 1 and _txt(br.body[0]) == "self.data+=[(filename,_)for_inrange(num_slices)]"
        el = br.orelse[0] if len(br.orelse) == 1 and isinstance(br.orelse[0], ast.If) else None
        if el is not None and _txt(el.test) == "isinstance(filter_slice,slice)":
            want = ["admissible_indices=range(*filter_slice.indices(num_slices))",
                    "self.data+=[(filename,_)for_inrange(num_slices)if_inadmissible_indices]",
                    "num_slices=len(admissible_indices)"]
            ok_f = [_txt(s) for s in el.body] == want
            ok_else = len(el.orelse) == 1 and isinstance(el.orelse[0], ast.Raise) and "NotImplementedError" in _txt(el.orelse[0])
    t["unfiltered_appends_every_slice"] = ok_un
    t["filtered_appends_admissible_in_file_order_and_counts_them"] = ok_f
    t["other_filter_raises_not_implemented"] = ok_else
    # order: branch, then volume_indices assignment, then counter increment, nothing else
    tail = after[after.index(br) + 1:] if br in after else []
    t["range_then_increment"] = (len(tail) == 2 and isinstance(tail[0], ast.Assign)
                                 and _txt(tail[0].targets[0]) == "self.volume_indices[filename]"
                                 and isinstance(tail[1], ast.AugAssign) and _txt(tail[1].target) == "current_slice_number"
                                 and isinstance(tail[1].op, ast.Add))
    return t


def _window_table(tree) -> dict[str, bool]:
    F = N.window_facts(tree)
    order = ["context0_reads_single_slice", "num_slices_from_file", "curr_shape_is_read_shape", "zeros_before_data",
             "zeros_after_data", "new_shape_copies_read_shape", "depth_axis_moved_to_second"]
    return {k: bool(F.rows.get(k, False)) for k in order}


def _concat_table(tree) -> dict[str, bool]:
    fn = find_function(tree, "ConcatDataset.__getitem__")
    t: dict[str, bool] = {}
    try:
        pre = _concat_prefix(fn)
    except Untranslatable:
        pre = None
    t["negative_branch_on_idx_lt_0"] = pre is not None
    t["reject_raises_value_error"] = pre is not None and "ValueError" in pre["raises"]
    t["bisect_right_on_cumulative_sizes"] = any(
        isinstance(s, ast.Assign) and _txt(s.targets[0]) == "dataset_idx"
        and _txt(s.value) == "bisect.bisect_right(self.cumulative_sizes,idx)" for s in fn.body)
    try:
        _concat_item_index(fn)
        t["returns_member_item"] = True
    except Untranslatable:
        t["returns_member_item"] = False
    ln = find_function(tree, "ConcatDataset.__len__")
    t["len_is_last_cumulative_size"] = isinstance(ln.body[-1], ast.Return) and _txt(ln.body[-1].value) == "self.cumulative_sizes[-1]"
    init = find_function(tree, "ConcatDataset.__init__")
    t["cumulative_sizes_is_cumsum_of_datasets"] = any(_txt(s) == "self.cumulative_sizes=self.cumsum(self.datasets)" for s in init.body)
    cs = find_function(tree, "ConcatDataset.cumsum")
    acc = _accumulate_gen(cs)
    t["cumsum_length_is_len_item"] = any(_txt(s) == "length=len(item)" for s in all_stmts(cs)) or (
        acc is not None and _txt(acc.elt) == f"len({_txt(acc.generators[0].target)})" and _txt(acc.generators[0].iter) == "sequence")
    return t


def _fake_table(ds_tree, fk_tree, sn_tree) -> dict[str, bool]:
    t: dict[str, bool] = {}
    gi = find_function(ds_tree, "FakeMRIBlobsDataset.__getitem__")
    unpack = any(isinstance(s, ast.Assign) and _txt(s.targets[0]) == "(filename,slice_no,sample_seed)"
                 and _txt(s.value) == "self.data[idx]" for s in gi.body)
    calls = _calls(gi, lambda f: f == "self.fake_data")
    a = _arg(calls[0], None, "seed") if len(calls) == 1 else None
    t["itemPassesSeed"] = unpack and a is not None and _txt(a) == "sample_seed"
    call = find_function(fk_tree, "FakeMRIData.__call__")
    calls = _calls(call, lambda f: f == "self.get_kspace")
    a = _arg(calls[0], 2, "seed") if len(calls) == 1 else None
    t["callPassesSeed"] = a is not None and _txt(a) in ("NoneifseedisNoneelseseed+idx", "seed", "seed+idx")
    gk = find_function(fk_tree, "FakeMRIData.get_kspace")
    calls = _calls(gk, lambda f: f == "self.make_blobs")
    a = _arg(calls[0], 2, "seed") if len(calls) == 1 else None
    t["kspacePassesSeedToBlobs"] = a is not None and _txt(a) == "seed"
    mb = find_function(fk_tree, "FakeMRIData.make_blobs")
    calls = _calls(mb, lambda f: f == "make_blobs")
    a = _arg(calls[0], None, "random_state") if len(calls) == 1 else None
    t["blobsRandomStateIsSeed"] = a is not None and _txt(a) == "seed" and not _calls(mb, _global_draw)
    calls = _calls(gk, lambda f: f == "simulate_sensitivity_maps")
    a = _arg(calls[0], 3, "seed") if len(calls) == 1 else None
    t["kspacePassesSeedToSens"] = a is not None and _txt(a) == "seed"
    t["sensSeedsWhenNotNone"] = _sens_seeds(sn_tree)
    return t


def _sens_seeds(sn_tree) -> bool:
    ss = find_function(sn_tree, "simulate_sensitivity_maps")
    seeds = [s for s in all_stmts(ss) if isinstance(s, ast.If) and any(_txt(x) == "np.random.seed(seed)" for x in s.body)]
    if len(seeds) != 1 or _txt(seeds[0].test) != "seedisnotNone":
        return False
    # the seeding must precede every draw from the global stream
    draws = [n.lineno for n in _calls(ss, lambda f: _global_draw(f) and f != "np.random.seed")]
    return all(d > seeds[0].lineno for d in draws)


def _shepp_table(ds_tree, sn_tree) -> dict[str, bool]:
    t: dict[str, bool] = {}
    gi = find_function(ds_tree, "SheppLoganDataset.__getitem__")
    calls = _calls(gi, lambda f: f == "simulate_sensitivity_maps")
    a = _arg(calls[0], 3, "seed") if len(calls) == 1 else None
    t["passesSeedToSens"] = a is not None and _txt(a) == "self.seed[idx]"
    t["sensSeedsWhenNotNone"] = _sens_seeds(sn_tree)
    # no draw from the global stream in __getitem__ itself, and every private stream is seeded with the slice's seed
    ctors = _calls(gi, lambda f: f in _STREAM_CTORS)
    # … and every draw in the item path is made on such a freshly seeded stream (not on a stream kept on the object)
    draws = [c for c in ast.walk(gi) if isinstance(c, ast.Call) and isinstance(c.func, ast.Attribute)
             and c.func.attr in _RNG_METHODS and _txt(c.func.value) not in ("np", "np.fft", "numpy")]
    t["noiseSeeded"] = not _calls(gi, _global_draw) and all(
        len(c.args) == 1 and not c.keywords and _txt(c.args[0]) == "self.seed[idx]" for c in ctors) and all(
        isinstance(c.func.value, ast.Call) and c.func.value in ctors for c in draws)
    return t


def _init_seed_table(ds_tree) -> dict[str, bool]:
    """per-sample / per-slice seeds are drawn once, at construction, from a private stream seeded with the dataset seed"""
    t: dict[str, bool] = {}
    ts = find_function(ds_tree, "temp_seed")
    t["temp_seed_saves_seeds_restores"] = [_txt(s) for s in ts.body[:2]] == ["state=rng.get_state()", "rng.seed(seed)"] and any(
        isinstance(s, ast.Try) and any(_txt(x) == "rng.set_state(state)" for x in s.finalbody) for s in ts.body)
    for cls, key in (("FakeMRIBlobsDataset", "fake"), ("SheppLoganDataset", "shepp")):
        init = find_function(ds_tree, f"{cls}.__init__")
        t[f"{key}_private_stream"] = any(_txt(s) == "self.rng=np.random.RandomState()" for s in init.body)
        withs = [s for s in init.body if isinstance(s, ast.With) and len(s.items) == 1
                 and _txt(s.items[0].context_expr) == "temp_seed(self.rng,seed)"]
        ch = _calls(init, lambda f: f == "self.rng.choice")
        inside = [c for w in withs for c in _calls(w, lambda f: f == "self.rng.choice")]
        t[f"{key}_seeds_drawn_under_temp_seed"] = len(withs) == 1 and len(ch) == 1 and len(inside) == 1 and \
            _txt(_arg(ch[0], None, "replace") or ast.Constant(None)) == "False"
        t[f"{key}_no_global_stream_at_construction"] = not _calls(init, _global_draw)
    return t


_CAST = "pathlib.Path(_)"


def _classify_dedup_expr(v: ast.expr, arg: str = "filenames"):
    """how `filenames` is turned into the list of Path objects -> (cast, dedup, on_normalised) or None"""
    t = _txt(v)
    for var in ("_", "f", "fn", "filename", "name", "x", "p"):
        c = f"pathlib.Path({var})"
        g = f"{c}for{var}in{arg}"
        if t in (f"[{g}]", f"list({g})"):
            return True, False, True
        if t in (f"list(dict.fromkeys({g}))", f"list(dict.fromkeys(({g})))", f"list(dict.fromkeys([{g}]))"):
            return True, True, True
        if t in (f"[{c}for{var}indict.fromkeys({arg})]", f"[{c}for{var}inlist(dict.fromkeys({arg}))]"):
            return True, True, False
    return None


def _classify_dedup_helper(fn: ast.FunctionDef):
    """a helper `unique(filenames)`: either returns one of the expressions above, or is the seen-set idiom
    `for x in filenames: if K in seen: continue; seen.add(K); out.append(V)` — on normalised entries iff K is the Path cast"""
    params = [a.arg for a in fn.args.args]
    if len(params) != 1:
        raise Untranslatable(f"`{fn.name}` takes {len(params)} arguments")
    body = [b for b in fn.body if not (isinstance(b, ast.Expr) and isinstance(b.value, ast.Constant))]
    rets = [n.value for n in ast.walk(fn) if isinstance(n, ast.Return) and n.value is not None]
    if len(body) == 1 and len(rets) == 1:
        r = _classify_dedup_expr(rets[0], params[0])
        if r is not None:
            return r
    loops = [b for b in body if isinstance(b, ast.For)]
    if len(loops) != 1 or _txt(loops[0].iter) != params[0] or not isinstance(loops[0].target, ast.Name) or len(rets) != 1:
        raise Untranslatable(f"`{fn.name}` is not understood")
    x = loops[0].target.id
    env = N.Env()
    key = val = None
    for st in loops[0].body:
        if isinstance(st, ast.Assign):
            # a local holding the cast entry
            if len(st.targets) == 1 and isinstance(st.targets[0], ast.Name) and _txt(st.value) == f"pathlib.Path({x})":
                env.env[st.targets[0].id] = st.value
                continue
            raise Untranslatable(f"`{fn.name}`: assignment in the loop not understood")
        if isinstance(st, ast.If) and not st.orelse and len(st.body) == 1 and isinstance(st.body[0], ast.Continue) \
                and isinstance(st.test, ast.Compare) and len(st.test.ops) == 1 and isinstance(st.test.ops[0], ast.In):
            key = _txt(env.resolve(st.test.left))
            continue
        if isinstance(st, ast.Expr) and isinstance(st.value, ast.Call) and isinstance(st.value.func, ast.Attribute) \
                and len(st.value.args) == 1:
            a = _txt(env.resolve(st.value.args[0]))
            if st.value.func.attr == "add":
                if key is None or a != key:
                    raise Untranslatable(f"`{fn.name}`: the set is filled with something else than what is tested")
                continue
            if st.value.func.attr == "append":
                val = a
                continue
        raise Untranslatable(f"`{fn.name}`: statement in the loop not understood")
    cast = f"pathlib.Path({x})"
    if key is None or val != cast or key not in (cast, x):
        raise Untranslatable(f"`{fn.name}` is not the seen-set idiom")
    return True, True, key == cast


def _dedup_facts(init: ast.FunctionDef, after: list[ast.stmt]):
    """(cast to Path, repeated names dropped, compared as Path objects) for the statement that rebinds `filenames`"""
    for x in after:
        if isinstance(x, ast.Assign) and _txt(x.targets[0]) == "filenames":
            r = _classify_dedup_expr(x.value)
            if r is not None:
                return r
            v = x.value
            if isinstance(v, ast.Call) and len(v.args) == 1 and not v.keywords and _txt(v.args[0]) == "filenames":
                name = _txt(v.func).rsplit(".", 1)[-1]
                for rel in (H5, DS, "direct/utils/dataset.py", "direct/utils/__init__.py", "direct/utils/io.py"):
                    try:
                        tree = parse_file(REPO / rel)
                    except Untranslatable:
                        continue
                    fn = next((n for n in tree.body if isinstance(n, ast.FunctionDef) and n.name == name), None)
                    if fn is not None:
                        return _classify_dedup_helper(fn)
                raise Untranslatable(f"helper `{name}` not found")
            raise Untranslatable(f"`filenames = {ast.unparse(x.value)}` not understood")
    raise Untranslatable("the entries are never cast to pathlib.Path")


def _select_table(init: ast.FunctionDef, pattern: str, root_name: str, has_regex: bool):
    """structure of the file selection at the top of `__init__`; also returns whether the directory listing is sorted"""
    t: dict[str, bool] = {}
    top = next((s for s in init.body if isinstance(s, ast.If) and _txt(s.test) == "filenames_filterisNone"), None)
    t["filter_none_test"] = top is not None
    if top is None:
        raise Untranslatable("`if filenames_filter is None:` not found")
    t["filter_given_is_used_verbatim"] = any(_txt(x) == "filenames=filenames_filter" for x in top.orelse)
    inner = next((x for x in top.body if isinstance(x, ast.If) and _txt(x.test) == "filenames_listsisnotNone"), None)
    t["lists_second"] = inner is not None
    if inner is None:
        raise Untranslatable("`if filenames_lists is not None:` not found")
    guard = next((x for x in inner.body if isinstance(x, ast.If) and _txt(x.test) == "filenames_lists_rootisNone"), None)
    t["lists_without_root_raise_value_error"] = guard is not None and isinstance(guard.body[-1], ast.Raise) \
        and "ValueError" in _txt(guard.body[-1])
    t["lists_read_in_order"] = any(
        _txt(x) == f"filenames=get_filenames_for_datasets(lists=filenames_lists,files_root=filenames_lists_root,data_root={root_name})"
        for x in inner.body)
    glob = f"self.root.glob('{pattern}')"
    lst = [_txt(x.value) for x in inner.orelse if isinstance(x, ast.Assign) and _txt(x.targets[0]) == "filenames"]
    t["listing_is_glob_of_root"] = len(lst) == 1 and lst[0] in (f"list({glob})", f"sorted({glob})", f"list(sorted({glob}))")
    is_sorted = len(lst) == 1 and "sorted(" in lst[0]
    after = init.body[init.body.index(top) + 1:]
    cast, dedup, on_norm = _dedup_facts(init, after)
    t["paths_made_pathlib"] = cast
    if has_regex:
        rx = next((x for x in after if isinstance(x, ast.If) and _txt(x.test) == "regex_filter"), None)
        t["regex_match_on_str_of_path"] = rx is not None and [_txt(x) for x in rx.body] == [
            "filenames=[_for_infilenamesifre.match(regex_filter,str(_))]"]
    else:
        t["no_regex_parameter"] = "regex_filter" not in [a.arg for a in init.args.args]
    return t, is_sorted, dedup, on_norm


def _returns(fn: ast.FunctionDef) -> list[str]:
    return [_txt(n.value) for n in ast.walk(fn) if isinstance(n, ast.Return) and n.value is not None]


def _kwargs_of_super_init(init: ast.FunctionDef) -> dict[str, str]:
    for n in ast.walk(init):
        if isinstance(n, ast.Call) and _txt(n.func) == "super().__init__":
            return {k.arg: _txt(k.value) for k in n.keywords if k.arg}
    raise Untranslatable("super().__init__(…) not found")


def _class_table(h5_tree, ds_tree) -> tuple[dict[str, bool], dict[str, bool]]:
    t: dict[str, bool] = {}
    h5i = find_function(h5_tree, "H5SliceData.__init__")
    call = [n for n in ast.walk(h5i) if isinstance(n, ast.Call) and _txt(n.func) == "self.parse_filenames_data"]
    t["h5_parse_gets_selected_files_and_slice_data"] = len(call) == 1 and _txt(call[0]) == \
        "self.parse_filenames_data(filenames,extra_h5s=pass_h5s,filter_slice=slice_data)"
    t["h5_context_defaults_to_zero"] = any(_txt(x) == "self.kspace_context=kspace_contextifkspace_contextelse0" for x in h5i.body)
    gi = find_function(h5_tree, "H5SliceData.__getitem__")
    t["h5_item_reads_data_idx"] = _txt(gi.body[0]) == "filename,slice_no=self.data[idx]"
    t["h5_sensitivity_map_same_slice_same_name"] = any(
        "self.get_slice_data(self.sensitivity_maps/filename.name,slice_no)" in _txt(x) for x in ast.walk(gi) if isinstance(x, ast.Assign))
    t["h5_pass_h5s_same_slice_same_name"] = any(
        "self.get_slice_data(path/filename.name,slice_no,key=h5_key)" in _txt(x) for x in ast.walk(gi) if isinstance(x, ast.Assign))
    t["h5_len_is_len_data"] = _returns(find_function(h5_tree, "H5SliceData.__len__")) == ["len(self.data)"]
    same = {"filenames_filter": "filenames_filter", "filenames_lists": "filenames_lists", "filenames_lists_root": "filenames_lists_root",
            "regex_filter": "regex_filter", "root": "data_root", "pass_h5s": "pass_h5s"}
    for cls in ("FastMRIDataset", "CalgaryCampinasDataset"):
        kws = _kwargs_of_super_init(find_function(ds_tree, f"{cls}.__init__"))
        key = "fastmri" if cls.startswith("Fast") else "calgary"
        t[f"{key}_forwards_selection_arguments"] = all(kws.get(k) == v for k, v in same.items())
        t[f"{key}_does_not_forward_kspace_context"] = "kspace_context" not in kws
        if key == "fastmri":
            t["fastmri_does_not_forward_slice_data"] = "slice_data" not in kws
        else:
            t["calgary_slice_data_is_50_minus50_when_cropping"] = kws.get("slice_data") == "slice(50,-50)ifcrop_outer_sliceselseNone"
        g = find_function(ds_tree, f"{cls}.__getitem__")
        t[f"{key}_item_is_super_item"] = _txt(g.body[0]) == "sample=super().__getitem__(idx)"
    # CMRxRecon
    c: dict[str, bool] = {}
    pf = find_function(ds_tree, "CMRxReconDataset.parse_filenames_data")
    loop = next(s for s in pf.body if isinstance(s, ast.For))
    c["counter_starts_at_zero"] = any(_txt(x) == "current_slice_number=0" for x in pf.body)
    tr = next(s for s in loop.body if isinstance(s, ast.Try))
    c["missing_or_unreadable_skipped"] = [_txt(h.type) for h in tr.handlers] == ["FileNotFoundError", "OSError"] and all(
        isinstance(h.body[-1], ast.Continue) for h in tr.handlers)
    c["shape_from_kspace_key"] = any(_txt(x) == "kspace_shape=h5py.File(filename,'r')[self.kspace_key].shape" for x in tr.body)
    br = next(s for s in loop.body if isinstance(s, ast.If) and "kspace_context" in _txt(s.test))
    c["num_slices_per_context"] = (_txt(br.test) == "self.kspace_contextisNone" and [_txt(x) for x in br.body] == ["num_slices=np.prod(kspace_shape[:2])"]
                                   and len(br.orelse) == 1 and isinstance(br.orelse[0], ast.If) and _txt(br.orelse[0].test) == "self.kspace_context=='slice'"
                                   and [_txt(x) for x in br.orelse[0].body] == ["num_slices=kspace_shape[0]"]
                                   and [_txt(x) for x in br.orelse[0].orelse] == ["num_slices=kspace_shape[1]"])
    tail = [_txt(x) for x in loop.body[loop.body.index(br) + 1:]]
    c["append_range_increment"] = tail == ["self.data+=[(filename,slc)forslcinrange(num_slices)]",
                                           "self.volume_indices[filename]=range(current_slice_number,current_slice_number+num_slices)",
                                           "current_slice_number+=num_slices"]
    gs = find_function(ds_tree, "CMRxReconDataset.get_slice_data")
    br = next(s for s in gs.body if isinstance(s, ast.If) and "kspace_context" in _txt(s.test))
    c["item_block_per_context"] = (
        _txt(br.test) == "self.kspace_contextisNone"
        and [_txt(x) for x in br.body] == [
            "inds={i:(k,l)fori,(k,l)inenumerate([(k,l)forkinrange(shape[0])forlinrange(shape[1])])}", "ind=inds[slice_no]",
            "curr_data=np.array(data[key][ind[0]][ind[1]])"]
        and len(br.orelse) == 1 and isinstance(br.orelse[0], ast.If) and _txt(br.orelse[0].test) == "self.kspace_context=='slice'"
        and [_txt(x) for x in br.orelse[0].body] == ["curr_data=np.array(data[key][slice_no])"]
        and [_txt(x) for x in br.orelse[0].orelse] == ["curr_data=np.array(data[key][:,slice_no])"])
    c["len_is_len_data"] = _returns(find_function(ds_tree, "CMRxReconDataset.__len__")) == ["len(self.data)"]
    gi = find_function(ds_tree, "CMRxReconDataset.__getitem__")
    c["item_reads_data_idx"] = any(_txt(x) == "filename,slice_no=self.data[idx]" for x in gi.body)
    c["context_axis_second_after_swap"] = any(_txt(x) == "sample['kspace']=np.swapaxes(sample['kspace'],0,1)" for x in ast.walk(gi) if isinstance(x, ast.Assign))
    return t, c


_RNG_METHODS = {"randn", "rand", "uniform", "normal", "standard_normal", "choice", "shuffle", "permutation", "randint",
                "random_sample", "random", "seed", "set_state", "integers"}
_MUTATORS = {"append", "extend", "insert", "pop", "popitem", "clear", "update", "setdefault", "add", "discard", "remove", "sort",
             "reverse", "__setitem__", "__delitem__"}
_DATASET_CLASSES = {DS: ["FakeMRIBlobsDataset", "FastMRIDataset", "CMRxReconDataset", "CalgaryCampinasDataset", "ConcatDataset",
                         "SheppLoganDataset", "SheppLoganProtonDataset", "SheppLoganT1Dataset", "SheppLoganT2Dataset"],
                    H5: ["H5SliceData"], FK: ["FakeMRIData"]}


def _is_mutable_value(v: ast.AST | None) -> bool:
    if v is None:
        return False
    if isinstance(v, (ast.Dict, ast.List, ast.Set, ast.ListComp, ast.DictComp, ast.SetComp)):
        return True
    return isinstance(v, ast.Call) and _txt(v.func) in ("dict", "list", "set", "defaultdict", "collections.defaultdict",
                                                        "OrderedDict", "collections.OrderedDict", "bytearray")


def _written(scope: ast.AST, owner_names: set[str], attr: str) -> bool:
    """is `<owner>.<attr>` (owner in self/cls/ClassName/type(self)) assigned to, item-assigned, deleted from, augmented or
    mutated through a mutating method anywhere in `scope`?"""
    def is_attr(n):
        return isinstance(n, ast.Attribute) and n.attr == attr and _txt(n.value) in owner_names

    for n in ast.walk(scope):
        targets = []
        if isinstance(n, ast.Assign):
            targets = n.targets
        elif isinstance(n, (ast.AugAssign, ast.AnnAssign)):
            targets = [n.target]
        elif isinstance(n, ast.Delete):
            targets = n.targets
        for t in targets:
            for sub in ast.walk(t):
                if is_attr(sub) or (isinstance(sub, ast.Subscript) and is_attr(sub.value)):
                    return True
        if isinstance(n, ast.Call) and isinstance(n.func, ast.Attribute) and n.func.attr in _MUTATORS and is_attr(n.func.value):
            return True
    return False


def _shared_state_table(trees: dict[str, ast.Module]) -> dict[str, bool]:
    """no state is shared between dataset objects: no class-level mutable attribute that is written through an instance or the
    class, no memoising decorator, no module-level mutable global that a function writes"""
    t: dict[str, bool] = {}
    for file, classes in _DATASET_CLASSES.items():
        tree = trees[file]
        short = file.rsplit("/", 1)[1][:-3]
        for cname in classes:
            cls = next((n for n in tree.body if isinstance(n, ast.ClassDef) and n.name == cname), None)
            if cls is None:
                raise Untranslatable(f"class {cname} not found")
            owners = {"self", "cls", cname, "type(self)", "self.__class__"}
            shared = []
            for st in cls.body:
                if isinstance(st, ast.Assign):
                    names, val = [x.id for x in st.targets if isinstance(x, ast.Name)], st.value
                elif isinstance(st, ast.AnnAssign) and isinstance(st.target, ast.Name):
                    names, val = [st.target.id], st.value
                else:
                    continue
                for nm in names:
                    # a class attribute is shared state when it is mutable and written somewhere, or rebound through the class
                    if (_is_mutable_value(val) and _written(tree, owners, nm)) or _written(tree, owners - {"self"}, nm):
                        shared.append(nm)
            t[f"{cname}_has_no_written_class_level_state"] = not shared
            deco = [_txt(d) for f in ast.walk(cls) if isinstance(f, ast.FunctionDef) for d in f.decorator_list]
            t[f"{cname}_has_no_memoised_method"] = not any("cache" in d for d in deco)
        # module-level mutable globals written by functions
        bad = []
        for st in tree.body:
            if isinstance(st, (ast.Assign, ast.AnnAssign)):
                tg = st.targets if isinstance(st, ast.Assign) else [st.target]
                for x in tg:
                    if isinstance(x, ast.Name) and x.id != "__all__":
                        for fn in [n for n in ast.walk(tree) if isinstance(n, ast.FunctionDef)]:
                            for n in ast.walk(fn):
                                if isinstance(n, ast.Global) and x.id in n.names:
                                    bad.append(x.id)
                                if _is_mutable_value(st.value):
                                    if isinstance(n, ast.Subscript) and isinstance(n.ctx, (ast.Store, ast.Del)) and _txt(n.value) == x.id:
                                        bad.append(x.id)
                                    if isinstance(n, ast.Call) and isinstance(n.func, ast.Attribute) and n.func.attr in _MUTATORS \
                                            and _txt(n.func.value) == x.id:
                                        bad.append(x.id)
        t[f"{short}_has_no_written_module_level_state"] = not bad
        mdeco = [_txt(d) for f in tree.body if isinstance(f, ast.FunctionDef) for d in f.decorator_list]
        t[f"{short}_has_no_memoised_function"] = not any("cache" in d for d in mdeco)
    return t


def _fake_ranges_form(pf: ast.FunctionDef, loop) -> tuple[bool, bool]:
    if loop is None or not isinstance(loop.target, ast.Tuple) or len(loop.target.elts) != 2:
        return False, False
    ix, nm = _txt(loop.target.elts[0]), _txt(loop.target.elts[1])
    tail = [x for x in loop.body if not (isinstance(x, ast.If) and "logger" in _txt(x))]
    texts = [_txt(x) for x in tail]
    key = f"self.volume_indices[pathlib.PosixPath({nm})]"
    running = any(_txt(x) == "current_slice_number=0" for x in pf.body) and len(texts) == 3 and texts[1:] == [
        f"{key}=range(current_slice_number,current_slice_number+num_slices)", "current_slice_number+=num_slices"] \
        and texts[0].startswith("num_slices=")
    closed = False
    env = N.Env()
    assigns = [x for x in tail if isinstance(x, ast.Assign)]
    if len(assigns) == len(tail) and tail and _txt(tail[-1].targets[0]) == key:
        for x in tail[:-1]:
            if _txt(x.targets[0]) != "num_slices":
                env.note(x)
        nz = None
        for x in tail[:-1]:                     # the per-volume slice count: the local that does not depend on the loop variables
            if _txt(x.targets[0]) == "num_slices" and ix not in {n.id for n in ast.walk(x.value) if isinstance(n, ast.Name)} \
                    and nm not in {n.id for n in ast.walk(x.value) if isinstance(n, ast.Name)}:
                nz = "num_slices"
        rng_ = _txt(env.resolve(tail[-1].value))
        if nz is not None:
            # num_slices itself is resolved by the environment: compare with the resolved closed forms
            n_res = "num_slices"
            closed = rng_ in (f"range({ix}*{n_res},{ix}*{n_res}+{n_res})", f"range({n_res}*{ix},{n_res}*{ix}+{n_res})",
                              f"range({ix}*{n_res},({ix}+1)*{n_res})")
            closed = closed and not any(_txt(x) == "current_slice_number=0" for x in pf.body)
    return running, closed


def _fake_index_table(ds_tree) -> dict[str, bool]:
    """FakeMRIBlobsDataset: names, per-volume ranges, the (filename, slice_no, seed) list, item plumbing"""
    t: dict[str, bool] = {}
    pf = find_function(ds_tree, "FakeMRIBlobsDataset.parse_filenames_data")
    body = [_txt(x) for x in pf.body]
    t["none_becomes_sample"] = "iffilenamesisNone:filenames=['sample']" in "".join(body[:1]).replace("\n", "")
    t["string_becomes_singleton"] = any(b.replace("\n", "") == "ifisinstance(filenames,str):filenames=[filenames]" for b in body)
    ren = next((x for x in pf.body if isinstance(x, ast.If) and _txt(x.test) == "len(filenames)!=self.sample_size"), None)
    t["renamed_iff_count_differs"] = ren is not None and not ren.orelse and [_txt(x) for x in ren.body] == [
        "filenames=[filenames[0]+f'{_:05}'for_inrange(1,self.sample_size+1)]"]
    loop = next((x for x in pf.body if isinstance(x, ast.For)), None)
    t["loop_over_names"] = loop is not None and _txt(loop.iter) == "enumerate(filenames)"
    running, closed = _fake_ranges_form(pf, loop)
    # volume k gets range(k * nz, (k + 1) * nz): by a running counter from 0, or in closed form from the enumeration index
    # (every fake volume has the same number of slices; `fake_ranges_closed_form` proves the two agree)
    t["counter_starts_at_zero"] = running or closed
    t["range_per_name_then_increment"] = running or closed
    t["returns_names"] = _returns(pf) == ["filenames"]
    init = find_function(ds_tree, "FakeMRIBlobsDataset.__init__")
    try:
        elt, gens = N.loop_nest(init, "self.data")
        gens = [(tg, N.inline_expr_calls(it, ds_tree, "FakeMRIBlobsDataset")) for tg, it in gens]
        canon = N.canonical_nest(elt, gens).replace("len(spatial_shape)", "len(self.spatial_shape)")
    except Untranslatable:
        canon = None
    t["data_is_names_zip_seeds_times_slices"] = canon == (
        "(v0,v2,v1)|for(v0,v1)inzip(self.parse_filenames_data(filenames),"
        "list(self.rng.choice(a=range(int(100000.0)),size=self.sample_size,replace=False)))"
        "|forv2inrange(self.spatial_shape[0]iflen(self.spatial_shape)==3else1)")
    gi = find_function(ds_tree, "FakeMRIBlobsDataset.__getitem__")
    t["item_reads_data_idx"] = _txt(gi.body[0]) == "filename,slice_no,sample_seed=self.data[idx]"
    calls = _calls(gi, lambda f: f == "self.fake_data")
    kws = {k.arg: _txt(k.value) for k in calls[0].keywords} if len(calls) == 1 else {}
    t["generator_called_for_one_sample_of_this_shape"] = kws == {
        "sample_size": "1", "num_coils": "self.num_coils", "spatial_shape": "self.spatial_shape", "name": "[filename]",
        "seed": "sample_seed"} and isinstance(calls[0].__dict__.get("args"), list) and not calls[0].args
    t["item_is_slice_of_generated_volume"] = any(_txt(x) == "sample['kspace']=sample['kspace'][slice_no]" for x in gi.body)
    t["item_reports_slice_no"] = any(_txt(x) == "sample['slice_no']=slice_no" for x in gi.body)
    t["len_is_len_data"] = _returns(find_function(ds_tree, "FakeMRIBlobsDataset.__len__")) == ["len(self.data)"]
    return t


def _shepp_index_table(ds_tree) -> tuple[dict[str, bool], bool]:
    t: dict[str, bool] = {}
    si = find_function(ds_tree, "SheppLoganDataset.sample_image")
    t["rendered_slice_is_idx_mod_nz"] = "np.linspace(self.zlimits[0],self.zlimits[1],self.nz)[idx%self.nz]" in _txt(si)
    gi = find_function(ds_tree, "SheppLoganDataset.__getitem__")
    t["image_from_sample_image_idx"] = _txt(gi.body[0]) == "image=self.sample_image(idx)"
    # every use of `self.seed[...]` in the item path indexes with idx
    subs = [x for x in ast.walk(gi) if isinstance(x, ast.Subscript) and _txt(x.value) == "self.seed"]
    t["seed_indexed_by_idx"] = bool(subs) and all(_txt(x.slice) == "idx" for x in subs)
    samp = [x for x in ast.walk(gi) if isinstance(x, ast.Assign) and _txt(x.targets[0]) == "sample" and isinstance(x.value, ast.Dict)]
    rep = None
    if len(samp) == 1:
        d = {_txt(k): _txt(v) for k, v in zip(samp[0].value.keys, samp[0].value.values)}
        rep = d.get("'slice_no'")
        t["item_filename_is_dataset_name"] = d.get("'filename'") == "self.name"
    else:
        t["item_filename_is_dataset_name"] = False
    t["slice_no_is_idx_or_rendered_slice"] = rep in ("idx", "idx%self.nz")
    t["noise_shape_is_image_shape"] = all(_txt(c.args[0]) == "*image.shape" and len(c.args) == 1
                                          for c in _calls(gi, lambda f: f.endswith(".randn")))
    t["len_is_nz"] = _returns(find_function(ds_tree, "SheppLoganDataset.__len__")) == ["self.nz"]
    init = find_function(ds_tree, "SheppLoganDataset.__init__")
    t["single_range_over_len"] = any(_txt(x) == "self.volume_indices[pathlib.Path(self.name)]=range(self.__len__())" for x in init.body)
    t["one_seed_per_slice"] = any(
        _txt(x) == "self.seed=list(self.rng.choice(a=range(int(100000.0)),size=self.nz,replace=False))" for x in ast.walk(init)
        if isinstance(x, ast.Assign))
    return t, rep == "idx"


def _blob_call_table(fk_tree, sn_tree) -> dict[str, bool]:
    t: dict[str, bool] = {}
    mb = find_function(fk_tree, "FakeMRIData.make_blobs")
    calls = _calls(mb, lambda f: f == "make_blobs")
    kws = {k.arg: _txt(k.value) for k in calls[0].keywords} if len(calls) == 1 else {}
    t["n_samples_keyword"] = kws.get("n_samples") == "n_samples"
    t["n_features_is_ndim"] = kws.get("n_features") == "self.ndim"
    t["centers_is_num_coils"] = kws.get("centers") == "num_coils"
    t["shuffle_left_at_default"] = "shuffle" not in kws
    t["no_positional_arguments"] = len(calls) == 1 and not calls[0].args
    ss = find_function(sn_tree, "simulate_sensitivity_maps")
    draws = [_txt(n) for n in _calls(ss, lambda f: _global_draw(f) and f != "np.random.seed")]
    t["sens_single_uniform_draw"] = draws == ["np.random.uniform(0,2*np.pi,1)"]
    t["sens_single_coil_returns_before_any_draw"] = isinstance(ss.body[1] if len(ss.body) > 1 else None, ast.If) and \
        _txt(ss.body[1].test) == "num_coils==1" and isinstance(ss.body[1].body[-1], ast.Return)
    gk = find_function(fk_tree, "FakeMRIData.get_kspace")
    sens_if = [x for x in gk.body if isinstance(x, ast.If) and _calls(x, lambda f: f == "simulate_sensitivity_maps")]
    t["sens_only_for_several_coils"] = len(sens_if) == 1 and _txt(sens_if[0].test) == "num_coils>1"
    return t


_ITEM_PATH = {DS: ["FakeMRIBlobsDataset.__getitem__", "FakeMRIBlobsDataset.__len__", "FastMRIDataset.__getitem__",
                   "CMRxReconDataset.__getitem__", "CMRxReconDataset.get_slice_data", "CMRxReconDataset.__len__",
                   "CalgaryCampinasDataset.__getitem__", "ConcatDataset.__getitem__", "ConcatDataset.__len__",
                   "SheppLoganDataset.__getitem__", "SheppLoganDataset.sample_image", "SheppLoganDataset.__len__"],
              H5: ["H5SliceData.__getitem__", "H5SliceData.get_slice_data", "H5SliceData.__len__", "H5SliceData.get_num_slices"],
              FK: ["FakeMRIData.__call__", "FakeMRIData.get_kspace", "FakeMRIData.make_blobs", "FakeMRIData.set_attrs"]}


def _writes_self(fn: ast.FunctionDef) -> bool:
    """does the function assign / delete / mutate an attribute of `self` (or of its class)?"""
    def on_self(n):
        while isinstance(n, (ast.Attribute, ast.Subscript)):
            n = n.value
        return isinstance(n, ast.Name) and n.id in ("self", "cls") or (isinstance(n, ast.Call) and _txt(n) == "type(self)")

    for n in ast.walk(fn):
        targets = []
        if isinstance(n, ast.Assign):
            targets = n.targets
        elif isinstance(n, (ast.AugAssign, ast.AnnAssign)):
            targets = [n.target]
        elif isinstance(n, ast.Delete):
            targets = n.targets
        for t in targets:
            for sub in ast.walk(t):
                if isinstance(sub, (ast.Attribute, ast.Subscript)) and isinstance(sub.ctx, (ast.Store, ast.Del)) and on_self(sub):
                    return True
        if isinstance(n, ast.Call) and isinstance(n.func, ast.Attribute) and n.func.attr in (_MUTATORS | {"setattr"}) \
                and isinstance(n.func.value, (ast.Attribute, ast.Subscript)) and on_self(n.func.value):
            return True
        if isinstance(n, ast.Call) and _txt(n.func) == "setattr" and n.args and on_self(n.args[0]):
            return True
        # a draw from (or reseeding of) a stream kept on the object advances state that outlives the call
        if isinstance(n, ast.Call) and isinstance(n.func, ast.Attribute) and n.func.attr in _RNG_METHODS \
                and isinstance(n.func.value, (ast.Attribute, ast.Subscript)) and on_self(n.func.value):
            return True
    return False


def _instance_state_table(trees: dict[str, ast.Module]) -> dict[str, bool]:
    """loading an item writes no attribute of the dataset object: `ds[i]` leaves `ds` as it was (so a pickled / forked /
    deep-copied object, or the same object served from several workers or epochs, behaves like the original)"""
    t: dict[str, bool] = {}
    for file, fns in _ITEM_PATH.items():
        for q in fns:
            cls, _ = q.split(".", 1)
            seen, todo, clean = set(), [find_function(trees[file], q)], True
            while todo:                                  # the function and the methods of its class it calls, transitively
                fn = todo.pop()
                if fn.name in seen:
                    continue
                seen.add(fn.name)
                clean = clean and not _writes_self(fn)
                for n in ast.walk(fn):
                    nm = N._self_call(n, cls)
                    callee = N.method(trees[file], cls, nm) if nm else None
                    if callee is not None and callee.name not in seen and callee.name != "__init__":
                        todo.append(callee)
            t[q.replace(".", "_") + "_writes_no_instance_state"] = clean
    return t


_DATASET_CTORS = ("H5SliceData", "FastMRIDataset", "CalgaryCampinasDataset", "CMRxReconDataset", "FakeMRIBlobsDataset",
                  "SheppLoganDataset", "SheppLoganProtonDataset", "SheppLoganT1Dataset", "SheppLoganT2Dataset")


def _callers_table() -> dict[str, bool]:
    """call sites outside direct/data/{datasets,h5_data}.py: datasets are only built through build_dataset(_from_input) and
    concatenated through direct's ConcatDataset"""
    direct_ctor, torch_concat, concat_sites, build_sites = [], [], [], []
    for path in sorted((REPO / "direct").rglob("*.py")):
        rel = str(path.relative_to(REPO))
        if rel in (DS, H5):
            continue
        try:
            tree = parse_file(path)
        except Untranslatable:
            continue
        src_imports = [_txt(n) for n in ast.walk(tree) if isinstance(n, (ast.Import, ast.ImportFrom))]
        for n in ast.walk(tree):
            if isinstance(n, ast.Call):
                f = _txt(n.func)
                last = f.rsplit(".", 1)[-1]
                if last in _DATASET_CTORS:
                    direct_ctor.append(f"{rel}:{n.lineno}")
                if last == "ConcatDataset":
                    concat_sites.append(rel)
                    if "torch" in f or any("torch.utils.data" in i and "ConcatDataset" in i for i in src_imports):
                        torch_concat.append(f"{rel}:{n.lineno}")
                if last in ("build_dataset", "build_dataset_from_input"):
                    build_sites.append(rel)
    return {"no_dataset_class_constructed_outside_the_data_modules": not direct_ctor,
            "concatenation_uses_direct_ConcatDataset": bool(concat_sites) and not torch_concat,
            "datasets_built_through_build_dataset_from_input": bool(build_sites)}


def _build_table(ds_tree) -> dict[str, bool]:
    """build_dataset / build_dataset_from_input: class by name, keyword arguments win over the configuration"""
    t: dict[str, bool] = {}
    bd = find_function(ds_tree, "build_dataset")
    t["class_is_name_plus_Dataset"] = any(
        _txt(x.value) == "str_to_class('direct.data.datasets',name+'Dataset')" for x in ast.walk(bd)
        if isinstance(x, (ast.Assign, ast.AnnAssign)) and x.value is not None)
    t["constructed_with_transform_and_kwargs"] = any(
        _txt(x.value) == "dataset_class(transform=transforms,**kwargs)" for x in ast.walk(bd) if isinstance(x, ast.Assign))
    bi = find_function(ds_tree, "build_dataset_from_input")
    t["kwargs_win_over_config"] = any(
        _txt(x.value) == "remove_keys(dict(dataset_config),['name','transforms']+list(kwargs.keys()&dict(dataset_config).keys()))"
        for x in ast.walk(bi) if isinstance(x, ast.Assign))
    t["built_with_kwargs_and_config"] = any(
        _txt(x.value) == "build_dataset(name=dataset_config.name,transforms=transforms,**kwargs,**config_kwargs)"
        for x in ast.walk(bi) if isinstance(x, ast.Assign))
    t["initial_images_become_pass_h5s"] = "pass_h5s={'initial_image':(dataset_config.input_image_key,kwargs.get('initial_images'))}" in _txt(bi)
    return t


def _lean_bool(b: bool) -> str:
    return "true" if b else "false"


def _emit_list(name: str, t: dict[str, bool]) -> str:
    rows = ", ".join(f'("{k}", {_lean_bool(v)})' for k, v in t.items())
    return f"def {name} : List (String × Bool) := [{rows}]\n"


def _c12_extra():
    status: dict[str, str] = {}
    out: list[str] = []
    try:
        h5 = parse_file(REPO / H5)
        ds = parse_file(REPO / DS)
        fk = parse_file(REPO / FK)
        sn = parse_file(REPO / SN)
    except Untranslatable as e:
        h5 = ds = fk = sn = None
        why = str(e)

    def table(name, fn, fallback):
        try:
            if h5 is None:
                raise Untranslatable(why)
            t = fn()
            status[name] = "translated"
            return t
        except (Untranslatable, AttributeError, IndexError, StopIteration, TypeError) as e:
            status[name] = f"skipped: {type(e).__name__}: {e}"
            return fallback

    pt = table("parseTable", lambda: _parse_table(h5), {"skipped": True})
    wt = table("windowTable", lambda: _window_table(h5), {"skipped": True})
    ct = table("concatTable", lambda: _concat_table(ds), {"skipped": True})
    out.append("/-- structure of `H5SliceData.parse_filenames_data` -/\n" + _emit_list("parseTable", pt))
    out.append("/-- structure of `H5SliceData.get_slice_data` -/\n" + _emit_list("windowTable", wt))
    out.append("/-- structure of `ConcatDataset` -/\n" + _emit_list("concatTable", ct))
    it = table("initSeedTable", lambda: _init_seed_table(ds), {"skipped": True})
    out.append("/-- construction-time seeding of FakeMRIBlobsDataset / SheppLoganDataset -/\n" + _emit_list("initSeedTable", it))
    sel = table("selectTable", lambda: _select_table(find_function(h5, "H5SliceData.__init__"), "*.h5", "root", True), None)
    csel = table("cmrSelectTable", lambda: _select_table(find_function(ds, "CMRxReconDataset.__init__"), "*.mat", "data_root", False), None)
    for nm, res, const, dconst, nconst in (("selectTable", sel, "listingSorted", "dedupNames", "dedupOnNormalised"),
                                           ("cmrSelectTable", csel, "cmrListingSorted", "cmrDedupNames", "cmrDedupOnNormalised")):
        if res is None:
            out.append(f"/-- SKIPPED -/\ndef {nm} : List (String × Bool) := [(\"skipped\", true)]\n"
                       f"def {const} : Bool := Dataset.listingSortedCurrent\ndef {dconst} : Bool := Dataset.dedupCurrent\n"
                       f"def {nconst} : Bool := Dataset.dedupOnNormalisedCurrent\n")
        else:
            out.append(f"/-- file selection in `__init__` -/\n" + _emit_list(nm, res[0]) +
                       f"/-- is the directory listing sorted before use? -/\ndef {const} : Bool := {_lean_bool(res[1])}\n"
                       f"/-- are repeated names dropped (first kept) before parsing? -/\ndef {dconst} : Bool := {_lean_bool(res[2])}\n"
                       f"/-- are repeated names recognised on the pathlib.Path objects (not on the entries as given)? -/\n"
                       f"def {nconst} : Bool := {_lean_bool(res[3])}\n")
    cls = table("classTable", lambda: _class_table(h5, ds), None)
    if cls is None:
        out.append("/-- SKIPPED -/\ndef classTable : List (String × Bool) := [(\"skipped\", true)]\n"
                   "def cmrTable : List (String × Bool) := [(\"skipped\", true)]\n")
    else:
        out.append("/-- what FastMRIDataset / CalgaryCampinasDataset hand to H5SliceData; H5SliceData item plumbing -/\n" + _emit_list("classTable", cls[0]))
        out.append("/-- structure of CMRxReconDataset.parse_filenames_data / get_slice_data -/\n" + _emit_list("cmrTable", cls[1]))
    sst = table("sharedStateTable", lambda: _shared_state_table({DS: ds, H5: h5, FK: fk}), {"skipped": True})
    out.append("/-- no state shared between dataset objects (class-level mutable attributes, memoisation, module globals) -/\n"
               + _emit_list("sharedStateTable", sst))
    ft = table("fakeTable", lambda: _fake_table(ds, fk, sn), None)
    if ft is None:
        out.append("/-- SKIPPED -/\ndef fakeTable : Dataset.SeedTable := Dataset.fakeTableCurrent\n")
    else:
        order = ["itemPassesSeed", "callPassesSeed", "kspacePassesSeedToBlobs", "blobsRandomStateIsSeed",
                 "kspacePassesSeedToSens", "sensSeedsWhenNotNone"]
        out.append("/-- seed plumbing FakeMRIBlobsDataset.__getitem__ → FakeMRIData.__call__ → get_kspace → make_blobs / "
                   "simulate_sensitivity_maps -/\ndef fakeTable : Dataset.SeedTable :=\n  { "
                   + ", ".join(f"{k} := {_lean_bool(ft[k])}" for k in order) + " }\n")
    st = table("sheppTable", lambda: _shepp_table(ds, sn), None)
    if st is None:
        out.append("/-- SKIPPED -/\ndef sheppTable : Dataset.SheppTable := Dataset.sheppTableCurrent\n")
    else:
        order = ["passesSeedToSens", "sensSeedsWhenNotNone", "noiseSeeded"]
        out.append("/-- seed plumbing of SheppLoganDataset.__getitem__ -/\ndef sheppTable : Dataset.SheppTable :=\n  { "
                   + ", ".join(f"{k} := {_lean_bool(st[k])}" for k in order) + " }\n")
    fit = table("fakeIndexTable", lambda: _fake_index_table(ds), {"skipped": True})
    out.append("/-- FakeMRIBlobsDataset: names, ranges, (filename, slice_no, seed) list, item plumbing -/\n" + _emit_list("fakeIndexTable", fit))
    sit = table("sheppIndexTable", lambda: _shepp_index_table(ds), None)
    if sit is None:
        out.append("/-- SKIPPED -/\ndef sheppIndexTable : List (String × Bool) := [(\"skipped\", true)]\n"
                   "def sheppSliceNoIsIndexAsGiven : Bool := Dataset.sheppReportsIndexAsGiven\n")
    else:
        out.append("/-- SheppLoganDataset: which slice / seed / slice_no an index gives -/\n" + _emit_list("sheppIndexTable", sit[0]) +
                   f"/-- is the reported slice_no the index as given (and not the rendered slice)? -/\n"
                   f"def sheppSliceNoIsIndexAsGiven : Bool := {_lean_bool(sit[1])}\n")
    bct = table("blobCallTable", lambda: _blob_call_table(fk, sn), {"skipped": True})
    out.append("/-- the make_blobs call and the single draw of simulate_sensitivity_maps -/\n" + _emit_list("blobCallTable", bct))
    ist = table("instanceStateTable", lambda: _instance_state_table({DS: ds, H5: h5, FK: fk}), {"skipped": True})
    out.append("/-- loading an item writes no attribute of the dataset object -/\n" + _emit_list("instanceStateTable", ist))
    clt = table("callersTable", _callers_table, {"skipped": True})
    out.append("/-- call sites outside the data modules -/\n" + _emit_list("callersTable", clt))
    bdt = table("buildTable", lambda: _build_table(ds), {"skipped": True})
    out.append("/-- build_dataset / build_dataset_from_input -/\n" + _emit_list("buildTable", bdt))
    return "\n".join(out), status


EXTRA["C12"] = _c12_extra
