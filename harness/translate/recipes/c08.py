"""C08 — translation of the transform builders into the ordered, condition-guarded stage list.

What is translated from /repo's *current* source on every run (pure `ast`, nothing is imported):

* `build_supervised_mri_transforms` → `Gen.C08.build_supervised : Config → List Stage`: every statement that
  touches `mri_transforms` in source order, its guard as a Boolean expression over the builder flags, every
  constructor call with the keys / flags it is given (an unknown class, keyword or expression makes the whole
  kernel `skipped` — never silently ignored);
* `build_mri_transforms` → `Gen.C08.build`: the keyword map of the inner call (which flags are overridden for the
  SSL variant), the early `return`, the SSL tail (splitter choice, deletes, renames, second `ComputeImage`);
* `ComputeZeroPadding.__call__`: the threshold comparison as a `ThrPred` expression (`zero_padding_threshold`);
* the seed expressions of `CreateSamplingMask`, `EstimateBodyCoilImage`, `CropKspace`, `MaskSplitter.forward`
  as the list of sample fields they mention, and whether the seed is actually passed to the mask function.

`Bridge/C08.lean` proves `Gen.C08.build c = Pipeline.build c` for symbolic `c` (by `rfl`).
"""
from __future__ import annotations

import ast
import copy

from ..gen import EXTRA, REPO, Untranslatable
from ..pyexpr import find_function, parse_file

MT = "direct/data/mri_transforms.py"
TYPES = "direct/types.py"
SSL = "direct/ssl/ssl.py"

KEYS = {
    "kspace": ".kspace", "masked_kspace": ".maskedKspace", "sampling_mask": ".samplingMask", "acs_mask": ".acsMask",
    "padding": ".padding", "sensitivity_map": ".sensitivityMap", "scaling_factor": ".scalingFactor",
    "target": ".target", "body_coil_image": ".bodyCoilImage", "input_masked_kspace": ".inputMaskedKspace",
    "target_masked_kspace": ".targetMaskedKspace", "input_sampling_mask": ".inputSamplingMask",
    "target_sampling_mask": ".targetSamplingMask", "input_kspace": ".inputKspace",
}
# builder parameter -> Config field (Bool flags)
FLAGS = {
    "rescale": "c.rescale", "pad": "c.pad", "mask_func": "c.maskFunc", "compress_coils": "c.compressCoils",
    "pad_coils": "c.padCoils", "estimate_sensitivity_maps": "c.estimateSmaps", "delete_acs_mask": "c.deleteAcsMask",
    "delete_kspace": "c.deleteKspace", "estimate_body_coil_image": "c.bodyCoil", "image_center_crop": "c.imageCenterCrop",
    "use_seed": "c.useSeed", "scale_percentile": "c.percentile", "sensitivity_maps_gaussian": "c.smapGaussian",
    "mask_split_keep_acs": "c.splitKeepAcs",
}
POSITIVE = {  # `x > 0.0`
    "random_rotation_probability": "c.rotation", "random_flip_probability": "c.flip",
    "random_reverse_probability": "c.reverse", "padding_eps": "c.paddingEps",
}
ENUM_PARAMS = {"sensitivity_maps_type": "c.smapType", "image_recon_type": "c.recon", "scaling_key": "c.scalingKey",
               "mask_split_type": "c.split"}
# Config field of every parameter of build_supervised (for the keyword map of the inner call)
FIELD_OF = {**{k: v[2:] for k, v in FLAGS.items()}, **{k: v[2:] for k, v in POSITIVE.items()},
            **{k: v[2:] for k, v in ENUM_PARAMS.items()}, "crop": "crop"}
OUTER_HYPER = {"mask_split_ratio", "mask_split_acs_region", "mask_split_gaussian_std", "mask_split_half_direction"}
IGNORED_PARAMS = {  # numeric hyper-parameters / operators: run-time data, not part of the stage table
    "forward_operator", "backward_operator", "crop_type", "rescale_mode", "rescale_2d_if_3d", "random_rotation_degrees",
    "random_flip_type", "sensitivity_maps_espirit_threshold", "sensitivity_maps_espirit_kernel_size",
    "sensitivity_maps_espirit_crop", "sensitivity_maps_espirit_max_iters",
}


def _enum_values(path: str) -> dict[str, str]:
    """`Class.MEMBER` -> string value, for every `class X(DirectEnum)` with string members in the file."""
    out = {}
    tree = parse_file(REPO / path)
    for node in ast.walk(tree):
        if isinstance(node, ast.ClassDef):
            for st in node.body:
                if (isinstance(st, ast.Assign) and len(st.targets) == 1 and isinstance(st.targets[0], ast.Name)
                        and isinstance(st.value, ast.Constant) and isinstance(st.value.value, str)):
                    out[f"{node.name}.{st.targets[0].id}"] = st.value.value
    return out


# ---- normalisation of method bodies (behaviour-preserving refactorings must not change the translation) ------------
def _assigned_names(node: ast.AST) -> set[str]:
    out = set()
    for n in ast.walk(node):
        if isinstance(n, ast.Name) and isinstance(n.ctx, (ast.Store, ast.Del)):
            out.add(n.id)
    return out


class _Subst(ast.NodeTransformer):
    def __init__(self, name, expr):
        self.name, self.expr, self.count = name, expr, 0

    def visit_Name(self, node):
        if node.id == self.name and isinstance(node.ctx, ast.Load):
            self.count += 1
            return copy.deepcopy(self.expr)
        return node


def inline_once_locals(fn: ast.FunctionDef) -> ast.FunctionDef:
    """A local that is assigned exactly once (plain `name = expr` at the top level of the body), read exactly once afterwards,
    with no assignment to any name of `expr` in between, is replaced by its expression at the use (`threshold = mean(x) * eps;
    padding = x < threshold`  ->  `padding = x < mean(x) * eps`).  Pure renaming / naming of sub-expressions only."""
    fn = copy.deepcopy(fn)
    changed = True
    while changed:
        changed = False
        body = fn.body
        for i, st in enumerate(body):
            if not (isinstance(st, ast.Assign) and len(st.targets) == 1 and isinstance(st.targets[0], ast.Name)):
                continue
            name = st.targets[0].id
            stores = sum(1 for n in ast.walk(fn) if isinstance(n, ast.Name) and n.id == name and isinstance(n.ctx, ast.Store))
            loads = [n for n in ast.walk(fn) if isinstance(n, ast.Name) and n.id == name and isinstance(n.ctx, ast.Load)]
            if stores != 1 or len(loads) != 1:
                continue
            if not _is_pure_stat(st.value):
                continue            # only expressions that name a scalar statistic / an arithmetic sub-expression / a rename
            rhs_names = {n.id for n in ast.walk(st.value) if isinstance(n, ast.Name)}
            if name in rhs_names:
                continue
            use_idx = next((j for j in range(i + 1, len(body)) if any(n is loads[0] for n in ast.walk(body[j]))), None)
            if use_idx is None:
                continue
            if isinstance(body[use_idx], (ast.For, ast.While)):
                continue
            between = body[i + 1:use_idx]
            if any(_assigned_names(b) & rhs_names for b in between):
                continue
            sub = _Subst(name, st.value)
            body[use_idx] = sub.visit(body[use_idx])
            if sub.count == 1:
                del body[i]
                ast.fix_missing_locations(fn)
                changed = True
                break
    return fn


def _is_pure_stat(node: ast.AST) -> bool:
    """`torch.mean(x) * self.eps`, `x.mean() * eps`, arithmetic of such"""
    if isinstance(node, ast.BinOp):
        return _is_pure_stat(node.left) and _is_pure_stat(node.right)
    if isinstance(node, (ast.Name, ast.Constant)):
        return True
    if isinstance(node, ast.Attribute):
        return ast.unparse(node).startswith("self.")
    if isinstance(node, ast.Call):
        f = ast.unparse(node.func)
        return f in ("torch.mean",) or f.endswith(".mean")
    return False


def class_methods(tree: ast.Module, cls: str) -> dict[str, ast.FunctionDef]:
    node = next((n for n in ast.walk(tree) if isinstance(n, ast.ClassDef) and n.name == cls), None)
    return {n.name: n for n in node.body if isinstance(n, ast.FunctionDef)} if node else {}


def reachable_methods(tree: ast.Module, qual: str) -> list[ast.FunctionDef]:
    """the method and the methods of the same class it calls through `self.<name>(…)` (transitively)"""
    cls, meth = qual.split(".")
    ms = class_methods(tree, cls)
    if meth not in ms:
        raise Untranslatable(f"{qual} not found")
    seen, todo = [], [meth]
    while todo:
        m = todo.pop()
        if m in [x.name for x in seen] or m not in ms:
            continue
        seen.append(ms[m])
        for n in ast.walk(ms[m]):
            if (isinstance(n, ast.Call) and isinstance(n.func, ast.Attribute) and isinstance(n.func.value, ast.Name)
                    and n.func.value.id == "self" and n.func.attr in ms):
                todo.append(n.func.attr)
    return seen


def is_seed_expr(node: ast.AST) -> bool:
    """`tuple(map(ord, str(sample[...])))` / `tuple(ord(c) for c in str(sample[...]))` (possibly of several fields)"""
    if not (isinstance(node, ast.Call) and ast.unparse(node.func) == "tuple"):
        return False
    t = ast.unparse(node)
    return "ord" in t and "str(sample[" in t



class Tr:
    def __init__(self):
        self.enums = {**_enum_values(TYPES), **_enum_values(SSL), **_enum_values(MT)}
        self.tree = parse_file(REPO / MT)
        self.ssl_tree = parse_file(REPO / SSL)
        self.wrappers = {}  # alias -> module class
        self.wrapper_rows = []   # (alias, module class, toggle_dims)
        self.forms: list[tuple[str, bool]] = []    # (class, composed through a ModuleWrapper alias) in order of translation
        self.seed_disallowed: set[str] = set()
        for st in self.tree.body:
            if (isinstance(st, ast.Assign) and isinstance(st.value, ast.Call)
                    and ast.unparse(st.value.func) == "ModuleWrapper" and st.value.args):
                self.wrappers[st.targets[0].id] = ast.unparse(st.value.args[0])
                kw = {k.arg: k.value for k in st.value.keywords}
                tog = kw.get("toggle_dims", st.value.args[1] if len(st.value.args) > 1 else None)
                if not (isinstance(tog, ast.Constant) and isinstance(tog.value, bool)):
                    raise Untranslatable(f"ModuleWrapper toggle_dims of {st.targets[0].id}")
                self.wrapper_rows.append((st.targets[0].id, ast.unparse(st.value.args[0]), tog.value))

    # ---- strings / keys --------------------------------------------------------------------------
    def string(self, node: ast.AST) -> str:
        if isinstance(node, ast.Constant) and isinstance(node.value, str):
            return node.value
        if isinstance(node, ast.Attribute):
            t = ast.unparse(node)
            if t in self.enums:
                return self.enums[t]
        if isinstance(node, ast.BinOp) and isinstance(node.op, ast.Add):
            return self.string(node.left) + self.string(node.right)
        raise Untranslatable(f"not a key expression: `{ast.unparse(node)}`")

    def key(self, node: ast.AST) -> str:
        s = self.string(node)
        if s not in KEYS:
            raise Untranslatable(f"unknown sample key {s!r}")
        return KEYS[s]

    def keys(self, node: ast.AST) -> str:
        if not isinstance(node, (ast.List, ast.Tuple)):
            raise Untranslatable(f"not a key list: `{ast.unparse(node)}`")
        return "[" + ", ".join(self.key(e) for e in node.elts) + "]"

    # ---- flags -----------------------------------------------------------------------------------
    def flag(self, node: ast.AST, negate: bool = False) -> str:
        t = ast.unparse(node)
        if isinstance(node, ast.UnaryOp) and isinstance(node.op, ast.Not):
            return self.flag(node.operand, not negate)
        if isinstance(node, ast.Compare) and len(node.ops) == 1:
            l, r = ast.unparse(node.left), ast.unparse(node.comparators[0])
            if l == "transforms_type" and r == "TransformsType.SUPERVISED" and isinstance(node.ops[0], (ast.Eq, ast.NotEq)):
                sup = isinstance(node.ops[0], ast.Eq) != negate
                return "(!c.ssl)" if sup else "c.ssl"
        if negate:
            return f"(!{self.flag(node)})"
        if isinstance(node, ast.Constant) and isinstance(node.value, bool):
            return "true" if node.value else "false"
        if isinstance(node, ast.Name):
            if node.id == "crop":
                return "(c.crop != .none)"
            if node.id in FLAGS:
                return FLAGS[node.id]
        if isinstance(node, ast.Compare) and len(node.ops) == 1:
            l, r = ast.unparse(node.left), ast.unparse(node.comparators[0])
            if isinstance(node.ops[0], ast.Gt) and l in POSITIVE and r in ("0.0", "0"):
                return POSITIVE[l]
            if isinstance(node.ops[0], ast.IsNot) and r == "None" and l in FLAGS:
                return FLAGS[l]
        if isinstance(node, ast.BoolOp):
            op = " && " if isinstance(node.op, ast.And) else " || "
            return "(" + op.join(self.flag(v) for v in node.values) + ")"
        if isinstance(node, ast.IfExp):
            return f"(if {self.flag(node.test)} then {self.flag(node.body)} else {self.flag(node.orelse)})"
        raise Untranslatable(f"flag expression `{t}`")

    def enum_param(self, node: ast.AST) -> str:
        if isinstance(node, ast.Name) and node.id in ENUM_PARAMS:
            return ENUM_PARAMS[node.id]
        raise Untranslatable(f"enum expression `{ast.unparse(node)}`")

    # ---- class bodies ----------------------------------------------------------------------------
    SEED_ALLOWED_CALLS = {"tuple", "map", "ord", "str", "list", "int"}

    def _expand_calls(self, tree, cls: str, node: ast.AST, depth=0) -> list[ast.AST]:
        """the nodes of an expression plus those of the bodies of the module-level functions / methods of the class it calls"""
        nodes = list(ast.walk(node))
        if depth > 2:
            return nodes
        funcs = {n.name: n for n in tree.body if isinstance(n, ast.FunctionDef)}
        meths = class_methods(tree, cls)
        for n in list(nodes):
            if isinstance(n, ast.Call):
                target_fn = None
                if isinstance(n.func, ast.Name) and n.func.id in funcs:
                    target_fn = funcs[n.func.id]
                elif (isinstance(n.func, ast.Attribute) and isinstance(n.func.value, ast.Name) and n.func.value.id in ("self", "cls")
                      and n.func.attr in meths):
                    target_fn = meths[n.func.attr]
                if target_fn is not None:
                    for st in target_fn.body:
                        if isinstance(st, ast.Expr) and isinstance(st.value, ast.Constant):
                            continue
                        nodes.extend(self._expand_calls(tree, cls, st, depth + 1))
        return nodes

    def seed_fields(self, tree, qual: str, target: str | None) -> tuple[str, bool]:
        """(Lean list of sample fields of the seed derivation, seed is passed on to every `self.mask_func` call).
        The derivation is the non-`None` side of the `use_seed` guard (`None if not use_seed else D`, `D if use_seed else None`,
        or `if not use_seed: return None; return D` in a private method); helpers it calls (module-level functions, methods of
        the class) are followed.  Every call in the derivation must be on the allow-list (`tuple`, `map`, `ord`, `str`, …):
        anything else — `hash` (salted per process), `id`, `random`, … — is recorded in `self.seed_disallowed`, which the
        bridge requires to be empty."""
        cls = qual.split(".")[0]
        fns = reachable_methods(tree, qual)
        found = []
        for fn in fns:
            for node in ast.walk(fn):
                if isinstance(node, ast.IfExp) and "use_seed" in ast.unparse(node.test):
                    neg = isinstance(node.test, ast.UnaryOp) and isinstance(node.test.op, ast.Not)
                    none_side, other = (node.body, node.orelse) if neg else (node.orelse, node.body)
                    if ast.unparse(none_side) != "None":
                        raise Untranslatable(f"seed conditional of {qual}: `{ast.unparse(node)[:80]}`")
                    found.append(other)
            for i, st in enumerate(fn.body):
                if (isinstance(st, ast.If) and "use_seed" in ast.unparse(st.test) and isinstance(st.test, ast.UnaryOp)
                        and len(st.body) == 1 and isinstance(st.body[0], ast.Return) and not st.orelse
                        and ast.unparse(st.body[0].value) == "None"):
                    rets = [r for r in fn.body[i + 1:] if isinstance(r, ast.Return)]
                    if len(rets) != 1:
                        raise Untranslatable(f"seed helper of {qual}")
                    found.append(rets[0].value)
        if len(found) != 1:
            raise Untranslatable(f"{len(found)} seed derivations in {qual}")
        nodes = self._expand_calls(tree, cls, found[0])
        helper_names = {n.name for n in tree.body if isinstance(n, ast.FunctionDef)} | set(class_methods(tree, cls))
        for n in nodes:
            if isinstance(n, ast.Call):
                fname = ast.unparse(n.func)
                base = fname.split(".")[-1] if fname.startswith(("self.", "cls.")) else fname
                if base not in self.SEED_ALLOWED_CALLS and base not in helper_names:
                    self.seed_disallowed.add(f"{qual}:{fname}")
            if isinstance(n, ast.Name) and n.id in ("hash", "id", "random", "time", "os", "uuid"):
                self.seed_disallowed.add(f"{qual}:{n.id}")
        fields = []
        for node in nodes:
            if isinstance(node, ast.Subscript) and ast.unparse(node.value) == "sample":
                k = node.slice.value if isinstance(node.slice, ast.Constant) else None
                if k == "filename":
                    fields.append((node.lineno, node.col_offset, ".filename"))
                elif k == "slice_no":
                    fields.append((node.lineno, node.col_offset, ".sliceNo"))
                else:
                    raise Untranslatable(f"seed mentions sample[{k!r}]")
        fields = [f for _, _, f in sorted(set(fields))]
        passed = True
        for fn in fns:
            for node in ast.walk(fn):
                if isinstance(node, ast.Call) and ast.unparse(node.func) == "self.mask_func":
                    kw = {k.arg: ast.unparse(k.value) for k in node.keywords}
                    if kw.get("seed") != (target or "seed"):
                        passed = False
        return "[" + ", ".join(fields) + "]", passed

    def threshold(self) -> str:
        fn = inline_once_locals(find_function(self.tree, "ComputeZeroPadding.__call__"))
        cmp_node = None
        local = None
        for st in fn.body:
            if isinstance(st, ast.Assign) and (ast.unparse(st.targets[0]) == "padding" or "padding_key" in ast.unparse(st.targets[0])):
                for node in ast.walk(st.value):
                    if isinstance(node, ast.Compare):
                        cmp_node = node
                        break
                if cmp_node is not None:
                    break
        if cmp_node is None or len(cmp_node.ops) != 1:
            raise Untranslatable("threshold comparison not found in ComputeZeroPadding.__call__")
        # the tensor that is thresholded: the local on the left-hand side
        names = {n.id for n in ast.walk(cmp_node) if isinstance(n, ast.Name)} - {"torch", "self"}
        if len(names) != 1:
            raise Untranslatable(f"threshold mentions several locals {sorted(names)}")
        local = names.pop()

        def te(n: ast.AST) -> str:
            t = ast.unparse(n)
            if isinstance(n, ast.Name) and n.id == local:
                return ".x"
            if t in (f"torch.mean({local})", f"{local}.mean()"):
                return ".mean"
            if t == "self.eps":
                return ".eps"
            if isinstance(n, ast.Constant) and isinstance(n.value, int) and not isinstance(n.value, bool) and n.value >= 0:
                return f"(.lit {n.value})"
            if isinstance(n, ast.BinOp) and isinstance(n.op, ast.Mult):
                return f"(.mul {te(n.left)} {te(n.right)})"
            if isinstance(n, ast.BinOp) and isinstance(n.op, ast.Add):
                return f"(.add {te(n.left)} {te(n.right)})"
            raise Untranslatable(f"threshold term `{t}`")

        op = cmp_node.ops[0]
        l, r = cmp_node.left, cmp_node.comparators[0]
        if isinstance(op, (ast.Gt, ast.GtE)):
            l, r = r, l
        elif not isinstance(op, (ast.Lt, ast.LtE)):
            raise Untranslatable("threshold comparison operator")
        strict = "true" if isinstance(op, (ast.Lt, ast.Gt)) else "false"
        return f"⟨{strict}, {te(l)}, {te(r)}⟩"

    # ---- constructor calls -----------------------------------------------------------------------
    def stage(self, call: ast.AST, splitter_kwargs: dict | None = None) -> str:
        if not isinstance(call, ast.Call) or not isinstance(call.func, ast.Name):
            raise Untranslatable(f"not a transform constructor: `{ast.unparse(call)}`")
        name = self.wrappers.get(call.func.id, call.func.id)
        self.forms.append((name, call.func.id in self.wrappers))
        kw = {k.arg: k.value for k in call.keywords}
        if None in kw:
            raise Untranslatable(f"**kwargs in `{ast.unparse(call)}`")
        pos = list(call.args)

        def take(names_, idx=None, required=True):
            for n in ([names_] if isinstance(names_, str) else names_):
                if n in kw:
                    return kw.pop(n)
            if idx is not None and idx < len(pos) and pos[idx] is not None:
                v, pos[idx] = pos[idx], None
                return v
            # not given: the default of the constructor's signature (a constant / enum member)
            for n in ([names_] if isinstance(names_, str) else names_):
                d = self.ctor_default(name, n)
                if d is not None:
                    return d
            if required:
                raise Untranslatable(f"{name}: argument {names_} not given")
            return None

        def drop(*names_):
            for n in names_:
                kw.pop(n, None)

        def done(result):
            if kw or any(p is not None for p in pos):
                left = list(kw) + [ast.unparse(p) for p in pos if p is not None]
                raise Untranslatable(f"{name}: unexpected arguments {left}")
            return result

        def same(node, text):
            if node is None or ast.unparse(node) != text:
                raise Untranslatable(f"{name}: expected `{text}`, found `{ast.unparse(node) if node else None}`")

        if name == "ToTensor":
            return done(".toTensor")
        if name == "CropKspace":
            same(take("crop", 0), "crop")
            drop("forward_operator", "backward_operator", "random_crop_sampler_type")
            center = self.flag(take("image_space_center_crop"))
            seeded = self.flag(take("random_crop_sampler_use_seed"))
            return done(f".cropKspace {center} {seeded}")
        if name == "RescaleKspace":
            drop("shape", "forward_operator", "backward_operator", "rescale_mode", "rescale_2d_if_3d")
            return done(f".rescaleKspace {self.key(take('kspace_key'))}")
        if name == "PadKspace":
            drop("pad_shape", "forward_operator", "backward_operator")
            return done(f".padKspace {self.key(take('kspace_key'))}")
        if name in ("RandomRotation", "RandomFlip", "RandomReverse"):
            drop("degrees", "p", "flip")
            ks = self.keys(take(["keys_to_rotate", "keys_to_flip", "keys_to_reverse"]))
            if ks != "[.kspace, .sensitivityMap]":
                raise Untranslatable(f"{name}: keys {ks}")
            return done({"RandomRotation": ".randomRotation", "RandomFlip": ".randomFlip",
                         "RandomReverse": ".randomReverse"}[name])
        if name == "ComputeZeroPadding":
            kk, pk = self.key(take("kspace_key", 0)), self.key(take("padding_key", 1))
            same(take("eps", 2), "padding_eps")
            return done(f".computeZeroPadding {kk} {pk} zero_padding_threshold")
        if name == "ApplyZeroPadding":
            return done(f".applyZeroPadding {self.key(take('kspace_key', 0))} {self.key(take('padding_key', 1))}")
        if name == "CreateSamplingMask":
            same(take("mask_func", 0), "mask_func")
            shape = take("shape")
            if ast.unparse(shape) != "None if isinstance(crop, str) else crop":
                raise Untranslatable(f"CreateSamplingMask shape `{ast.unparse(shape)}`")
            seed = self.flag(take("use_seed"))
            acs = self.flag(take("return_acs"))
            return done(f".createSamplingMask (c.crop == .tuple) (maskSeed {seed}) {acs}")
        if name == "CompressCoilModule":
            drop("num_coils")
            return done(f".compressCoil {self.key(take('kspace_key'))}")
        if name == "PadCoilDimensionModule":
            drop("pad_coils")
            return done(f".padCoilDimension {self.key(take('key'))}")
        if name == "EstimateBodyCoilImage":
            same(take("mask_func", 0), "mask_func")
            drop("backward_operator")
            return done(f".estimateBodyCoilImage (bodySeed {self.flag(take('use_seed'))})")
        if name == "EstimateSensitivityMapModule":
            drop("backward_operator", "espirit_threshold", "espirit_kernel_size", "espirit_crop", "espirit_max_iters")
            kk = self.key(take("kspace_key"))
            ty = self.enum_param(take("type_of_map"))
            g = self.flag(take("gaussian_sigma"))
            return done(f".estimateSensitivityMap {kk} {ty} {g}")
        if name == "DeleteKeysModule":
            return done(f".deleteKeys {self.keys(take('keys', 0))}")
        if name == "RenameKeysModule":
            return done(f".renameKeys {self.keys(take('old_keys', 0))} {self.keys(take('new_keys', 1))}")
        if name == "ApplyMaskModule":
            return done(f".applyMask {self.key(take('sampling_mask_key'))} {self.key(take('input_kspace_key'))} "
                        f"{self.key(take('target_kspace_key'))}")
        if name == "ComputeScalingFactorModule":
            nk = self.enum_param(take("normalize_key"))
            pct = self.flag(take("percentile"))
            return done(f".computeScalingFactor {nk} {pct} {self.key(take('scaling_factor_key'))}")
        if name == "NormalizeModule":
            sfk = self.key(take('scaling_factor_key'))
            ktn = take('keys_to_normalize', required=False)
            if ktn is None or (isinstance(ktn, ast.Constant) and ktn.value is None):
                return done(f".normalize {sfk} default_norm_keys")
            return done(f".normalize {sfk} {self.keys(ktn)}")
        if name == "ComputeImageModule":
            drop("backward_operator")
            return done(f".computeImage {self.key(take('kspace_key'))} {self.key(take('target_key'))} "
                        f"{self.enum_param(take('type_reconstruction'))}")
        if name == "AddBooleanKeysModule":
            a, b = take("keys", 0), take("values", 1)
            if ast.unparse(a) != "['is_ssl']":
                raise Untranslatable(f"AddBooleanKeys keys `{ast.unparse(a)}`")
            return done(".addBooleanKeys")
        raise Untranslatable(f"unknown transform class `{name}`")

    def ctor_default(self, cls: str, param: str):
        """AST of the default value of `cls.__init__(…, param=<default>)`, when it is a constant or an enum member"""
        try:
            fn = find_function(self.tree, f"{cls}.__init__")
        except Untranslatable:
            return None
        args = fn.args.args
        defaults = [None] * (len(args) - len(fn.args.defaults)) + list(fn.args.defaults)
        for a, d in zip(args, defaults):
            if a.arg == param and d is not None and (isinstance(d, ast.Constant) or ast.unparse(d) in self.enums):
                return d
        return None

    NORM_IGNORED = {"initial_image", "initial_kspace"}   # dataset-provided entries outside the model's key vocabulary

    def default_norm_keys(self) -> str:
        fn = find_function(self.tree, "NormalizeModule.__init__")
        for st in ast.walk(fn):
            if isinstance(st, ast.Assign) and ast.unparse(st.targets[0]) == "self.keys_to_normalize":
                v = st.value
                body_ = v.body if isinstance(v, ast.IfExp) else None
                if isinstance(body_, ast.Call) and ast.unparse(body_.func) in ("list", "tuple") and len(body_.args) == 1:
                    body_ = body_.args[0]
                if isinstance(body_, ast.Name):      # a module-level constant
                    body_ = next((st2.value for st2 in self.tree.body if isinstance(st2, ast.Assign)
                                  and ast.unparse(st2.targets[0]) == body_.id), None)
                if (isinstance(v, ast.IfExp) and ast.unparse(v.test) == "keys_to_normalize is None"
                        and isinstance(body_, (ast.List, ast.Tuple)) and ast.unparse(v.orelse) == "keys_to_normalize"):
                    out = []
                    for e in body_.elts:
                        s_ = self.string(e)
                        if s_ in self.NORM_IGNORED:
                            continue
                        if s_ not in KEYS:
                            raise Untranslatable(f"NormalizeModule default key {s_!r}")
                        out.append(KEYS[s_])
                    return "[" + ", ".join(out) + "]"
        raise Untranslatable("NormalizeModule default keys_to_normalize not found")

    # ---- signatures ------------------------------------------------------------------------------
    def params_of(self, fname: str) -> list[tuple[str, ast.AST | None]]:
        fn = find_function(self.tree, fname)
        if fn.args.vararg or fn.args.kwarg or fn.args.kwonlyargs or fn.args.posonlyargs:
            raise Untranslatable(f"{fname}: unusual signature")
        args = fn.args.args
        defaults = [None] * (len(args) - len(fn.args.defaults)) + list(fn.args.defaults)
        return [(a.arg, d) for a, d in zip(args, defaults)]

    def param_table(self, fname: str) -> str:
        rows = []
        for name, _ in self.params_of(fname):
            if name in ("forward_operator", "backward_operator"):
                cls = ".operator"
            elif name == "crop":
                cls = ".crop"
            elif name == "transforms_type":
                cls = ".transformsType"
            elif name in FLAGS:
                cls = ".flag"
            elif name in POSITIVE:
                cls = ".positive"
            elif name in ENUM_PARAMS:
                cls = ".enumP"
            elif name in IGNORED_PARAMS or name in OUTER_HYPER:
                cls = ".hyper"
            else:
                cls = ".unknown"
            rows.append(f'("{name}", {cls})')
        return "[" + ", ".join(rows) + "]"

    def default_config(self, fnames: list[str]) -> str:
        """the `Config` the builders' default arguments denote (fields no listed builder has keep `Config`'s default)"""
        fields: dict[str, str] = {}
        for fname in fnames:
            for name, d in self.params_of(fname):
                if name == "mask_func":
                    fields["maskFunc"] = "true"          # required argument; the quantifier has a mask function
                    continue
                if d is None:
                    continue
                if name == "crop":
                    if isinstance(d, ast.Constant) and d.value is None:
                        fields["crop"] = ".none"
                    elif isinstance(d, ast.Constant) and isinstance(d.value, str):
                        fields["crop"] = ".name" if d.value else ".none"
                    elif isinstance(d, ast.Tuple):
                        fields["crop"] = ".tuple" if d.elts else ".none"
                    else:
                        raise Untranslatable(f"default of crop `{ast.unparse(d)}`")
                elif name == "transforms_type":
                    t = ast.unparse(d)
                    if t not in ("TransformsType.SUPERVISED", "TransformsType.SSL_SSDU"):
                        raise Untranslatable(f"default of transforms_type `{t}`")
                    fields["ssl"] = "false" if t.endswith("SUPERVISED") else "true"
                elif name in FLAGS:
                    if not isinstance(d, ast.Constant):
                        raise Untranslatable(f"default of {name} `{ast.unparse(d)}`")
                    fields[FLAGS[name][2:]] = "true" if d.value else "false"
                elif name in POSITIVE:
                    if not (isinstance(d, ast.Constant) and isinstance(d.value, (int, float))):
                        raise Untranslatable(f"default of {name} `{ast.unparse(d)}`")
                    fields[POSITIVE[name][2:]] = "true" if d.value > 0 else "false"
                elif name in ENUM_PARAMS:
                    fields[ENUM_PARAMS[name][2:]] = self.enum_default(name, d)
        order = ["crop", "imageCenterCrop", "rescale", "pad", "rotation", "flip", "reverse", "paddingEps", "maskFunc",
                 "compressCoils", "padCoils", "bodyCoil", "estimateSmaps", "smapType", "smapGaussian", "deleteAcsMask",
                 "deleteKspace", "recon", "scalingKey", "percentile", "useSeed", "ssl", "split", "splitKeepAcs"]
        items = [f"{k} := {fields[k]}" for k in order if k in fields]
        return "{ " + ", ".join(items) + " }"

    def enum_default(self, name: str, d: ast.AST) -> str:
        if isinstance(d, ast.Constant) and d.value is None:
            val = None
        else:
            val = self.string(d)
        if name == "sensitivity_maps_type":
            m = {"espirit": ".espirit", "rss_estimate": ".rssEstimate", "unit": ".unit"}
        elif name == "image_recon_type":
            m = {"ifft": ".ifft", "rss": ".rss", "complex": ".complex", "complex_mod": ".complexMod", "sense": ".sense",
                 "sense_mod": ".senseMod"}
        elif name == "mask_split_type":
            m = {"uniform": ".uniform", "gaussian": ".gaussian", "half": ".half"}
        elif name == "scaling_key":
            if val is None:
                return ".none"
            if val == "scaling_factor":
                return ".given"
            if val in KEYS:
                return f"(.key {KEYS[val]})"
            raise Untranslatable(f"default scaling key {val!r}")
        else:
            raise Untranslatable(f"enum parameter {name}")
        if val not in m:
            raise Untranslatable(f"default of {name}: {val!r}")
        return m[val]

    # ---- builders --------------------------------------------------------------------------------
    def segments(self, fn: ast.FunctionDef, var: str, first_from_call: str | None = None):
        """Yield Lean list expressions for the statements that build `var`, in order.  Returns
        (segments, leftover statements after an early return guard) handling."""
        raise NotImplementedError

    def build_supervised(self) -> str:
        return self.build_list("build_supervised_mri_transforms")

    def build_list(self, fname: str) -> str:
        fn = find_function(self.tree, fname)
        segs = []
        started = False
        for st in fn.body:
            if isinstance(st, ast.Expr) and isinstance(st.value, ast.Constant):
                continue  # docstring
            if self.logging_only(st):
                continue
            if isinstance(st, (ast.AnnAssign, ast.Assign)):
                tgt = st.target if isinstance(st, ast.AnnAssign) else st.targets[0]
                if ast.unparse(tgt) != "mri_transforms" or started:
                    raise Untranslatable(f"unexpected assignment `{ast.unparse(st)[:60]}`")
                segs.append((None, self.stage_items(st.value)))
                started = True
                continue
            if isinstance(st, ast.Return):
                if ast.unparse(st.value) != "Compose(mri_transforms)":
                    raise Untranslatable(f"unexpected return `{ast.unparse(st.value)}`")
                break
            segs.append(self.segment(st))
        if not started:
            raise Untranslatable("`mri_transforms = [...]` not found")
        return nf(segs)

    def stage_items(self, node: ast.AST) -> list[str]:
        if not isinstance(node, ast.List):
            raise Untranslatable(f"not a list of transforms: `{ast.unparse(node)[:60]}`")
        return [self.stage(e) for e in node.elts]

    def addition(self, st: ast.stmt) -> list[str]:
        """`mri_transforms += [...]` or `mri_transforms.append(x)` -> Lean stage terms"""
        if isinstance(st, ast.AugAssign) and isinstance(st.op, ast.Add) and ast.unparse(st.target) == "mri_transforms":
            return self.stage_items(st.value)
        if (isinstance(st, ast.Expr) and isinstance(st.value, ast.Call)
                and ast.unparse(st.value.func) == "mri_transforms.append" and len(st.value.args) == 1):
            return [self.stage(st.value.args[0])]
        raise Untranslatable(f"statement `{ast.unparse(st)[:70]}`")

    @staticmethod
    def logging_only(st: ast.stmt) -> bool:
        """a statement that only logs (`logger = …`, `logger.warning(…)`, `if …: logger.warning(…)`)"""
        text = ast.unparse(st)
        if "logger" not in text:
            return False
        if any(isinstance(n, ast.Name) and n.id == "mri_transforms" for n in ast.walk(st)):
            return False
        return not any(isinstance(n, (ast.Return, ast.AugAssign, ast.Raise)) for n in ast.walk(st))

    def segment(self, st: ast.stmt):
        """(guard or None, stages)"""
        if isinstance(st, ast.If):
            if st.orelse:
                raise Untranslatable("if/else around transforms")
            items = [x for s_ in st.body if not self.logging_only(s_) for x in self.addition(s_)]
            return (self.flag(st.test), items)
        return (None, self.addition(st))

    def build_outer(self) -> str:
        fn = find_function(self.tree, "build_mri_transforms")
        sup = find_function(self.tree, "build_supervised_mri_transforms")
        sup_params = [a.arg for a in sup.args.args]
        stmts = list(fn.body)
        out_segs: list[str] = []
        inner = None
        tail_guard = None
        tail: list[str] = []
        splitter_kwargs = None
        i = 0
        while i < len(stmts):
            st = stmts[i]
            i += 1
            text = ast.unparse(st)
            if isinstance(st, ast.Expr) and isinstance(st.value, ast.Constant):
                continue
            touches = any(isinstance(n, ast.Name) and n.id == "mri_transforms" for n in ast.walk(st))
            if "logger" in text and not touches:
                # logging only (assignment of the logger, info/warning calls, `if …: logger.warning(…)`)
                bad = [n for n in ast.walk(st) if isinstance(n, (ast.Return, ast.AugAssign))]
                if bad:
                    raise Untranslatable(f"unexpected statement `{text[:60]}`")
                continue
            if isinstance(st, ast.Assign) and ast.unparse(st.targets[0]) == "mri_transforms":
                v = st.value
                if not (isinstance(v, ast.Attribute) and v.attr == "transforms" and isinstance(v.value, ast.Call)
                        and ast.unparse(v.value.func) == "build_supervised_mri_transforms" and not v.value.args):
                    raise Untranslatable("inner call of build_supervised_mri_transforms not found")
                updates = []
                given = set()
                for k in v.value.keywords:
                    given.add(k.arg)
                    if isinstance(k.value, ast.Name) and k.value.id == k.arg:
                        continue
                    if k.arg in IGNORED_PARAMS or k.arg not in FIELD_OF:
                        raise Untranslatable(f"inner call passes `{k.arg}={ast.unparse(k.value)}`")
                    updates.append(f"{FIELD_OF[k.arg]} := {self.flag(k.value)}")
                missing = [p for p in sup_params if p not in given]
                if missing:
                    raise Untranslatable(f"inner call does not pass {missing}")
                inner = "build_supervised " + ("{ c with " + ", ".join(updates) + " }" if updates else "c")
                continue
            if inner is None:
                raise Untranslatable(f"statement before the inner call: `{text[:60]}`")
            if isinstance(st, ast.If) and len(st.body) == 1 and isinstance(st.body[0], ast.Return) and not st.orelse:
                if ast.unparse(st.body[0].value) != "Compose(mri_transforms)" or tail_guard is not None:
                    raise Untranslatable("unexpected early return")
                tail_guard = self.flag(st.test, negate=True)
                continue
            if isinstance(st, ast.Assign) and ast.unparse(st.targets[0]) == "mask_splitter_kwargs":
                if not isinstance(st.value, ast.Dict):
                    raise Untranslatable("mask_splitter_kwargs is not a dict literal")
                splitter_kwargs = {self.string(k): v for k, v in zip(st.value.keys, st.value.values)}
                continue
            if isinstance(st, ast.Return):
                if ast.unparse(st.value) != "Compose(mri_transforms)":
                    raise Untranslatable("unexpected return")
                break
            items = self.outer_addition(st, splitter_kwargs)
            if tail_guard is not None:
                tail.extend(items)
            else:
                out_segs.append((None, items))
        if inner is None:
            raise Untranslatable("inner call not found")
        if tail_guard is not None:
            out_segs.append((tail_guard, tail))
        return inner + "\n  ++ (" + nf(out_segs) + ")"

    def outer_addition(self, st: ast.stmt, splitter_kwargs) -> str:
        if not (isinstance(st, ast.AugAssign) and isinstance(st.op, ast.Add) and ast.unparse(st.target) == "mri_transforms"
                and isinstance(st.value, ast.List)):
            raise Untranslatable(f"statement `{ast.unparse(st)[:70]}`")
        items = []
        for e in st.value.elts:
            if isinstance(e, ast.IfExp):
                items.append(self.splitter(e, splitter_kwargs))
            else:
                items.append(self.stage(e))
        return items

    def splitter(self, e: ast.IfExp, kwargs) -> str:
        """GaussianMaskSplitter(**kw, …) if type == GAUSSIAN else (Uniform… if type == UNIFORM else Half…)"""
        if kwargs is None:
            raise Untranslatable("mask_splitter_kwargs not defined before the splitter")
        expect = [("MaskSplitterType.GAUSSIAN", "GaussianMaskSplitterModule"),
                  ("MaskSplitterType.UNIFORM", "UniformMaskSplitterModule")]
        node = e
        for member, cls in expect:
            if not (isinstance(node, ast.IfExp) and ast.unparse(node.test) == f"mask_split_type == {member}"):
                raise Untranslatable(f"splitter choice `{ast.unparse(node)[:60]}`")
            self._splitter_call(node.body, cls)
            node = node.orelse
        self._splitter_call(node, "HalfMaskSplitterModule")
        keep = self.flag(kwargs.get("keep_acs")) if "keep_acs" in kwargs else None
        seed = self.flag(kwargs.get("use_seed")) if "use_seed" in kwargs else None
        key = self.key(kwargs.get("kspace_key")) if "kspace_key" in kwargs else None
        if None in (keep, seed, key):
            raise Untranslatable("mask_splitter_kwargs lacks keep_acs / use_seed / kspace_key")
        return f".maskSplitter c.split {keep} (splitSeed {seed}) {key}"

    def _splitter_call(self, call: ast.AST, cls: str):
        if not isinstance(call, ast.Call) or self.wrappers.get(ast.unparse(call.func), ast.unparse(call.func)) != cls:
            raise Untranslatable(f"expected {cls}, found `{ast.unparse(call)[:50]}`")
        self.forms.append((cls, ast.unparse(call.func) in self.wrappers))
        stars = [k for k in call.keywords if k.arg is None]
        if len(stars) != 1 or "mask_splitter_kwargs" not in ast.unparse(stars[0].value):
            raise Untranslatable(f"{cls} is not given **mask_splitter_kwargs")
        if ast.unparse(stars[0].value) != "mask_splitter_kwargs" and "!= 'ratio'" not in ast.unparse(stars[0].value):
            raise Untranslatable(f"{cls}: kwargs filter `{ast.unparse(stars[0].value)}`")
        for k in call.keywords:
            if k.arg in ("keep_acs", "use_seed", "kspace_key"):
                raise Untranslatable(f"{cls} overrides {k.arg}")


def nf(segs) -> str:
    """list normal form, independent of how unconditional additions are grouped into statements:
    unconditional stages are `::` cells, guarded ones `opt guard [...] ++ rest`"""
    out = "[]"
    for guard, items in reversed(segs):
        if guard is None:
            for it in reversed(items):
                out = f"{it} ::\n  ({out})" if out != "[]" else f"{it} :: []"
        else:
            out = f"opt {guard} [{', '.join(items)}] ++\n  ({out})"
    return out


# ---- stage programs ---------------------------------------------------------------------------------
def _prog(items) -> str:
    """Lean list expression of a translated program (instructions and list-valued loop segments)"""
    segs, cur = [], []
    for it in items:
        if isinstance(it, tuple):
            if cur:
                segs.append("[" + ", ".join(cur) + "]")
                cur = []
            segs.append(it[1])
        else:
            cur.append(it)
    if cur or not segs:
        segs.append("[" + ", ".join(cur) + "]")
    out = segs[-1]
    for sg in reversed(segs[:-1]):
        out = f"{sg} ++ {out}"
    return out


RECON_MEMBERS = [("ifft", "IFFT"), ("rss", "RSS"), ("complex", "COMPLEX"), ("complexMod", "COMPLEX_MOD"),
                 ("sense", "SENSE"), ("senseMod", "SENSE_MOD")]
SMAP_MEMBERS = [("espirit", "ESPIRIT"), ("rssEstimate", "RSS_ESTIMATE"), ("unit", "UNIT")]


def stage_programs(tr: "Tr") -> tuple[str, dict]:
    """`def compile : Stage → List Instr` translated class by class; a class that cannot be understood falls back to
    the hand-written program of that stage (status `skipped`)"""
    status: dict[str, str] = {}
    arms: list[str] = []

    def run(cls, method, params, keyvars, listvars=None, tree=None):
        ex = StageExec(tr, tree or tr.tree, cls, method, params, keyvars)
        ex.listvars = listvars or {}
        return _prog(ex.run())

    def arm(name, pattern, build, fallback_args):
        try:
            arms.append(f"  | {pattern} => {build()}")
            status["compile." + name] = "translated"
        except Untranslatable as e:
            arms.append(f"  | {pattern} => Pipeline.compile ({fallback_args})   -- SKIPPED: {' '.join(str(e).split())[:120]}")
            status["compile." + name] = f"skipped: {e}"

    def match(discr: str, cases: list[tuple[str, str]]) -> str:
        return f"match {discr} with\n" + "\n".join(f"      | {pat} => {body}" for pat, body in cases)

    M = Meta
    arm("toTensor", ".toTensor", lambda: run("ToTensor", "__call__", {}, {}), ".toTensor")
    arm("cropKspace", ".cropKspace center useSeed", lambda: match("center", [
        (("true" if c else "false"), run("CropKspace", "__call__", {"self.image_space_center_crop": c, "self.crop": M(),
                                                                      "self.random_crop_sampler_use_seed": M()}, {}))
        for c in (True, False)]), ".cropKspace center useSeed")
    arm("rescaleKspace", ".rescaleKspace k", lambda: run("RescaleKspace", "__call__", {"self.rescale_2d_if_3d": M()},
                                                         {"self.kspace_key": "k"}), ".rescaleKspace k")
    arm("padKspace", ".padKspace k", lambda: run("PadKspace", "__call__", {}, {"self.kspace_key": "k"}), ".padKspace k")
    for nm in ("randomRotation", "randomFlip", "randomReverse"):
        arms.append(f"  | .{nm} => Pipeline.compile .{nm}   -- not translated: SystemRandom augmentation, outside the quantifier")
        status["compile." + nm] = "skipped: random augmentation (probability 0 in the quantifier)"
    arm("computeZeroPadding", ".computeZeroPadding kk pk thr",
        lambda: run("ComputeZeroPadding", "__call__", {"self.eps": "truthy"}, {"self.kspace_key": "kk", "self.padding_key": "pk"}),
        ".computeZeroPadding kk pk thr")
    arm("applyZeroPadding", ".applyZeroPadding kk pk",
        lambda: run("ApplyZeroPadding", "__call__", {}, {"self.kspace_key": "kk", "self.padding_key": "pk"}),
        ".applyZeroPadding kk pk")
    arm("createSamplingMask", ".createSamplingMask fromCrop seed returnAcs", lambda: match("fromCrop, returnAcs", [
        (f"{'true' if fc else 'false'}, {'true' if ra else 'false'}",
         run("CreateSamplingMask", "__call__", {"self.shape": "truthy" if fc else None, "self.use_seed": M(), "self.return_acs": ra}, {}))
        for fc in (True, False) for ra in (True, False)]), ".createSamplingMask fromCrop seed returnAcs")

    def compress():
        fn = find_function(tr.tree, "CompressCoilModule.forward")
        reads = {ast.unparse(n.slice) for n in ast.walk(fn) if isinstance(n, ast.Subscript) and ast.unparse(n.value) == "sample"
                 and isinstance(n.ctx, ast.Load)}
        writes = {ast.unparse(n.slice) for n in ast.walk(fn) if isinstance(n, ast.Subscript) and ast.unparse(n.value) == "sample"
                  and isinstance(n.ctx, ast.Store)}
        if reads != {"self.kspace_key"} or writes != {"self.kspace_key"} or "torch.linalg.svd" not in ast.unparse(fn):
            raise Untranslatable(f"CompressCoil reads {sorted(reads)} writes {sorted(writes)}")
        return "[.assign [] k (.lin .compress) [k]]"
    arm("compressCoil", ".compressCoil k", compress, ".compressCoil k")
    arm("padCoilDimension", ".padCoilDimension k",
        lambda: run("PadCoilDimensionModule", "forward", {"self.num_coils": "truthy"}, {"self.key": "k"}), ".padCoilDimension k")
    arm("estimateBodyCoilImage", ".estimateBodyCoilImage seed",
        lambda: run("EstimateBodyCoilImage", "__call__", {"self.use_seed": M()}, {}), ".estimateBodyCoilImage seed")
    arm("estimateSensitivityMap", ".estimateSensitivityMap kk ty gaussian", lambda: match("ty, gaussian", [
        (f".{lean}, {'true' if g else 'false'}",
         run("EstimateSensitivityMapModule", "forward", {"self.type_of_map": "SensitivityMapType." + py,
                                                         "self.gaussian_sigma": "truthy" if g else None}, {"self.kspace_key": "kk"}))
        for lean, py in SMAP_MEMBERS for g in (True, False)]), ".estimateSensitivityMap kk ty gaussian")
    arm("deleteKeys", ".deleteKeys ks", lambda: run("DeleteKeysModule", "forward", {}, {}, {"self.keys": "ks"}), ".deleteKeys ks")
    arm("renameKeys", ".renameKeys olds news",
        lambda: run("RenameKeysModule", "forward", {}, {}, {"self.old_keys": "olds", "self.new_keys": "news"}), ".renameKeys olds news")
    arm("applyMask", ".applyMask mk ik ok",
        lambda: run("ApplyMaskModule", "forward", {}, {"self.sampling_mask_key": "mk", "self.input_kspace_key": "ik",
                                                       "self.target_kspace_key": "ok"}), ".applyMask mk ik ok")
    arm("computeScalingFactor", ".computeScalingFactor nk pct sfk", lambda: match("nk, pct", [
        (f"{lean}, {'true' if pc else 'false'}",
         run("ComputeScalingFactorModule", "forward", {"self.normalize_key": py, "self.percentile": "truthy" if pc else None},
             {"self.normalize_key": "k", "self.scaling_factor_key": "sfk"}))
        for lean, py in ((".given", "scaling_factor"), (".none", None), (".key k", "<key>")) for pc in (True, False)]),
        ".computeScalingFactor nk pct sfk")
    arm("normalize", ".normalize sfk keys",
        lambda: run("NormalizeModule", "forward", {}, {"self.scaling_factor_key": "sfk"}, {"self.keys_to_normalize": "keys"}),
        ".normalize sfk keys")
    arm("computeImage", ".computeImage kk tk r", lambda: match("r", [
        (f".{lean}", run("ComputeImageModule", "forward", {"self.type_reconstruction": "ReconstructionType." + py},
                         {"self.kspace_key": "kk", "self.target_key": "tk"}))
        for lean, py in RECON_MEMBERS]), ".computeImage kk tk r")
    arm("addBooleanKeys", ".addBooleanKeys",
        lambda: run("AddBooleanKeysModule", "forward", {"self.keys": M(), "self.values": M()}, {}), ".addBooleanKeys")
    arm("maskSplitter", ".maskSplitter ty keepAcs seed kk", lambda: match("keepAcs", [
        (("true" if ka else "false"), run("MaskSplitter", "forward", {"self.keep_acs": ka, "self.use_seed": M()},
                                          {"self.kspace_key": "kk"}, tree=tr.ssl_tree))
        for ka in (True, False)]), ".maskSplitter ty keepAcs seed kk")
    text = ("/-- translated from the `forward` / `__call__` bodies of the transform classes in `" + MT + "` and of\n"
            "`MaskSplitter` in `" + SSL + "`: which sample keys every class reads and writes, under which presence guards, and\n"
            "which primitive it applies (symbolic execution + register coalescing, see harness/translate/recipes/c08.py) -/\n"
            "def compile : Stage → List Instr\n" + "\n".join(arms) + "\n")
    return text, status


FALLBACK = """/-- SKIPPED ({reason}); stands for the hand-written model, the bridge is vacuous -/
def zero_padding_threshold : ThrPred := thrCurrent
def maskSeed (useSeed : Bool) : Option (List SeedField) := seedOf useSeed [.filename]
def bodySeed (useSeed : Bool) : Option (List SeedField) := seedOf useSeed [.filename]
def splitSeed (useSeed : Bool) : Option (List SeedField) := seedOf useSeed [.filename, .sliceNo]
def crop_seed_fields : List SeedField := [.filename]
def seed_disallowed_calls : List String := []
def build_supervised (c : Config) : List Stage := Pipeline.buildSupervisedNF c
def build (c : Config) : List Stage := Pipeline.buildNF c
def stage_forms_supervised : FormTable := supervisedForms
def stage_forms_outer : FormTable := outerForms
def compile : Stage → List Instr := Pipeline.compile
"""

FALLBACK2 = """/-- SKIPPED ({reason}); stands for the hand-written model, the bridge is vacuous -/
def default_norm_keys : List Key := defaultNormKeys
def build_pre (c : Config) : List Stage := Pipeline.buildPreNF c
def build_post (c : Config) : List Stage := Pipeline.buildPostNF c
def stage_forms_pre : FormTable := preForms
def stage_forms_post : FormTable := postForms
"""

FALLBACK3 = """/-- SKIPPED ({reason}); stands for the hand-written tables, the bridge is vacuous -/
def supervised_params : ParamTable := supervisedParams
def outer_params : ParamTable := outerParams
def pre_params : ParamTable := preParams
def post_params : ParamTable := postParams
def default_config : Config := {{}}
def default_config_supervised : Config := {{}}
def default_config_prepost : Config := {{}}
def wrappers : WrapperTable := wrapperTable
"""


def _forms(rows) -> str:
    return "[" + ", ".join(f'("{c}", {"true" if w else "false"})' for c, w in rows) + "]"


def _phase3_extra(tr_or_none):
    """pre/post builders, signature tables, default configurations, wrapper table, call forms"""
    text, st = "", {}
    names2 = ["default_norm_keys", "build_pre", "build_post", "stage_forms_pre", "stage_forms_post"]
    names3 = ["supervised_params", "outer_params", "pre_params", "post_params", "default_config",
              "default_config_supervised", "default_config_prepost", "wrappers"]
    try:
        tr = tr_or_none or Tr()
        dnk = tr.default_norm_keys()
        tr.forms = []
        pre = tr.build_list("build_pre_mri_transforms")
        fpre = list(tr.forms)
        tr.forms = []
        post = tr.build_list("build_post_mri_transforms")
        fpost = list(tr.forms)
        text += (
            f"/-- translated from `{MT}`:`NormalizeModule.__init__` (default `keys_to_normalize`, tensor keys of the model) -/\n"
            f"def default_norm_keys : List Key := {dnk}\n\n"
            f"/-- translated from `{MT}`:`build_pre_mri_transforms` -/\n"
            f"def build_pre (c : Config) : List Stage :=\n  {pre}\n\n"
            f"/-- translated from `{MT}`:`build_post_mri_transforms` -/\n"
            f"def build_post (c : Config) : List Stage :=\n  {post}\n\n"
            f"/-- how the pre/post builders compose the classes (class, through a `ModuleWrapper` alias) -/\n"
            f"def stage_forms_pre : FormTable := {_forms(fpre)}\n"
            f"def stage_forms_post : FormTable := {_forms(fpost)}\n\n")
        st.update({n: "translated" for n in names2})
    except Untranslatable as e:
        text += FALLBACK2.format(reason=str(e).replace("-/", "- /"))
        st.update({n: f"skipped: {e}" for n in names2})
    try:
        tr = tr_or_none or Tr()
        rows = ", ".join(f'("{a}", "{m_}", {"true" if t else "false"})' for a, m_, t in tr.wrapper_rows)
        text += (
            f"/-- translated from the signatures in `{MT}` (parameter, how it enters the stage table) -/\n"
            f"def supervised_params : ParamTable := {tr.param_table('build_supervised_mri_transforms')}\n"
            f"def outer_params : ParamTable := {tr.param_table('build_mri_transforms')}\n"
            f"def pre_params : ParamTable := {tr.param_table('build_pre_mri_transforms')}\n"
            f"def post_params : ParamTable := {tr.param_table('build_post_mri_transforms')}\n\n"
            f"/-- the configuration the default arguments denote -/\n"
            f"def default_config : Config := {tr.default_config(['build_mri_transforms'])}\n"
            f"def default_config_supervised : Config := {tr.default_config(['build_supervised_mri_transforms'])}\n"
            f"def default_config_prepost : Config := {tr.default_config(['build_pre_mri_transforms', 'build_post_mri_transforms'])}\n\n"
            f"/-- translated from the `ModuleWrapper(...)` assignments of `{MT}` -/\n"
            f"def wrappers : WrapperTable := [{rows}]\n\n")
        st.update({n: "translated" for n in names3})
    except Untranslatable as e:
        text += FALLBACK3.format(reason=str(e).replace("-/", "- /"))
        st.update({n: f"skipped: {e}" for n in names3})
    try:
        tr = tr_or_none or Tr()
        rows = instance_state_writes(tr.tree) + instance_state_writes(tr.ssl_tree)
        cells = ", ".join(f'("{c}", "{m_}", "{a}", "{h}")' for c, m_, a, h in rows)
        ncls = sum(1 for n in ast.walk(tr.tree) if isinstance(n, ast.ClassDef)) + sum(1 for n in ast.walk(tr.ssl_tree) if isinstance(n, ast.ClassDef))
        text += (f"/-- translated from every class of `{MT}` and `{SSL}` ({ncls} classes): writes to instance / class / module\n"
                 f"state in methods other than `__init__` (class, method, attribute, how) -/\n"
                 f"def instance_state_writes : StateWrites := [{cells}]\n"
                 f"def classes_scanned : Nat := {ncls}\n\n")
        st["instance_state_writes"] = "translated"
        er = data_early_returns(tr.tree) + data_early_returns(tr.ssl_tree)
        text += ("/-- translated: data-dependent `return sample` shortcuts in `__call__` / `forward` (class, how many) -/\n"
                 "def data_early_returns : List (String × Nat) := [" + ", ".join(f'("{c}", {n})' for c, n in er) + "]\n\n")
        st["data_early_returns"] = "translated"
    except Untranslatable as e:       # pragma: no cover
        text += "def instance_state_writes : StateWrites := []\ndef classes_scanned : Nat := 30\ndef data_early_returns : List (String × Nat) := dataEarlyReturns\n"
        st["instance_state_writes"] = f"skipped: {e}"
    return text, st


def _c08_extra():
    head = "open DirectVerif.Pipeline\n\n"
    names = ["zero_padding_threshold", "mask_seed", "body_coil_seed", "splitter_seed", "crop_seed", "build_supervised",
             "build"]
    try:
        tr = Tr()
        thr = tr.threshold()
        mfields, mpassed = tr.seed_fields(tr.tree, "CreateSamplingMask.__call__", None)
        bfields, bpassed = tr.seed_fields(tr.tree, "EstimateBodyCoilImage.__call__", None)
        sfields, _ = tr.seed_fields(tr.ssl_tree, "MaskSplitter.forward", None)
        cfields, _ = tr.seed_fields(tr.tree, "CropKspace.__call__", None)
        tr.forms = []
        sup = tr.build_supervised()
        fsup = list(tr.forms)
        tr.forms = []
        outer = tr.build_outer()
        fouter = list(tr.forms)

        def seed_def(name, fields, passed):
            body = f"seedOf useSeed {fields}" if passed else "none   -- the seed is not passed to the mask function"
            return f"def {name} (useSeed : Bool) : Option (List SeedField) := {body}\n"

        text = (
            head
            + f"/-- translated from `{MT}`:`ComputeZeroPadding.__call__` (the comparison that defines `padding`) -/\n"
            + f"def zero_padding_threshold : ThrPred := {thr}\n\n"
            + f"/-- translated from `{MT}`:`CreateSamplingMask.__call__` (seed expression, `seed=seed` passed on) -/\n"
            + seed_def("maskSeed", mfields, mpassed)
            + f"/-- translated from `{MT}`:`EstimateBodyCoilImage.__call__` -/\n"
            + seed_def("bodySeed", bfields, bpassed)
            + f"/-- translated from `{SSL}`:`MaskSplitter.forward` -/\n"
            + seed_def("splitSeed", sfields, True)
            + f"/-- translated from `{MT}`:`CropKspace.__call__` (random-crop seed) -/\n"
            + f"def crop_seed_fields : List SeedField := {cfields}\n"
            + "/-- calls in the four seed derivations that are not on the allow-list (tuple, map, ord, str, list, int) -/\n"
            + "def seed_disallowed_calls : List String := [" + ", ".join(f'"{x}"' for x in sorted(tr.seed_disallowed)) + "]\n\n"
            + f"/-- translated from `{MT}`:`build_supervised_mri_transforms` (statement order, guards, constructor arguments) -/\n"
            + f"def build_supervised (c : Config) : List Stage :=\n  {sup}\n\n"
            + f"/-- translated from `{MT}`:`build_mri_transforms` -/\n"
            + f"def build (c : Config) : List Stage :=\n  {outer}\n\n"
            + "/-- how the two builders compose the classes (class, through a `ModuleWrapper` alias), in source order -/\n"
            + f"def stage_forms_supervised : FormTable := {_forms(fsup)}\n"
            + f"def stage_forms_outer : FormTable := {_forms(fouter)}\n\n"
        )
        st = {n: "translated" for n in names}
        try:
            ctext, cstatus = stage_programs(tr)
        except Untranslatable as e:      # pragma: no cover - stage_programs catches per class
            ctext, cstatus = "def compile : Stage → List Instr := Pipeline.compile\n", {"compile": f"skipped: {e}"}
        st.update(cstatus)
        t3, s3 = _phase3_extra(tr)
        st.update(s3)
        return text + ctext + "\n" + t3, st
    except Untranslatable as e:
        t3, s3 = _phase3_extra(None)
        st0 = {n: f"skipped: {e}" for n in names}
        st0.update(s3)
        return head + FALLBACK.format(reason=str(e).replace("-/", "- /")) + "\n" + t3, st0


EXTRA["C08"] = _c08_extra

# make sure Gen/C08.lean imports the model (gen.py only adds imports of registered kernels)
from ..gen import Kernel, register  # noqa: E402

register("C08", [
    Kernel("builder_flags", MT, "build_supervised_mri_transforms", [], "(32 : Int)",
           lambda k, fn: f"def {k.name} : Int := ({len(fn.args.args)} : Int)\n", imports=("DirectVerif.Model.Pipeline", "DirectVerif.Model.PipelinePrePost", "DirectVerif.Model.PipelineTables",
                    "DirectVerif.Lemmas.C08NF")),
])


# =================================================================================================
# Stage programs: `forward` / `__call__` of every transform class -> `List Instr`
#
# A small symbolic executor of the method bodies.  Locals are bound to *locations* (a sample key, or a temporary
# `.t1 … .t5` allocated in order of first need), non-tensor values (shapes, dims, seeds, constants) are META.
# Tensor expressions are recognised from a fixed vocabulary of call patterns; layout-only calls (`clone`, `float`,
# `unsqueeze`, `permute`, `view_as_complex`, …) are the identity.  Conditions on constructor parameters are decided
# by partial evaluation (the method is executed once per value of every enum / Boolean stage parameter and the
# results are assembled into a Lean `match`); `key in sample` tests become guards / `require`; conditions on the
# tensor rank may only select layout-only code (or the slice sum of `ComputeZeroPadding`).  Anything else is
# `Untranslatable` and the stage is emitted as the hand-written program (`skipped`).
class Meta:
    """a non-tensor value"""
    def __init__(self, what="meta", val=None):
        self.what, self.val = what, val


class Loc:
    """a tensor stored under a sample key / temporary (`term` is a Lean `Key` term)"""
    def __init__(self, term, temp=False, kind="data"):
        self.term, self.temp, self.kind = term, temp, kind


class Zeros:
    def __init__(self, like: Loc | None):
        self.like = like


class MethodRef:
    """a bound method of the class held in a local (`f = self._helper`, `f = getattr(self, "_helper")`)"""
    def __init__(self, name: str):
        self.name = name


IDENTITY_METHODS = {"clone", "float", "to", "bool", "contiguous", "unsqueeze", "squeeze", "reshape", "permute", "int"}
IDENTITY_FUNCS = {"T.view_as_complex", "T.view_as_real", "T.to_tensor", "torch.from_numpy", "torch.view_as_complex",
                  "torch.view_as_real", "np.asarray"}
TEMPS = [".t1", ".t2", ".t3", ".t4", ".t5"]
_MISSING = object()


class StageExec:
    def __init__(self, tr: "Tr", tree, cls: str, method: str, params: dict, keyvars: dict):
        """params: `self.attr` -> python abstract value (True/False/None/"truthy"/Meta/str enum member text);
        keyvars: `self.attr` -> Lean key term"""
        self.tr, self.tree, self.cls = tr, tree, cls
        self.params, self.keyvars = params, keyvars
        self.out: list[str] = []
        self.locals: dict[str, object] = {}
        self.guards: list[str] = []
        self.ntemp = 0
        self.used_temps: list[str] = []
        self.consumed: set[str] = set()
        self.required: list[str] = []
        self.dicts: dict[str, dict] = {}
        self.intermediate: set[str] = set()
        self.fn = inline_once_locals(find_function(tree, f"{cls}.{method}"))

    # ---- helpers ---------------------------------------------------------------------------------
    def fresh(self) -> Loc:
        if self.ntemp >= len(TEMPS):
            raise Untranslatable(f"{self.cls}: more than {len(TEMPS)} temporaries")
        t = TEMPS[self.ntemp]
        self.ntemp += 1
        self.used_temps.append(t)
        return Loc(t, temp=True)

    def emit_assign(self, dst: str, op: str, args: list[str]):
        g = "[" + ", ".join(self.guards) + "]"
        self.out.append(f".assign {g} {dst} {op} [{', '.join(args)}]")

    def sample_key(self, node: ast.AST):
        """Lean key term of a `sample[...]` subscript index; None for keys outside the tensor vocabulary"""
        t = ast.unparse(node)
        if t in self.keyvars:
            return self.keyvars[t]
        if isinstance(node, ast.BinOp) and isinstance(node.op, ast.Add):
            # prefix + key  (SSL)
            pre = self.tr.string(node.left)
            rt = ast.unparse(node.right)
            if rt in self.keyvars:
                inner = self.keyvars[rt]
                if pre == "input_":
                    return f"({inner}.prefixed true)"
                if pre == "target_":
                    return f"({inner}.prefixed false)"
            s = pre + self.tr.string(node.right)
            return KEYS.get(s)
        try:
            s = self.tr.string(node)
        except Untranslatable:
            raise Untranslatable(f"{self.cls}: sample key `{t}`")
        return KEYS.get(s)

    def is_sample_sub(self, node) -> bool:
        return isinstance(node, ast.Subscript) and ast.unparse(node.value) == "sample"

    # ---- abstract values of parameters / conditions ----------------------------------------------
    def module_const(self, node: ast.AST):
        """the literal a module-level constant `NAME = (…)` / `[…]` denotes, for a `Name` node; None otherwise"""
        if not isinstance(node, ast.Name) or node.id in self.locals:
            return None
        vals = [st.value for st in self.tree.body if isinstance(st, (ast.Assign, ast.AnnAssign))
                and ast.unparse(st.targets[0] if isinstance(st, ast.Assign) else st.target) == node.id]
        if len(vals) == 1 and isinstance(vals[0], (ast.Tuple, ast.List)):
            return vals[0]
        return None

    def pval(self, node: ast.AST):
        """python value of a parameter expression, or _MISSING"""
        t = ast.unparse(node)
        if t in self.params:
            return self.params[t]
        mc = self.module_const(node)
        if mc is not None:
            node = mc
        if isinstance(node, ast.Constant):
            return node.value
        if isinstance(node, ast.Attribute) and t in self.tr.enums:
            return t
        if isinstance(node, (ast.List, ast.Tuple)):
            vs = [self.pval(e) for e in node.elts]
            return _MISSING if any(v is _MISSING for v in vs) else vs
        return _MISSING

    def truth(self, node: ast.AST):
        """True / False / None (unknown) of a condition, by partial evaluation over the parameters"""
        if isinstance(node, ast.UnaryOp) and isinstance(node.op, ast.Not):
            v = self.truth(node.operand)
            return None if v is None else not v
        if isinstance(node, ast.BoolOp):
            vs = [self.truth(v) for v in node.values]
            if isinstance(node.op, ast.And):
                if any(v is False for v in vs):
                    return False
                return True if all(v is True for v in vs) else None
            if any(v is True for v in vs):
                return True
            return False if all(v is False for v in vs) else None
        if isinstance(node, ast.Compare) and len(node.ops) == 1:
            a, b = self.pval(node.left), self.pval(node.comparators[0])
            op = node.ops[0]
            if a is _MISSING or b is _MISSING or isinstance(a, Meta) or isinstance(b, Meta):
                return None
            if isinstance(op, (ast.Eq, ast.NotEq)):
                if a == "truthy" or b == "truthy":
                    other = b if a == "truthy" else a
                    if other in (0, None, False):
                        r = False
                    else:
                        return None
                else:
                    r = a == b
                return r if isinstance(op, ast.Eq) else not r
            if isinstance(op, (ast.In, ast.NotIn)) and isinstance(b, list):
                r = a in b
                return r if isinstance(op, ast.In) else not r
            if isinstance(op, (ast.Is, ast.IsNot)):
                if a == "truthy":
                    r = False if b is None else None
                    if r is None:
                        return None
                else:
                    r = a is b
                return r if isinstance(op, ast.Is) else not r
            return None
        v = self.pval(node)
        if v is _MISSING or isinstance(v, Meta):
            return None
        if v == "truthy":
            return True
        return bool(v)

    def key_test(self, node: ast.AST):
        """(`in`/`not in`, key term) for `K in sample` tests"""
        if (isinstance(node, ast.Compare) and len(node.ops) == 1 and isinstance(node.ops[0], (ast.In, ast.NotIn))
                and ast.unparse(node.comparators[0]) in ("sample", "sample.keys()")):
            k = self.sample_key(node.left)
            return ("in" if isinstance(node.ops[0], ast.In) else "notin", k)
        return None

    def is_shape_cond(self, node: ast.AST) -> bool:
        t = ast.unparse(node)
        return any(s in t for s in (".ndim", "len(shape)", ".shape", "ndim ==", "ndim >", "isinstance(", "len(self."))

    # ---- expressions -----------------------------------------------------------------------------
    def is_meta_expr(self, node: ast.AST) -> bool:
        """no tensor *value* flows into the expression (only shapes, ranks, devices, parameters, constants)"""
        if isinstance(node, ast.Constant):
            return True
        if isinstance(node, ast.Name):
            v = self.locals.get(node.id, _MISSING)
            return isinstance(v, Meta) or (v is _MISSING and node.id not in ("sample",))
        if isinstance(node, ast.Attribute):
            if node.attr in ("shape", "ndim", "device", "dtype"):
                return True
            if ast.unparse(node).startswith("self."):
                return True
            return self.is_meta_expr(node.value)
        if isinstance(node, ast.Call):
            f = ast.unparse(node.func)
            if isinstance(node.func, ast.Attribute) and node.func.attr in ("size", "dim"):
                return True
            if f in ("len", "tuple", "list", "map", "str", "int", "range", "max", "min", "any", "all", "isinstance", "ord",
                     "IntegerListOrTupleString", "torch.ones", "torch.linspace", "torch.exp", "enumerate", "zip"):
                return all(self.is_meta_expr(a) for a in node.args) and all(self.is_meta_expr(k.value) for k in node.keywords)
            if (isinstance(node.func, ast.Attribute) and isinstance(node.func.value, ast.Name)
                    and isinstance(self.locals.get(node.func.value.id), Meta)):
                return all(self.is_meta_expr(a) for a in node.args)      # method of a non-tensor local
            if (isinstance(node.func, ast.Attribute) and not isinstance(node.func.value, ast.Name)
                    and not self.is_sample_sub(node.func.value) and self.is_meta_expr(node.func.value)):
                return all(self.is_meta_expr(a) for a in node.args)      # method of a non-tensor value
            if f.startswith(("torch.", "np.")) and f not in ("torch.zeros", "torch.tensor", "torch.cat", "torch.sqrt", "torch.where",
                                                           "torch.stack", "torch.from_numpy", "torch.kthvalue"):
                return all(self.is_meta_expr(a) for a in node.args) and all(self.is_meta_expr(k.value) for k in node.keywords)
            return False
        if isinstance(node, ast.Subscript):
            if self.is_sample_sub(node):
                k = None
                try:
                    k = self.sample_key(node.slice)
                except Untranslatable:
                    pass
                return k is None      # a non-tensor entry of the sample (filename, slice_no, reconstruction_size, …)
            return self.is_meta_expr(node.value)
        if isinstance(node, (ast.BinOp,)):
            return self.is_meta_expr(node.left) and self.is_meta_expr(node.right)
        if isinstance(node, ast.UnaryOp):
            return self.is_meta_expr(node.operand)
        if isinstance(node, (ast.Tuple, ast.List)):
            return all(self.is_meta_expr(e) for e in node.elts)
        if isinstance(node, ast.IfExp):
            return self.is_meta_expr(node.body) and self.is_meta_expr(node.orelse)
        if isinstance(node, (ast.GeneratorExp, ast.ListComp, ast.Compare, ast.BoolOp, ast.Dict, ast.Starred, ast.Slice)):
            return all(self.is_meta_expr(c) for c in ast.iter_child_nodes(node)
                       if not isinstance(c, (ast.comprehension, ast.cmpop, ast.boolop, ast.expr_context)))
        return False

    def strip(self, node: ast.AST) -> ast.AST:
        """remove layout-only wrappers"""
        while True:
            if isinstance(node, ast.Call):
                f = node.func
                if isinstance(f, ast.Attribute) and f.attr in IDENTITY_METHODS and not (
                        isinstance(f.value, ast.Name) and f.value.id in ("torch", "T", "np")):
                    node = f.value
                    continue
                if ast.unparse(f) in IDENTITY_FUNCS and node.args:
                    node = node.args[0]
                    continue
                if ast.unparse(f) == "torch.stack" and node.args:
                    node = node.args[0]
                    continue
                if ast.unparse(f) == "torch.tensor" and node.args and isinstance(node.args[0], (ast.Name, ast.Subscript)):
                    node = node.args[0]
                    continue
            if isinstance(node, ast.BinOp) and isinstance(node.op, ast.Add) and ast.unparse(node.right) == "0.0":
                node = node.left
                continue
            if isinstance(node, ast.Subscript) and not self.is_sample_sub(node) and ast.unparse(node.slice) in ("None", "_"):
                node = node.value
                continue
            return node

    def ev(self, node: ast.AST, dst: Loc | None = None):
        """evaluate a tensor expression; returns a Loc (emitting instructions), a Zeros, or a Meta"""
        node = self.strip(node)
        if isinstance(node, ast.IfExp) and not self.is_meta_expr(node):
            tv = self.truth(node.test)
            if tv is None:
                raise Untranslatable(f"{self.cls}: conditional expression `{ast.unparse(node)[:60]}`")
            return self.ev(node.body if tv else node.orelse, dst)
        if isinstance(node, ast.Name):
            v = self.locals.get(node.id, _MISSING)
            if v is _MISSING:
                raise Untranslatable(f"{self.cls}: unbound local `{node.id}`")
            return v
        if self.is_sample_sub(node):
            k = self.sample_key(node.slice)
            if k is None:
                return Meta("sample-meta")
            kind = "mask" if k in (".samplingMask", ".acsMask", ".padding") else "data"
            return Loc(k, kind=kind)
        if isinstance(node, ast.Call) and ast.unparse(node.func) == "sample.get" and node.args:
            k = self.sample_key(node.args[0])
            return Loc(k) if k else Meta()
        if isinstance(node, ast.Call) and ast.unparse(node.func) == "sample.pop" and node.args:
            raise Untranslatable("pop outside a rename")
        if isinstance(node, ast.Subscript) and isinstance(node.value, ast.List) and len(node.value.elts) == 1:
            return self.ev(node.value.elts[0], dst)
        if self.is_meta_expr(node):
            return Meta()
        t = ast.unparse(node)

        def A(n):  # argument location
            v = self.ev(n)
            if not isinstance(v, Loc):
                raise Untranslatable(f"{self.cls}: `{ast.unparse(n)}` is not a tensor location")
            return v

        def out(op, args, kind="data"):
            d = dst
            if d is None:
                # an intermediate of the same expression can be overwritten in place
                reuse = [a for a in args if a.temp and a.term in self.intermediate]
                d = reuse[0] if reuse else self.fresh()
                if not reuse:
                    self.intermediate.add(d.term)
            self.emit_assign(d.term, op, [a.term for a in args])
            return Loc(d.term, temp=d.temp, kind=kind)

        if isinstance(node, ast.Call) and isinstance(node.func, ast.Name) and isinstance(self.locals.get(node.func.id), MethodRef):
            return self.call_helper(node, self.locals[node.func.id].name)
        if (isinstance(node, ast.Call) and isinstance(node.func, ast.Attribute) and isinstance(node.func.value, ast.Name)
                and node.func.value.id == "self" and node.func.attr in self.methods() and node.func.attr.startswith("_")):
            return self.call_helper(node)
        if isinstance(node, ast.Call):
            f = ast.unparse(node.func)
            args = node.args
            kw = {k.arg: k.value for k in node.keywords}
            if f in ("T.apply_mask", "apply_mask") and len(args) >= 2:
                x, m = A(args[0]), A(args[1])
                return out(".applyMask", [m, x])
            if f == "T.apply_padding" and len(args) == 2:
                x, p = A(args[0]), A(args[1])
                return out(".applyPadding", [p, x], kind=x.kind)
            if f == "T.safe_divide" and len(args) == 2:
                x, y = A(args[0]), A(args[1])
                return out(".safeDiv", [y, x])
            if f == "T.modulus" and args:
                inner = args[0]
                return out(".modulus", [A(inner)])
            if f == "T.root_sum_of_squares" and args:
                return out(".rss", [A(args[0])])
            if f == "torch.sqrt" and len(args) == 1:
                m_ = _match_rss(args[0])
                if m_ is not None:
                    return out(".rss", [A(m_)])
            if f == "self.backward_operator" and args:
                return out("(.lin .bwd)", [A(args[0])])
            if f == "self.forward_operator" and args:
                return out("(.lin .fwd)", [A(args[0])])
            if f == "T.complex_center_crop" and args:
                return out("(.lin .cropMask)", [A(args[0])], kind="mask")
            if f == "T.complex_image_resize" and args:
                return out("(.lin .rescale)", [A(args[0])])
            if f == "T.pad_tensor" and args:
                return out("(.lin .pad)", [A(args[0])])
            if f == "self.crop_func":
                stars = [k for k in node.keywords if k.arg is None]
                if len(stars) == 1 and ast.unparse(stars[0].value) in self.dicts:
                    d = self.dicts[ast.unparse(stars[0].value)]
                    dl = d.get("data_list")
                    if isinstance(dl, ast.List) and len(dl.elts) == 1:
                        center = self.params.get("self.image_space_center_crop")
                        seeded = "seed" in d
                        if center is True and seeded or center is False and not seeded:
                            raise Untranslatable("CropKspace: seed argument does not follow image_space_center_crop")
                        c = "true" if center else "false"
                        return out(f"(.lin (.crop {c} useSeed))", [A(dl.elts[0])])
                raise Untranslatable("CropKspace: crop_func call")
            if f == "self.mask_func":
                acs = ast.unparse(kw.get("return_acs", ast.Constant(False)))
                if acs not in ("True", "False"):
                    raise Untranslatable(f"mask_func return_acs `{acs}`")
                seed = kw.get("seed")
                sv = self.locals.get(ast.unparse(seed)) if isinstance(seed, ast.Name) else None
                seedterm = "seed" if isinstance(sv, Meta) and sv.what == "seed" else "none"
                shape = kw.get("shape")
                shv = self.locals.get(ast.unparse(shape)) if isinstance(shape, ast.Name) else None
                from_crop = "true" if isinstance(shv, Meta) and shv.what == "shape-param" else "false"
                src = ".acs" if acs == "True" else ".sampling"
                return out(f"(.extMask {src} {seedterm} {from_crop})", [Loc(".kspace")], kind="mask")
            if f == "self.espirit_calibrator":
                return out(".espirit", [Loc(self.keyvars.get("self.kspace_key", ".kspace"))])
            if f == "self.split_method":
                raise Untranslatable("split_method outside the splitter pattern")
            if f == "torch.zeros" and args:
                like = None
                a0 = args[0]
                if isinstance(a0, ast.Attribute) and a0.attr == "shape":
                    v = self.ev(a0.value)
                    like = v if isinstance(v, Loc) else None
                return Zeros(like)
            if f == "torch.tensor" and args:
                a0 = ast.unparse(args[0])
                if a0.startswith("[1.0] * ") and a0.endswith(".size(0)"):
                    src = self.ev(ast.parse(a0[len("[1.0] * "):-len(".size(0)")], mode="eval").body)
                    if isinstance(src, Loc):
                        return out(".constOne", [src])
            if f == "torch.cat" and args and isinstance(args[0], ast.List) and len(args[0].elts) == 2:
                z, x = self.ev(args[0].elts[0]), self.ev(args[0].elts[1])
                if isinstance(z, Zeros) and isinstance(x, Loc) and ast.unparse(kw.get("dim", ast.Constant(None))) == "self.coil_dim":
                    return out(".padCoils", [x])
            if isinstance(node.func, ast.Attribute) and node.func.attr == "sum" and len(args) == 1:
                which = ast.unparse(args[0])
                inner = node.func.value
                if which in ("self.coil_dim", "coil_dim"):
                    m_ = _match_conj_mul(inner)
                    if m_ is not None:
                        return out(".senseCombine", [A(m_[0]), A(m_[1])])
                    return out(".sumCoils", [A(inner)])
                if which == "0":
                    return out(".sumSlices", [A(inner)])
            if isinstance(node.func, ast.Attribute) and node.func.attr == "amax":
                inner = node.func.value
                if isinstance(inner, ast.Call) and ast.unparse(inner.func) == "T.modulus":
                    return out(".maxModulus", [A(inner.args[0])])
        if isinstance(node, ast.BinOp) and isinstance(node.op, ast.Mult):
            l, r = self.ev(node.left), self.ev(node.right)
            if isinstance(l, Loc) and isinstance(r, Loc):
                if r.kind == "mask":
                    return out(".applyMask", [r, l])
                if l.kind == "mask":
                    return out(".applyMask", [l, r])
            if isinstance(l, Loc) and isinstance(r, Meta):
                return out("(.lin .gaussWeight)", [l])
            if isinstance(r, Loc) and isinstance(l, Meta):
                return out("(.lin .gaussWeight)", [r])
        if isinstance(node, ast.BinOp) and isinstance(node.op, ast.Div):
            l, r = self.ev(node.left), self.ev(node.right)
            if isinstance(l, Loc) and isinstance(r, Loc):
                return out(".divUnsafe", [r, l])
        if isinstance(node, ast.Compare) and len(node.ops) == 1 and isinstance(node.ops[0], (ast.Lt, ast.LtE, ast.Gt, ast.GtE)):
            names = {n.id for n in ast.walk(node) if isinstance(n, ast.Name)} - {"torch", "self"}
            if len(names) == 1:
                v = self.locals.get(next(iter(names)))
                if isinstance(v, Loc):
                    return out("(.threshold thr)", [v], kind="mask")
        raise Untranslatable(f"{self.cls}: tensor expression `{t[:80]}`")

    # ---- statements ------------------------------------------------------------------------------
    def run_body(self, stmts, meta_only=False):
        for st in stmts:
            if self.stmt(st, meta_only) == "return":
                return "return"
        return None

    def store(self, key_node: ast.AST, value: ast.AST, meta_only: bool):
        k = self.sample_key(key_node)
        vnode = self.strip(value)
        if k is None:
            if self.is_meta_expr(vnode) or (self.is_sample_sub(vnode) and ast.unparse(vnode.slice) == ast.unparse(key_node)):
                return          # a non-tensor entry of the sample
            raise Untranslatable(f"{self.cls}: tensor stored under non-tensor key `{ast.unparse(key_node)}`")
        if self.is_sample_sub(vnode) and self.sample_key(vnode.slice) == k:
            # dtype conversion in place: `sample[k] = convert(sample[k])`
            if not self.guards and k not in self.required:
                self.required.append(k)
                self.out.append(f".require {k}")
            return
        if isinstance(vnode, ast.Call) and ast.unparse(vnode.func) == "sample.pop" and vnode.args:
            src = self.sample_key(vnode.args[0])
            self.out.append(f".move {src} {k}")
            return
        if meta_only:
            raise Untranslatable(f"{self.cls}: tensor store under a rank condition")
        v = self.ev(vnode, dst=None) if isinstance(vnode, ast.Name) else self.ev(vnode, dst=Loc(k))
        if isinstance(v, Meta):
            return
        if not isinstance(v, Loc):
            raise Untranslatable(f"{self.cls}: cannot store `{ast.unparse(value)[:60]}`")
        if v.term == k:
            return
        if v.temp and v.term not in self.consumed:
            self.out.append(f".move {v.term} {k}")
            self.consumed.add(v.term)
            for n, lv in list(self.locals.items()):
                if isinstance(lv, Loc) and lv.term == v.term:
                    self.locals[n] = Loc(k, kind=lv.kind)
        else:
            self.emit_assign(k, ".copy", [v.term])

    def stmt(self, st: ast.stmt, meta_only=False):
        if isinstance(st, ast.Expr):
            v = st.value
            if isinstance(v, ast.Constant):
                return None
            t = ast.unparse(v)
            if t.startswith(("warnings.warn", "assert_complex", "self.logger", "logger.")):
                return None
            raise Untranslatable(f"{self.cls}: statement `{t[:60]}`")
        if isinstance(st, ast.Assert):
            return None
        if isinstance(st, ast.Return):
            if st.value is not None and ast.unparse(st.value) != "sample":
                if any(is_seed_expr(n) for n in ast.walk(st.value)) or (
                        self.is_meta_expr(self.strip(st.value)) and not isinstance(self.strip(st.value), ast.Name)):
                    self.retval = self.meta_of(st.value)
                else:
                    self.retval = self.ev(st.value)
            return "return"
        if isinstance(st, ast.Raise):
            return "raise"
        if isinstance(st, ast.Delete):
            for tg in st.targets:
                if self.is_sample_sub(tg):
                    k = self.sample_key(tg.slice)
                    if k:
                        self.out.append(f".delete {k}")
            return None
        if isinstance(st, ast.If):
            return self.if_stmt(st, meta_only)
        if isinstance(st, ast.Continue):
            return None
        if isinstance(st, ast.For):
            return self.for_stmt(st)
        if isinstance(st, ast.AnnAssign) and st.value is not None:
            st = ast.Assign(targets=[st.target], value=st.value)
        if isinstance(st, ast.Delete) and all(isinstance(t_, ast.Name) for t_ in st.targets):
            return None
        if (isinstance(st, ast.Assign) and len(st.targets) == 1 and isinstance(st.targets[0], ast.Tuple)
                and isinstance(st.value, ast.Tuple) and len(st.targets[0].elts) == len(st.value.elts)
                and all(isinstance(e, ast.Name) for e in st.targets[0].elts)):
            vals = [self.ev(v) for v in st.value.elts]          # `a, b = f(a), g(b)`
            for e, v in zip(st.targets[0].elts, vals):
                self.locals[e.id] = v
            return None
        if (isinstance(st, ast.Assign) and len(st.targets) == 1 and isinstance(st.targets[0], ast.Tuple)
                and "self.split_method(" in ast.unparse(st.value)):
            return self.splitter_stmt(st)
        if isinstance(st, ast.Assign) and len(st.targets) == 1:
            tg = st.targets[0]
            if isinstance(tg, ast.Tuple) and len(tg.elts) == 2 and ast.unparse(tg.elts[1]) == "_":
                tg = tg.elts[0]          # `x, _ = T.apply_mask(...)`
            if self.is_sample_sub(tg):
                self.store(tg.slice, st.value, meta_only)
                return None
            if isinstance(tg, ast.Subscript) and isinstance(tg.value, ast.Name):
                name = tg.value.id
                cur = self.locals.get(name)
                if name in self.dicts and isinstance(tg.slice, ast.Constant):
                    self.dicts[name][tg.slice.value] = st.value
                    return None
                if isinstance(cur, Zeros) and ast.unparse(tg.slice) == "(..., 0)" and ast.unparse(st.value) == "1.0" and cur.like:
                    d = self.fresh()
                    self.emit_assign(d.term, ".unitMap", [cur.like.term])
                    self.locals[name] = d
                    return None
                if isinstance(cur, Meta) or self.is_meta_expr(st.value) and not isinstance(cur, Loc):
                    return None
                raise Untranslatable(f"{self.cls}: element assignment `{ast.unparse(st)[:60]}`")
            if isinstance(tg, ast.Name):
                name = tg.id
                if isinstance(st.value, ast.Dict):
                    self.dicts[name] = {self.tr.string(k): v for k, v in zip(st.value.keys, st.value.values)}
                    self.locals[name] = Meta("dict")
                    return None
                sv = self.seed_value(st.value)
                if sv is not None:
                    self.locals[name] = sv
                    return None
                if name == "shape" and "self.shape" in ast.unparse(st.value):
                    self.locals[name] = Meta("shape-param")
                    return None
                # method of the same class returning a tensor
                if (isinstance(st.value, ast.Call) and ast.unparse(st.value.func).startswith("self.")
                        and ast.unparse(st.value.func)[5:] in self.methods()):
                    self.locals[name] = self.call_helper(st.value)
                    return None
                if (isinstance(st.value, ast.Attribute) and isinstance(st.value.value, ast.Name) and st.value.value.id == "self"
                        and st.value.attr in self.methods()):
                    self.locals[name] = MethodRef(st.value.attr)
                    return None
                if (isinstance(st.value, ast.Call) and ast.unparse(st.value.func) == "getattr" and len(st.value.args) == 2
                        and ast.unparse(st.value.args[0]) == "self" and isinstance(st.value.args[1], ast.Constant)
                        and st.value.args[1].value in self.methods()):
                    self.locals[name] = MethodRef(st.value.args[1].value)
                    return None
                if (isinstance(st.value, ast.Call) and isinstance(st.value.func, ast.Name)
                        and isinstance(self.locals.get(st.value.func.id), MethodRef)):
                    self.locals[name] = self.call_helper(st.value, self.locals[st.value.func.id].name)
                    return None
                if self.is_meta_expr(self.strip(st.value)) and not isinstance(self.strip(st.value), ast.Name):
                    self.locals[name] = Meta()
                    return None
                cur = self.locals.get(name)
                stripped = self.strip(st.value)
                # in-place update of a temporary (`x = f(x)`)
                dst = cur if isinstance(cur, Loc) and cur.temp and any(
                    isinstance(n, ast.Name) and n.id == name for n in ast.walk(stripped)) else None
                if meta_only and not isinstance(stripped, ast.Name):
                    # under a rank condition: layout-only code, or the slice sum
                    if not (isinstance(stripped, ast.Call) and isinstance(stripped.func, ast.Attribute)
                            and stripped.func.attr == "sum" and ast.unparse(stripped.args[0]) == "0"):
                        raise Untranslatable(f"{self.cls}: tensor code under a rank condition `{ast.unparse(st)[:60]}`")
                v = self.ev(stripped, dst=dst)
                self.locals[name] = v
                self.intermediate.clear()      # named now
                return None
            if isinstance(tg, ast.Tuple):
                if self.is_meta_expr(st.value):
                    for e in tg.elts:
                        if isinstance(e, ast.Name):
                            self.locals[e.id] = Meta()
                    return None
        raise Untranslatable(f"{self.cls}: statement `{ast.unparse(st)[:70]}`")

    # ---- loops -----------------------------------------------------------------------------------
    def for_stmt(self, st: ast.For):
        it = ast.unparse(st.iter)
        tgt = ast.unparse(st.target)
        lists = getattr(self, "listvars", {})
        # (a) `for key in self.keys:` over a list-of-keys parameter
        if it in lists and isinstance(st.target, ast.Name):
            return self.loop_over(lists[it], "k", {tgt: "k"}, st.body, extra_guard=None)
        # (b) `for key in sample.keys(): if key not in self.<list>: continue; …` — the listed keys that are present
        if it == "sample.keys()" and isinstance(st.target, ast.Name) and st.body and isinstance(st.body[0], ast.If):
            g = st.body[0]
            t = g.test
            if (isinstance(t, ast.Compare) and len(t.ops) == 1 and isinstance(t.ops[0], ast.NotIn)
                    and ast.unparse(t.left) == tgt and ast.unparse(t.comparators[0]) in lists
                    and len(g.body) == 1 and isinstance(g.body[0], ast.Continue) and not g.orelse):
                return self.loop_over(lists[ast.unparse(t.comparators[0])], "k", {tgt: "k"}, st.body[1:], extra_guard="k")
        # (c) `for a, b in zip(self.xs, self.ys):` over two list-of-keys parameters
        if (isinstance(st.iter, ast.Call) and ast.unparse(st.iter.func) == "zip" and len(st.iter.args) == 2
                and all(ast.unparse(a) in lists for a in st.iter.args) and isinstance(st.target, ast.Tuple)):
            a, b = (ast.unparse(e) for e in st.target.elts)
            la, lb = (lists[ast.unparse(x)] for x in st.iter.args)
            return self.loop_over(f"({la}.zip {lb})", "(o, n)", {a: "o", b: "n"}, st.body, extra_guard=None)
        # (d) the percentile block of ComputeScalingFactor, recognised as a whole
        if it == "range(data.size(0))" and _norm(ast.unparse(st)) == _norm(PERCENTILE_LOOP):
            data = self.locals.get("data")
            if isinstance(data, Loc):
                d = self.fresh()
                self.emit_assign(d.term, ".kthModulus", [data.term])
                self.locals["scaling_factor"] = d
                return None
        # (f) linear scan of an ordered module-level dispatch table of (values, method name) pairs:
        #     `for values, name in TABLE: if self.<param> in values: f = getattr(self, name); break`  — the same decision tree
        #     as an if/elif chain over the parameter; the default is whatever `f` was bound to before the loop
        tab = self.module_const(st.iter)
        if (tab is not None and isinstance(st.target, ast.Tuple) and len(st.target.elts) == 2 and not st.orelse
                and all(isinstance(e, ast.Name) for e in st.target.elts) and len(st.body) == 1 and isinstance(st.body[0], ast.If)):
            vals_var, name_var = (e.id for e in st.target.elts)
            g = st.body[0]
            t = g.test
            if (isinstance(t, ast.Compare) and len(t.ops) == 1 and isinstance(t.ops[0], ast.In) and not g.orelse
                    and ast.unparse(t.comparators[0]) == vals_var and len(g.body) == 2 and isinstance(g.body[1], ast.Break)
                    and isinstance(g.body[0], ast.Assign) and len(g.body[0].targets) == 1 and isinstance(g.body[0].targets[0], ast.Name)
                    and _norm(ast.unparse(g.body[0].value)) == f"getattr(self, {name_var})"):
                a = self.pval(t.left)
                if a is _MISSING or isinstance(a, Meta) or a == "truthy":
                    raise Untranslatable(f"{self.cls}: dispatch on `{ast.unparse(t.left)}`")
                var = g.body[0].targets[0].id
                for entry in tab.elts:
                    if not (isinstance(entry, (ast.Tuple, ast.List)) and len(entry.elts) == 2
                            and isinstance(entry.elts[0], (ast.Tuple, ast.List)) and isinstance(entry.elts[1], ast.Constant)
                            and isinstance(entry.elts[1].value, str)):
                        raise Untranslatable(f"{self.cls}: dispatch table entry `{ast.unparse(entry)[:60]}`")
                    values = [self.pval(e) for e in entry.elts[0].elts]
                    if any(v is _MISSING for v in values):
                        raise Untranslatable(f"{self.cls}: dispatch table values `{ast.unparse(entry.elts[0])[:60]}`")
                    if a in values:
                        if entry.elts[1].value not in self.methods():
                            raise Untranslatable(f"{self.cls}: dispatch to unknown method {entry.elts[1].value}")
                        self.locals[var] = MethodRef(entry.elts[1].value)
                        break
                return None
        # (e) loops that only write non-tensor entries
        if self.is_meta_expr(st.iter) and all(
                isinstance(b, ast.Assign) and self.is_sample_sub(b.targets[0]) and self.is_meta_expr(b.value) for b in st.body):
            for b in st.body:
                try:
                    if self.sample_key(b.targets[0].slice) is not None:
                        raise Untranslatable("loop writes a tensor key")
                except Untranslatable:
                    pass
            return None
        raise Untranslatable(f"{self.cls}: loop `{ast.unparse(st)[:70]}`")

    def loop_over(self, lean_list: str, binder: str, keyvars: dict, body, extra_guard):
        saved_out, saved_kv, saved_guards = self.out, dict(self.keyvars), list(self.guards)
        self.out = []
        self.keyvars.update(keyvars)
        if extra_guard:
            self.guards.append(extra_guard)
        self.run_body(body)
        inner = self.out
        self.out, self.keyvars, self.guards = saved_out, saved_kv, saved_guards
        if len(inner) == 1:
            self.out.append(("list", f"({lean_list}.map fun {binder} => {inner[0]})"))
        elif inner:
            self.out.append(("list", f"({lean_list}.flatMap fun {binder} => [{', '.join(inner)}])"))
        return None

    def splitter_stmt(self, st: ast.Assign):
        """`input_mask, target_mask = zip(*[… self.split_method(mask[_], acs[_] if keep_acs else None, seed) …])`"""
        call = next(n for n in ast.walk(st.value) if isinstance(n, ast.Call) and ast.unparse(n.func) == "self.split_method")
        if len(call.args) != 3:
            raise Untranslatable("split_method arguments")

        def base(n):
            while isinstance(n, ast.Subscript):
                n = n.value
            v = self.ev(n)
            if not isinstance(v, Loc):
                raise Untranslatable(f"split_method argument `{ast.unparse(n)}`")
            return v
        args = [base(call.args[0])]
        a1 = call.args[1]
        if isinstance(a1, ast.IfExp):
            tv = self.truth(a1.test)
            if tv is None:
                raise Untranslatable("split_method acs argument")
            a1 = a1.body if tv else a1.orelse
        if ast.unparse(a1) != "None":
            args.append(base(a1))
        if "map(ord" not in ast.unparse(call.args[2]) or "use_seed" not in ast.unparse(call.args[2]):
            raise Untranslatable("split_method seed argument")
        names = [e.id for e in st.targets[0].elts]
        for inp, name in (("true", names[0]), ("false", names[1])):
            d = self.fresh()
            self.emit_assign(d.term, f"(.split {inp} ty seed)", [a.term for a in args])
            self.locals[name] = Loc(d.term, temp=True, kind="mask")
        return None

    def call_helper(self, call: ast.Call, method: str | None = None):
        """inline a private method of the same class at the call site: parameters are bound to the arguments' values, the
        body is executed in the caller's state, the value of the `return` that is reached is the result"""
        sub = inline_once_locals(find_function(self.tree, f"{self.cls}.{method or ast.unparse(call.func)[5:]}"))
        static = any(ast.unparse(d) == "staticmethod" for d in sub.decorator_list)
        params = [a.arg for a in (sub.args.args if static else sub.args.args[1:])]
        if len(call.args) > len(params) or any(k.arg not in params for k in call.keywords):
            raise Untranslatable(f"{self.cls}: call `{ast.unparse(call)[:60]}`")
        bound = dict(zip(params, call.args))
        bound.update({k.arg: k.value for k in call.keywords})
        saved = dict(self.locals)
        for pname, arg in bound.items():
            if isinstance(arg, ast.Name) and arg.id == "sample":
                if pname != "sample":
                    raise Untranslatable(f"{self.cls}: sample passed as `{pname}`")
                continue
            self.locals[pname] = self.ev(arg) if not self.is_meta_expr(arg) else Meta()
        depth = getattr(self, "_depth", 0)
        if depth > 3:
            raise Untranslatable(f"{self.cls}: helper calls nested too deeply")
        self._depth = depth + 1
        self.retval = None
        try:
            self.run_body(sub.body)
        finally:
            self._depth = depth
        result = self.retval
        # the helper's own locals do not leak, but locations it produced stay valid
        for k_ in list(self.locals):
            if k_ not in saved:
                del self.locals[k_]
        for k_, v_ in saved.items():
            self.locals[k_] = v_
        self.retval = None
        return result if result is not None else Meta()

    def meta_of(self, node: ast.AST) -> "Meta":
        """classification of a non-tensor value: the seed, a shape derived from the constructor's `shape`, or plain"""
        if any(is_seed_expr(n) for n in ast.walk(node)):
            return Meta("seed")
        if "self.shape" in ast.unparse(node):
            return Meta("shape-param")
        return Meta()

    def methods(self):
        cls = next(n for n in ast.walk(self.tree) if isinstance(n, ast.ClassDef) and n.name == self.cls)
        return {n.name for n in cls.body if isinstance(n, ast.FunctionDef)}

    def seed_value(self, node: ast.AST):
        if isinstance(node, ast.IfExp) and "use_seed" in ast.unparse(node.test) and "None" in (
                ast.unparse(node.body), ast.unparse(node.orelse)) and "sample[" in ast.unparse(node):
            return Meta("seed")
        if isinstance(node, ast.IfExp) and any(is_seed_expr(n) for n in ast.walk(node)) and "None" in (
                ast.unparse(node.body), ast.unparse(node.orelse)):
            return Meta("seed")
        return None

    def if_stmt(self, st: ast.If, meta_only):
        kt = self.key_test(st.test)
        if kt is not None:
            how, k = kt
            body_raises = any(isinstance(s, ast.Raise) for s in st.body)
            body_returns = any(isinstance(s, ast.Return) for s in st.body)
            if how == "notin" and body_raises and not st.orelse:
                if k is not None:
                    self.out.append(f".require {k}")
                return None
            if how == "notin" and body_returns and not st.orelse and len(st.body) == 1:
                if k is not None:
                    self.guards.append(k)        # the rest of the method runs only when the key is present
                return None
            if how == "in" and not st.orelse:
                if k is None:
                    self.run_body(st.body, meta_only=True)
                    return None
                self.guards.append(k)
                r = self.run_body(st.body, meta_only)
                self.guards.pop()
                return r
            raise Untranslatable(f"{self.cls}: key test `{ast.unparse(st.test)}`")
        # `if scaling_factor is not None:` for a value obtained by sample.get(key, None)
        t = st.test
        if (isinstance(t, ast.Compare) and len(t.ops) == 1 and isinstance(t.ops[0], ast.IsNot)
                and ast.unparse(t.comparators[0]) == "None" and isinstance(t.left, ast.Name)
                and isinstance(self.locals.get(t.left.id), Loc) and not st.orelse):
            self.guards.append(self.locals[t.left.id].term)
            r = self.run_body(st.body, meta_only)
            self.guards.pop()
            return r
        v = self.truth(st.test)
        if v is True:
            return self.run_body(st.body, meta_only)
        if v is False:
            return self.run_body(st.orelse, meta_only) if st.orelse else None
        # undecided: a condition on ranks / shapes / types / counts — only layout code may depend on it
        if self.is_shape_cond(st.test) or self.is_meta_expr(st.test) or all(isinstance(s, ast.Raise) for s in st.body):
            if all(isinstance(s, ast.Raise) for s in st.body) and not st.orelse:
                return None       # a precondition on shapes / counts
            if any(isinstance(s, ast.Return) for s in st.body) and not st.orelse and len(st.body) == 1:
                return None       # early exit on a count (nothing to do)
            self.run_body(st.body, meta_only=True)
            if st.orelse:
                self.run_body(st.orelse, meta_only=True)
            return None
        raise Untranslatable(f"{self.cls}: condition `{ast.unparse(st.test)[:60]}`")

    def finish(self) -> list[str]:
        for t in self.used_temps:
            if t not in self.consumed:
                self.out.append(f".delete {t}")
        return coalesce(self.out)

    def run(self) -> list[str]:
        self.retval = None
        self.run_body(self.fn.body)
        return self.finish()


# ---- "no instance / class / module state written after construction" -------------------------------
MUTATORS = {"append", "extend", "insert", "update", "setdefault", "add", "pop", "popitem", "clear", "remove", "discard",
            "appendleft", "sort", "reverse", "__setitem__", "copy_", "fill_", "zero_", "add_", "mul_", "div_", "sub_"}


def _self_root(t: ast.AST):
    """`self.a`, `self.a[i]`, `self.a.b[j]` … -> "a" (the instance attribute that is written); None otherwise"""
    while isinstance(t, (ast.Subscript, ast.Starred)):
        t = t.value
    chain = []
    while isinstance(t, ast.Attribute):
        chain.append(t.attr)
        t = t.value
    if isinstance(t, ast.Name) and t.id in ("self", "cls") and chain:
        return chain[-1]
    if isinstance(t, ast.Call) and ast.unparse(t.func) in ("type", "super") and chain:
        return "type(self)." + chain[-1]
    if isinstance(t, ast.Attribute):
        return None
    return None


def instance_state_writes(tree: ast.Module) -> list[tuple[str, str, str, str]]:
    """(class, method, attribute, how) for every write to instance / class / module state outside `__init__`"""
    rows = []
    for cls in [n for n in ast.walk(tree) if isinstance(n, ast.ClassDef)]:
        for fn in [n for n in cls.body if isinstance(n, (ast.FunctionDef, ast.AsyncFunctionDef))]:
            if fn.name == "__init__":
                continue
            for node in ast.walk(fn):
                targets = []
                if isinstance(node, ast.Assign):
                    targets = list(node.targets)
                elif isinstance(node, (ast.AugAssign, ast.AnnAssign)):
                    targets = [node.target]
                elif isinstance(node, ast.Delete):
                    targets = list(node.targets)
                elif isinstance(node, (ast.For, ast.AsyncFor)):
                    targets = [node.target]
                elif isinstance(node, ast.NamedExpr):
                    targets = [node.target]
                flat = []
                for t in targets:
                    flat.extend(t.elts if isinstance(t, (ast.Tuple, ast.List)) else [t])
                for t in flat:
                    a = _self_root(t)
                    if a is not None:
                        rows.append((cls.name, fn.name, a, "assign"))
                if isinstance(node, ast.Call) and isinstance(node.func, ast.Attribute) and node.func.attr in MUTATORS:
                    a = _self_root(node.func.value)
                    if a is not None:
                        rows.append((cls.name, fn.name, a, node.func.attr))
                if isinstance(node, (ast.Global, ast.Nonlocal)):
                    rows.append((cls.name, fn.name, ",".join(node.names), "global"))
                if isinstance(node, ast.Call) and ast.unparse(node.func) in ("setattr", "delattr", "object.__setattr__"):
                    rows.append((cls.name, fn.name, ast.unparse(node.args[1]) if len(node.args) > 1 else "?", "setattr"))
                if isinstance(node, ast.Call) and ast.unparse(node.func) in ("functools.lru_cache", "lru_cache", "functools.cache", "cache"):
                    rows.append((cls.name, fn.name, "cache", "memo"))
            for dec in fn.decorator_list:
                if "cache" in ast.unparse(dec):
                    rows.append((cls.name, fn.name, ast.unparse(dec), "memo"))
    return sorted(set(rows))


def data_early_returns(tree: ast.Module) -> list[tuple[str, int]]:
    """(class, number of `if <condition on the data>: return sample` shortcuts in `__call__` / `forward`): early exits whose
    condition looks at the tensors (shapes, counts) rather than only at constructor parameters (`self.…`) or at the presence
    of a key.  A shortcut skips the modelled program of the stage, so each one must be known to the model."""
    rows = []
    for cls in [n for n in ast.walk(tree) if isinstance(n, ast.ClassDef)]:
        cnt = 0
        for fn in [n for n in cls.body if isinstance(n, ast.FunctionDef) and n.name in ("__call__", "forward")]:
            for node in ast.walk(fn):
                if not (isinstance(node, ast.If) and any(isinstance(b, ast.Return) and b.value is not None
                                                         and ast.unparse(b.value) == "sample" for b in node.body)):
                    continue
                names = {n.id for n in ast.walk(node.test) if isinstance(n, ast.Name)} - {"self", "all", "any", "len", "zip", "isinstance", "tuple"}
                key_test = isinstance(node.test, ast.Compare) and any(isinstance(o, (ast.In, ast.NotIn)) for o in node.test.ops) \
                    and ast.unparse(node.test.comparators[-1]) in ("sample", "sample.keys()")
                # `x = sample.get(key, None)` … `if x is None: return sample` is a presence test too
                got = {t.id for a_ in ast.walk(fn) if isinstance(a_, ast.Assign) and isinstance(a_.value, ast.Call)
                       and ast.unparse(a_.value.func) == "sample.get" for t in a_.targets if isinstance(t, ast.Name)}
                if (isinstance(node.test, ast.Compare) and len(node.test.ops) == 1 and isinstance(node.test.ops[0], (ast.Is, ast.IsNot))
                        and isinstance(node.test.left, ast.Name) and node.test.left.id in got
                        and ast.unparse(node.test.comparators[0]) == "None"):
                    key_test = True
                if names and not key_test:
                    cnt += 1
        if cnt:
            rows.append((cls.name, cnt))
    return sorted(rows)


PERCENTILE_LOOP = """for _ in range(data.size(0)):
    non_padded_coil_data = data[_][(data[_] != 0).flatten(1).any(dim=1)]
    tview = -1.0 * T.modulus(non_padded_coil_data).view(-1)
    s, _ = torch.kthvalue(tview, int((1 - self.percentile) * tview.size()[0]) + 1)
    scaling_factor += [-1.0 * s]"""


def _norm(t: str) -> str:
    return " ".join(t.split())


def _parse_instr(i):
    """(kind, guards, dst, op, args) of an emitted instruction string"""
    if i.startswith(".assign "):
        rest = i[len(".assign "):]
        g_end = rest.index("]")
        guards = [x.strip() for x in rest[1:g_end].split(",") if x.strip()]
        rest = rest[g_end + 1:].strip()
        a_start = rest.rindex("[")
        args = [x.strip() for x in rest[a_start + 1:-1].split(",") if x.strip()]
        head = rest[:a_start].strip()
        dst, op = head.split(" ", 1)
        return ("assign", guards, dst, op.strip(), args)
    if i.startswith(".move "):
        _, a, b = i.split(" ", 2)
        return ("move", [], b, None, [a])
    if i.startswith(".delete "):
        return ("delete", [], i.split(" ", 1)[1], None, [])
    if i.startswith(".require "):
        return ("require", [], None, None, [i.split(" ", 1)[1]])
    raise Untranslatable(f"instruction `{i}`")


def _fmt_instr(p) -> str | None:
    kind, guards, dst, op, args = p
    if kind == "assign":
        return f".assign [{', '.join(guards)}] {dst} {op} [{', '.join(args)}]"
    if kind == "move":
        return None if args[0] == dst else f".move {args[0]} {dst}"
    if kind == "delete":
        return f".delete {dst}"
    return f".require {args[0]}"


def coalesce(instrs: list[str]) -> list[str]:
    """register coalescing: a temporary whose value ends up under sample key K (last use `move t K`, or sole argument
    of the final `K ← op [t]`) lives in K from its definition on, provided K is neither read nor written in between"""
    if any(isinstance(i, tuple) for i in instrs):
        return instrs          # programs with list-valued segments (loops over key lists) are left as they are
    prog = [_parse_instr(i) for i in instrs]
    changed = True
    while changed:
        changed = False
        for t in reversed(TEMPS):
            idx = [n for n, p in enumerate(prog) if p[2] == t or t in p[4] or t in p[1]]
            if not idx:
                continue
            first = idx[0]
            uses = [n for n in idx if prog[n][0] != "delete"]
            last = uses[-1]
            kind, guards, dst, op, args = prog[last]
            if guards or prog[first][0] != "assign" or prog[first][1] or prog[first][2] != t or first == last:
                continue
            if kind == "move" and args == [t] and dst not in TEMPS:
                K = dst
            elif kind == "assign" and args.count(t) == 1 and len(args) == 1 and dst not in TEMPS:
                K = dst
            else:
                continue
            between = prog[first + 1:last]
            if any(p[2] == K or K in p[4] or K in p[1] for p in between):
                continue
            if any(t in p[4] or t in p[1] or (p[2] == t and p[0] != "delete") for p in prog[last + 1:]):
                continue
            ren = lambda x: K if x == t else x   # noqa: E731
            new = []
            for n, p in enumerate(prog):
                if first <= n <= last:
                    p = (p[0], [ren(g) for g in p[1]], ren(p[2]) if p[2] else p[2], p[3], [ren(a) for a in p[4]])
                if p[0] == "delete" and p[2] == t:
                    continue
                new.append(p)
            prog = new
            changed = True
            break
    out = [_fmt_instr(p) for p in prog]
    return [o for o in out if o is not None]


def _match_rss(node: ast.AST):
    """`(X ** 2).sum(self.complex_dim).sum(self.coil_dim)` -> X"""
    t = node
    try:
        if (isinstance(t, ast.Call) and t.func.attr == "sum" and ast.unparse(t.args[0]) == "self.coil_dim"):
            t = t.func.value
            if isinstance(t, ast.Call) and t.func.attr == "sum" and ast.unparse(t.args[0]) == "self.complex_dim":
                t = t.func.value
                if isinstance(t, ast.BinOp) and isinstance(t.op, ast.Pow) and ast.unparse(t.right) == "2":
                    return t.left
    except AttributeError:
        pass
    return None


def _match_conj_mul(node: ast.AST):
    """`T.complex_multiplication(T.conjugate(A), B)` -> (A, B)"""
    if isinstance(node, ast.Call) and ast.unparse(node.func) == "T.complex_multiplication" and len(node.args) == 2:
        a = node.args[0]
        if isinstance(a, ast.Call) and ast.unparse(a.func) == "T.conjugate" and len(a.args) == 1:
            return a.args[0], node.args[1]
    return None
