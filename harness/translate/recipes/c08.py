"""C08 — translation of the transform builders into the ordered, condition-guarded stage list.

What is translated from /repo's *current* source on every run (pure `ast`, nothing is imported):

* `build_supervised_mri_transforms` → `Gen.C08.build_supervised : Config → List Stage`: every statement that
  touches `mri_transforms` in source order, its guard as a Boolean expression over the builder flags, every
  constructor call with the keys / flags it is given (an unknown class, keyword or expression makes the whole
  kernel `skipped` — never silently ignored);
* `build_mri_transforms` → `Gen.C08.build`: the keyword map of the inner call (which flags are overridden for the
  SSL variant), the early `return`, the SSL tail (splitter choice, deletes, renames, second `ComputeImage`);
* `ComputeZeroPadding.__call__`: the threshold comparison as a `ThrPred` expression (`zero_padding_threshold`);
* the seed expressions of `CreateSamplingMask`, `EstimateBodyCoilImage`, `CropKspace`, `MaskSplitter.forward`
  as the list of sample fields they mention, and whether the seed is actually passed to the mask function.

`Bridge/C08.lean` proves `Gen.C08.build c = Pipeline.build c` for symbolic `c` (by `rfl`).
"""
from __future__ import annotations

import ast

from ..gen import EXTRA, REPO, Untranslatable
from ..pyexpr import find_function, parse_file

MT = "direct/data/mri_transforms.py"
TYPES = "direct/types.py"
SSL = "direct/ssl/ssl.py"

KEYS = {
    "kspace": ".kspace", "masked_kspace": ".maskedKspace", "sampling_mask": ".samplingMask", "acs_mask": ".acsMask",
    "padding": ".padding", "sensitivity_map": ".sensitivityMap", "scaling_factor": ".scalingFactor",
    "target": ".target", "body_coil_image": ".bodyCoilImage", "input_masked_kspace": ".inputMaskedKspace",
    "target_masked_kspace": ".targetMaskedKspace", "input_sampling_mask": ".inputSamplingMask",
    "target_sampling_mask": ".targetSamplingMask", "input_kspace": ".inputKspace",
}
# builder parameter -> Config field (Bool flags)
FLAGS = {
    "rescale": "c.rescale", "pad": "c.pad", "mask_func": "c.maskFunc", "compress_coils": "c.compressCoils",
    "pad_coils": "c.padCoils", "estimate_sensitivity_maps": "c.estimateSmaps", "delete_acs_mask": "c.deleteAcsMask",
    "delete_kspace": "c.deleteKspace", "estimate_body_coil_image": "c.bodyCoil", "image_center_crop": "c.imageCenterCrop",
    "use_seed": "c.useSeed", "scale_percentile": "c.percentile", "sensitivity_maps_gaussian": "c.smapGaussian",
    "mask_split_keep_acs": "c.splitKeepAcs",
}
POSITIVE = {  # `x > 0.0`
    "random_rotation_probability": "c.rotation", "random_flip_probability": "c.flip",
    "random_reverse_probability": "c.reverse", "padding_eps": "c.paddingEps",
}
ENUM_PARAMS = {"sensitivity_maps_type": "c.smapType", "image_recon_type": "c.recon", "scaling_key": "c.scalingKey",
               "mask_split_type": "c.split"}
# Config field of every parameter of build_supervised (for the keyword map of the inner call)
FIELD_OF = {**{k: v[2:] for k, v in FLAGS.items()}, **{k: v[2:] for k, v in POSITIVE.items()},
            **{k: v[2:] for k, v in ENUM_PARAMS.items()}, "crop": "crop"}
IGNORED_PARAMS = {  # numeric hyper-parameters / operators: run-time data, not part of the stage table
    "forward_operator", "backward_operator", "crop_type", "rescale_mode", "rescale_2d_if_3d", "random_rotation_degrees",
    "random_flip_type", "sensitivity_maps_espirit_threshold", "sensitivity_maps_espirit_kernel_size",
    "sensitivity_maps_espirit_crop", "sensitivity_maps_espirit_max_iters",
}


def _enum_values(path: str) -> dict[str, str]:
    """`Class.MEMBER` -> string value, for every `class X(DirectEnum)` with string members in the file."""
    out = {}
    tree = parse_file(REPO / path)
    for node in ast.walk(tree):
        if isinstance(node, ast.ClassDef):
            for st in node.body:
                if (isinstance(st, ast.Assign) and len(st.targets) == 1 and isinstance(st.targets[0], ast.Name)
                        and isinstance(st.value, ast.Constant) and isinstance(st.value.value, str)):
                    out[f"{node.name}.{st.targets[0].id}"] = st.value.value
    return out


class Tr:
    def __init__(self):
        self.enums = {**_enum_values(TYPES), **_enum_values(SSL)}
        self.tree = parse_file(REPO / MT)
        self.ssl_tree = parse_file(REPO / SSL)
        self.wrappers = {}  # alias -> module class
        for st in self.tree.body:
            if (isinstance(st, ast.Assign) and isinstance(st.value, ast.Call)
                    and ast.unparse(st.value.func) == "ModuleWrapper" and st.value.args):
                self.wrappers[st.targets[0].id] = ast.unparse(st.value.args[0])

    # ---- strings / keys --------------------------------------------------------------------------
    def string(self, node: ast.AST) -> str:
        if isinstance(node, ast.Constant) and isinstance(node.value, str):
            return node.value
        if isinstance(node, ast.Attribute):
            t = ast.unparse(node)
            if t in self.enums:
                return self.enums[t]
        if isinstance(node, ast.BinOp) and isinstance(node.op, ast.Add):
            return self.string(node.left) + self.string(node.right)
        raise Untranslatable(f"not a key expression: `{ast.unparse(node)}`")

    def key(self, node: ast.AST) -> str:
        s = self.string(node)
        if s not in KEYS:
            raise Untranslatable(f"unknown sample key {s!r}")
        return KEYS[s]

    def keys(self, node: ast.AST) -> str:
        if not isinstance(node, (ast.List, ast.Tuple)):
            raise Untranslatable(f"not a key list: `{ast.unparse(node)}`")
        return "[" + ", ".join(self.key(e) for e in node.elts) + "]"

    # ---- flags -----------------------------------------------------------------------------------
    def flag(self, node: ast.AST, negate: bool = False) -> str:
        t = ast.unparse(node)
        if isinstance(node, ast.UnaryOp) and isinstance(node.op, ast.Not):
            return self.flag(node.operand, not negate)
        if isinstance(node, ast.Compare) and len(node.ops) == 1:
            l, r = ast.unparse(node.left), ast.unparse(node.comparators[0])
            if l == "transforms_type" and r == "TransformsType.SUPERVISED" and isinstance(node.ops[0], (ast.Eq, ast.NotEq)):
                sup = isinstance(node.ops[0], ast.Eq) != negate
                return "(!c.ssl)" if sup else "c.ssl"
        if negate:
            return f"(!{self.flag(node)})"
        if isinstance(node, ast.Constant) and isinstance(node.value, bool):
            return "true" if node.value else "false"
        if isinstance(node, ast.Name):
            if node.id == "crop":
                return "(c.crop != .none)"
            if node.id in FLAGS:
                return FLAGS[node.id]
        if isinstance(node, ast.Compare) and len(node.ops) == 1:
            l, r = ast.unparse(node.left), ast.unparse(node.comparators[0])
            if isinstance(node.ops[0], ast.Gt) and l in POSITIVE and r in ("0.0", "0"):
                return POSITIVE[l]
            if isinstance(node.ops[0], ast.IsNot) and r == "None" and l in FLAGS:
                return FLAGS[l]
        if isinstance(node, ast.BoolOp):
            op = " && " if isinstance(node.op, ast.And) else " || "
            return "(" + op.join(self.flag(v) for v in node.values) + ")"
        if isinstance(node, ast.IfExp):
            return f"(if {self.flag(node.test)} then {self.flag(node.body)} else {self.flag(node.orelse)})"
        raise Untranslatable(f"flag expression `{t}`")

    def enum_param(self, node: ast.AST) -> str:
        if isinstance(node, ast.Name) and node.id in ENUM_PARAMS:
            return ENUM_PARAMS[node.id]
        raise Untranslatable(f"enum expression `{ast.unparse(node)}`")

    # ---- class bodies ----------------------------------------------------------------------------
    def seed_fields(self, tree, qual: str, target: str | None) -> tuple[str, bool]:
        """(Lean list of sample fields of the seed expression, seed is passed on to every `self.mask_func` call)."""
        fn = find_function(tree, qual)
        seed_expr = None
        for node in ast.walk(fn):
            if isinstance(node, ast.IfExp) and "map(ord" in ast.unparse(node.orelse) and "use_seed" in ast.unparse(node.test):
                if ast.unparse(node.body) != "None" or not isinstance(node.test, ast.UnaryOp):
                    raise Untranslatable(f"unexpected seed conditional `{ast.unparse(node)}`")
                if seed_expr is not None:
                    raise Untranslatable("more than one seed expression")
                seed_expr = node.orelse
        if seed_expr is None:
            raise Untranslatable(f"seed expression not found in {qual}")
        fields = []
        for node in ast.walk(seed_expr):
            if isinstance(node, ast.Subscript) and ast.unparse(node.value) == "sample":
                k = node.slice.value if isinstance(node.slice, ast.Constant) else None
                if k == "filename":
                    fields.append((node.lineno, node.col_offset, ".filename"))
                elif k == "slice_no":
                    fields.append((node.lineno, node.col_offset, ".sliceNo"))
                else:
                    raise Untranslatable(f"seed mentions sample[{k!r}]")
        fields = [f for _, _, f in sorted(fields)]
        passed = True
        for node in ast.walk(fn):
            if isinstance(node, ast.Call) and ast.unparse(node.func) == "self.mask_func":
                kw = {k.arg: ast.unparse(k.value) for k in node.keywords}
                if kw.get("seed") != (target or "seed"):
                    passed = False
        return "[" + ", ".join(fields) + "]", passed

    def threshold(self) -> str:
        fn = find_function(self.tree, "ComputeZeroPadding.__call__")
        cmp_node = None
        local = None
        for st in fn.body:
            if isinstance(st, ast.Assign) and ast.unparse(st.targets[0]) == "padding":
                for node in ast.walk(st.value):
                    if isinstance(node, ast.Compare):
                        cmp_node = node
                        break
                if cmp_node is not None:
                    break
        if cmp_node is None or len(cmp_node.ops) != 1:
            raise Untranslatable("threshold comparison not found in ComputeZeroPadding.__call__")
        # the tensor that is thresholded: the local on the left-hand side
        names = {n.id for n in ast.walk(cmp_node) if isinstance(n, ast.Name)} - {"torch", "self"}
        if len(names) != 1:
            raise Untranslatable(f"threshold mentions several locals {sorted(names)}")
        local = names.pop()

        def te(n: ast.AST) -> str:
            t = ast.unparse(n)
            if isinstance(n, ast.Name) and n.id == local:
                return ".x"
            if t in (f"torch.mean({local})", f"{local}.mean()"):
                return ".mean"
            if t == "self.eps":
                return ".eps"
            if isinstance(n, ast.Constant) and isinstance(n.value, int) and not isinstance(n.value, bool) and n.value >= 0:
                return f"(.lit {n.value})"
            if isinstance(n, ast.BinOp) and isinstance(n.op, ast.Mult):
                return f"(.mul {te(n.left)} {te(n.right)})"
            if isinstance(n, ast.BinOp) and isinstance(n.op, ast.Add):
                return f"(.add {te(n.left)} {te(n.right)})"
            raise Untranslatable(f"threshold term `{t}`")

        op = cmp_node.ops[0]
        l, r = cmp_node.left, cmp_node.comparators[0]
        if isinstance(op, (ast.Gt, ast.GtE)):
            l, r = r, l
        elif not isinstance(op, (ast.Lt, ast.LtE)):
            raise Untranslatable("threshold comparison operator")
        strict = "true" if isinstance(op, (ast.Lt, ast.Gt)) else "false"
        return f"⟨{strict}, {te(l)}, {te(r)}⟩"

    # ---- constructor calls -----------------------------------------------------------------------
    def stage(self, call: ast.AST, splitter_kwargs: dict | None = None) -> str:
        if not isinstance(call, ast.Call) or not isinstance(call.func, ast.Name):
            raise Untranslatable(f"not a transform constructor: `{ast.unparse(call)}`")
        name = self.wrappers.get(call.func.id, call.func.id)
        kw = {k.arg: k.value for k in call.keywords}
        if None in kw:
            raise Untranslatable(f"**kwargs in `{ast.unparse(call)}`")
        pos = list(call.args)

        def take(names_, idx=None, required=True):
            for n in ([names_] if isinstance(names_, str) else names_):
                if n in kw:
                    return kw.pop(n)
            if idx is not None and idx < len(pos) and pos[idx] is not None:
                v, pos[idx] = pos[idx], None
                return v
            if required:
                raise Untranslatable(f"{name}: argument {names_} not given")
            return None

        def drop(*names_):
            for n in names_:
                kw.pop(n, None)

        def done(result):
            if kw or any(p is not None for p in pos):
                left = list(kw) + [ast.unparse(p) for p in pos if p is not None]
                raise Untranslatable(f"{name}: unexpected arguments {left}")
            return result

        def same(node, text):
            if node is None or ast.unparse(node) != text:
                raise Untranslatable(f"{name}: expected `{text}`, found `{ast.unparse(node) if node else None}`")

        if name == "ToTensor":
            return done(".toTensor")
        if name == "CropKspace":
            same(take("crop", 0), "crop")
            drop("forward_operator", "backward_operator", "random_crop_sampler_type")
            center = self.flag(take("image_space_center_crop"))
            seeded = self.flag(take("random_crop_sampler_use_seed"))
            return done(f".cropKspace {center} {seeded}")
        if name == "RescaleKspace":
            drop("shape", "forward_operator", "backward_operator", "rescale_mode", "rescale_2d_if_3d")
            return done(f".rescaleKspace {self.key(take('kspace_key'))}")
        if name == "PadKspace":
            drop("pad_shape", "forward_operator", "backward_operator")
            return done(f".padKspace {self.key(take('kspace_key'))}")
        if name in ("RandomRotation", "RandomFlip", "RandomReverse"):
            drop("degrees", "p", "flip")
            ks = self.keys(take(["keys_to_rotate", "keys_to_flip", "keys_to_reverse"]))
            if ks != "[.kspace, .sensitivityMap]":
                raise Untranslatable(f"{name}: keys {ks}")
            return done({"RandomRotation": ".randomRotation", "RandomFlip": ".randomFlip",
                         "RandomReverse": ".randomReverse"}[name])
        if name == "ComputeZeroPadding":
            kk, pk = self.key(take("kspace_key", 0)), self.key(take("padding_key", 1))
            same(take("eps", 2), "padding_eps")
            return done(f".computeZeroPadding {kk} {pk} zero_padding_threshold")
        if name == "ApplyZeroPadding":
            return done(f".applyZeroPadding {self.key(take('kspace_key', 0))} {self.key(take('padding_key', 1))}")
        if name == "CreateSamplingMask":
            same(take("mask_func", 0), "mask_func")
            shape = take("shape")
            if ast.unparse(shape) != "None if isinstance(crop, str) else crop":
                raise Untranslatable(f"CreateSamplingMask shape `{ast.unparse(shape)}`")
            seed = self.flag(take("use_seed"))
            acs = self.flag(take("return_acs"))
            return done(f".createSamplingMask (c.crop == .tuple) (maskSeed {seed}) {acs}")
        if name == "CompressCoilModule":
            drop("num_coils")
            return done(f".compressCoil {self.key(take('kspace_key'))}")
        if name == "PadCoilDimensionModule":
            drop("pad_coils")
            return done(f".padCoilDimension {self.key(take('key'))}")
        if name == "EstimateBodyCoilImage":
            same(take("mask_func", 0), "mask_func")
            drop("backward_operator")
            return done(f".estimateBodyCoilImage (bodySeed {self.flag(take('use_seed'))})")
        if name == "EstimateSensitivityMapModule":
            drop("backward_operator", "espirit_threshold", "espirit_kernel_size", "espirit_crop", "espirit_max_iters")
            kk = self.key(take("kspace_key"))
            ty = self.enum_param(take("type_of_map"))
            g = self.flag(take("gaussian_sigma"))
            return done(f".estimateSensitivityMap {kk} {ty} {g}")
        if name == "DeleteKeysModule":
            return done(f".deleteKeys {self.keys(take('keys', 0))}")
        if name == "RenameKeysModule":
            return done(f".renameKeys {self.keys(take('old_keys', 0))} {self.keys(take('new_keys', 1))}")
        if name == "ApplyMaskModule":
            return done(f".applyMask {self.key(take('sampling_mask_key'))} {self.key(take('input_kspace_key'))} "
                        f"{self.key(take('target_kspace_key'))}")
        if name == "ComputeScalingFactorModule":
            nk = self.enum_param(take("normalize_key"))
            pct = self.flag(take("percentile"))
            return done(f".computeScalingFactor {nk} {pct} {self.key(take('scaling_factor_key'))}")
        if name == "NormalizeModule":
            return done(f".normalize {self.key(take('scaling_factor_key'))} {self.keys(take('keys_to_normalize'))}")
        if name == "ComputeImageModule":
            drop("backward_operator")
            return done(f".computeImage {self.key(take('kspace_key'))} {self.key(take('target_key'))} "
                        f"{self.enum_param(take('type_reconstruction'))}")
        if name == "AddBooleanKeysModule":
            a, b = take("keys", 0), take("values", 1)
            if ast.unparse(a) != "['is_ssl']":
                raise Untranslatable(f"AddBooleanKeys keys `{ast.unparse(a)}`")
            return done(".addBooleanKeys")
        raise Untranslatable(f"unknown transform class `{name}`")

    # ---- builders --------------------------------------------------------------------------------
    def segments(self, fn: ast.FunctionDef, var: str, first_from_call: str | None = None):
        """Yield Lean list expressions for the statements that build `var`, in order.  Returns
        (segments, leftover statements after an early return guard) handling."""
        raise NotImplementedError

    def build_supervised(self) -> str:
        fn = find_function(self.tree, "build_supervised_mri_transforms")
        segs = []
        started = False
        for st in fn.body:
            if isinstance(st, ast.Expr) and isinstance(st.value, ast.Constant):
                continue  # docstring
            if isinstance(st, (ast.AnnAssign, ast.Assign)):
                tgt = st.target if isinstance(st, ast.AnnAssign) else st.targets[0]
                if ast.unparse(tgt) != "mri_transforms" or started:
                    raise Untranslatable(f"unexpected assignment `{ast.unparse(st)[:60]}`")
                segs.append((None, self.stage_items(st.value)))
                started = True
                continue
            if isinstance(st, ast.Return):
                if ast.unparse(st.value) != "Compose(mri_transforms)":
                    raise Untranslatable(f"unexpected return `{ast.unparse(st.value)}`")
                break
            segs.append(self.segment(st))
        if not started:
            raise Untranslatable("`mri_transforms = [...]` not found")
        return nf(segs)

    def stage_items(self, node: ast.AST) -> list[str]:
        if not isinstance(node, ast.List):
            raise Untranslatable(f"not a list of transforms: `{ast.unparse(node)[:60]}`")
        return [self.stage(e) for e in node.elts]

    def addition(self, st: ast.stmt) -> list[str]:
        """`mri_transforms += [...]` or `mri_transforms.append(x)` -> Lean stage terms"""
        if isinstance(st, ast.AugAssign) and isinstance(st.op, ast.Add) and ast.unparse(st.target) == "mri_transforms":
            return self.stage_items(st.value)
        if (isinstance(st, ast.Expr) and isinstance(st.value, ast.Call)
                and ast.unparse(st.value.func) == "mri_transforms.append" and len(st.value.args) == 1):
            return [self.stage(st.value.args[0])]
        raise Untranslatable(f"statement `{ast.unparse(st)[:70]}`")

    def segment(self, st: ast.stmt):
        """(guard or None, stages)"""
        if isinstance(st, ast.If):
            if st.orelse:
                raise Untranslatable("if/else around transforms")
            items = [x for s_ in st.body for x in self.addition(s_)]
            return (self.flag(st.test), items)
        return (None, self.addition(st))

    def build_outer(self) -> str:
        fn = find_function(self.tree, "build_mri_transforms")
        sup = find_function(self.tree, "build_supervised_mri_transforms")
        sup_params = [a.arg for a in sup.args.args]
        stmts = list(fn.body)
        out_segs: list[str] = []
        inner = None
        tail_guard = None
        tail: list[str] = []
        splitter_kwargs = None
        i = 0
        while i < len(stmts):
            st = stmts[i]
            i += 1
            text = ast.unparse(st)
            if isinstance(st, ast.Expr) and isinstance(st.value, ast.Constant):
                continue
            touches = any(isinstance(n, ast.Name) and n.id == "mri_transforms" for n in ast.walk(st))
            if "logger" in text and not touches:
                # logging only (assignment of the logger, info/warning calls, `if …: logger.warning(…)`)
                bad = [n for n in ast.walk(st) if isinstance(n, (ast.Return, ast.AugAssign))]
                if bad:
                    raise Untranslatable(f"unexpected statement `{text[:60]}`")
                continue
            if isinstance(st, ast.Assign) and ast.unparse(st.targets[0]) == "mri_transforms":
                v = st.value
                if not (isinstance(v, ast.Attribute) and v.attr == "transforms" and isinstance(v.value, ast.Call)
                        and ast.unparse(v.value.func) == "build_supervised_mri_transforms" and not v.value.args):
                    raise Untranslatable("inner call of build_supervised_mri_transforms not found")
                updates = []
                given = set()
                for k in v.value.keywords:
                    given.add(k.arg)
                    if isinstance(k.value, ast.Name) and k.value.id == k.arg:
                        continue
                    if k.arg in IGNORED_PARAMS or k.arg not in FIELD_OF:
                        raise Untranslatable(f"inner call passes `{k.arg}={ast.unparse(k.value)}`")
                    updates.append(f"{FIELD_OF[k.arg]} := {self.flag(k.value)}")
                missing = [p for p in sup_params if p not in given]
                if missing:
                    raise Untranslatable(f"inner call does not pass {missing}")
                inner = "build_supervised " + ("{ c with " + ", ".join(updates) + " }" if updates else "c")
                continue
            if inner is None:
                raise Untranslatable(f"statement before the inner call: `{text[:60]}`")
            if isinstance(st, ast.If) and len(st.body) == 1 and isinstance(st.body[0], ast.Return) and not st.orelse:
                if ast.unparse(st.body[0].value) != "Compose(mri_transforms)" or tail_guard is not None:
                    raise Untranslatable("unexpected early return")
                tail_guard = self.flag(st.test, negate=True)
                continue
            if isinstance(st, ast.Assign) and ast.unparse(st.targets[0]) == "mask_splitter_kwargs":
                if not isinstance(st.value, ast.Dict):
                    raise Untranslatable("mask_splitter_kwargs is not a dict literal")
                splitter_kwargs = {self.string(k): v for k, v in zip(st.value.keys, st.value.values)}
                continue
            if isinstance(st, ast.Return):
                if ast.unparse(st.value) != "Compose(mri_transforms)":
                    raise Untranslatable("unexpected return")
                break
            items = self.outer_addition(st, splitter_kwargs)
            if tail_guard is not None:
                tail.extend(items)
            else:
                out_segs.append((None, items))
        if inner is None:
            raise Untranslatable("inner call not found")
        if tail_guard is not None:
            out_segs.append((tail_guard, tail))
        return inner + "\n  ++ (" + nf(out_segs) + ")"

    def outer_addition(self, st: ast.stmt, splitter_kwargs) -> str:
        if not (isinstance(st, ast.AugAssign) and isinstance(st.op, ast.Add) and ast.unparse(st.target) == "mri_transforms"
                and isinstance(st.value, ast.List)):
            raise Untranslatable(f"statement `{ast.unparse(st)[:70]}`")
        items = []
        for e in st.value.elts:
            if isinstance(e, ast.IfExp):
                items.append(self.splitter(e, splitter_kwargs))
            else:
                items.append(self.stage(e))
        return items

    def splitter(self, e: ast.IfExp, kwargs) -> str:
        """GaussianMaskSplitter(**kw, …) if type == GAUSSIAN else (Uniform… if type == UNIFORM else Half…)"""
        if kwargs is None:
            raise Untranslatable("mask_splitter_kwargs not defined before the splitter")
        expect = [("MaskSplitterType.GAUSSIAN", "GaussianMaskSplitterModule"),
                  ("MaskSplitterType.UNIFORM", "UniformMaskSplitterModule")]
        node = e
        for member, cls in expect:
            if not (isinstance(node, ast.IfExp) and ast.unparse(node.test) == f"mask_split_type == {member}"):
                raise Untranslatable(f"splitter choice `{ast.unparse(node)[:60]}`")
            self._splitter_call(node.body, cls)
            node = node.orelse
        self._splitter_call(node, "HalfMaskSplitterModule")
        keep = self.flag(kwargs.get("keep_acs")) if "keep_acs" in kwargs else None
        seed = self.flag(kwargs.get("use_seed")) if "use_seed" in kwargs else None
        key = self.key(kwargs.get("kspace_key")) if "kspace_key" in kwargs else None
        if None in (keep, seed, key):
            raise Untranslatable("mask_splitter_kwargs lacks keep_acs / use_seed / kspace_key")
        return f".maskSplitter c.split {keep} (splitSeed {seed}) {key}"

    def _splitter_call(self, call: ast.AST, cls: str):
        if not isinstance(call, ast.Call) or self.wrappers.get(ast.unparse(call.func), ast.unparse(call.func)) != cls:
            raise Untranslatable(f"expected {cls}, found `{ast.unparse(call)[:50]}`")
        stars = [k for k in call.keywords if k.arg is None]
        if len(stars) != 1 or "mask_splitter_kwargs" not in ast.unparse(stars[0].value):
            raise Untranslatable(f"{cls} is not given **mask_splitter_kwargs")
        if ast.unparse(stars[0].value) != "mask_splitter_kwargs" and "!= 'ratio'" not in ast.unparse(stars[0].value):
            raise Untranslatable(f"{cls}: kwargs filter `{ast.unparse(stars[0].value)}`")
        for k in call.keywords:
            if k.arg in ("keep_acs", "use_seed", "kspace_key"):
                raise Untranslatable(f"{cls} overrides {k.arg}")


def nf(segs) -> str:
    """list normal form, independent of how unconditional additions are grouped into statements:
    unconditional stages are `::` cells, guarded ones `opt guard [...] ++ rest`"""
    out = "[]"
    for guard, items in reversed(segs):
        if guard is None:
            for it in reversed(items):
                out = f"{it} ::\n  ({out})" if out != "[]" else f"{it} :: []"
        else:
            out = f"opt {guard} [{', '.join(items)}] ++\n  ({out})"
    return out


FALLBACK = """/-- SKIPPED ({reason}); stands for the hand-written model, the bridge is vacuous -/
def zero_padding_threshold : ThrPred := thrCurrent
def maskSeed (useSeed : Bool) : Option (List SeedField) := seedOf useSeed [.filename]
def bodySeed (useSeed : Bool) : Option (List SeedField) := seedOf useSeed [.filename]
def splitSeed (useSeed : Bool) : Option (List SeedField) := seedOf useSeed [.filename, .sliceNo]
def crop_seed_fields : List SeedField := [.filename]
def build_supervised (c : Config) : List Stage := Pipeline.buildSupervisedNF c
def build (c : Config) : List Stage := Pipeline.buildNF c
"""


def _c08_extra():
    head = "open DirectVerif.Pipeline\n\n"
    names = ["zero_padding_threshold", "mask_seed", "body_coil_seed", "splitter_seed", "crop_seed", "build_supervised",
             "build"]
    try:
        tr = Tr()
        thr = tr.threshold()
        mfields, mpassed = tr.seed_fields(tr.tree, "CreateSamplingMask.__call__", None)
        bfields, bpassed = tr.seed_fields(tr.tree, "EstimateBodyCoilImage.__call__", None)
        sfields, _ = tr.seed_fields(tr.ssl_tree, "MaskSplitter.forward", None)
        cfields, _ = tr.seed_fields(tr.tree, "CropKspace.__call__", None)
        sup = tr.build_supervised()
        outer = tr.build_outer()

        def seed_def(name, fields, passed):
            body = f"seedOf useSeed {fields}" if passed else "none   -- the seed is not passed to the mask function"
            return f"def {name} (useSeed : Bool) : Option (List SeedField) := {body}\n"

        text = (
            head
            + f"/-- translated from `{MT}`:`ComputeZeroPadding.__call__` (the comparison that defines `padding`) -/\n"
            + f"def zero_padding_threshold : ThrPred := {thr}\n\n"
            + f"/-- translated from `{MT}`:`CreateSamplingMask.__call__` (seed expression, `seed=seed` passed on) -/\n"
            + seed_def("maskSeed", mfields, mpassed)
            + f"/-- translated from `{MT}`:`EstimateBodyCoilImage.__call__` -/\n"
            + seed_def("bodySeed", bfields, bpassed)
            + f"/-- translated from `{SSL}`:`MaskSplitter.forward` -/\n"
            + seed_def("splitSeed", sfields, True)
            + f"/-- translated from `{MT}`:`CropKspace.__call__` (random-crop seed) -/\n"
            + f"def crop_seed_fields : List SeedField := {cfields}\n\n"
            + f"/-- translated from `{MT}`:`build_supervised_mri_transforms` (statement order, guards, constructor arguments) -/\n"
            + f"def build_supervised (c : Config) : List Stage :=\n  {sup}\n\n"
            + f"/-- translated from `{MT}`:`build_mri_transforms` -/\n"
            + f"def build (c : Config) : List Stage :=\n  {outer}\n"
        )
        return text, {n: "translated" for n in names}
    except Untranslatable as e:
        return head + FALLBACK.format(reason=str(e).replace("-/", "- /")), {n: f"skipped: {e}" for n in names}


EXTRA["C08"] = _c08_extra

# make sure Gen/C08.lean imports the model (gen.py only adds imports of registered kernels)
from ..gen import Kernel, register  # noqa: E402

register("C08", [
    Kernel("builder_flags", MT, "build_supervised_mri_transforms", [], "(32 : Int)",
           lambda k, fn: f"def {k.name} : Int := ({len(fn.args.args)} : Int)\n", imports=("DirectVerif.Model.Pipeline", "DirectVerif.Lemmas.C08NF")),
])
