"""C05 — RNG-access table of every mask generator, generated from /repo's current source.

An AST walk over each generator class's `mask_func` and every helper it (transitively) calls inside
`direct/common/subsample.py` records, for each call whose attribute chain names a random stream
(`self.rng.*`, a locally built `RandomState()`, `np.random.*`, `random.*`, `torch.rand*/manual_seed…`),
the stream and whether the call is lexically inside `with temp_seed(<that stream>, seed)`; for each
Cython kernel call where its integer seed comes from; for each generator whether the `return_acs`
return sits after the leading draws; the statement skeleton of `temp_seed`; and for the `.pyx` kernels
whether `srand(seed)` precedes every `rand()`.

Emitted as plain Lean data (no imports needed); `Bridge/C05.lean` decides the predicates.
The same table (with function names / line numbers) is used by `harness/props/c05.py` to map every
*executed* draw of the real code (caller frame of the recording RandomState) to its static site.
"""
from __future__ import annotations

import ast
import re

from ..gen import EXTRA, REPO, Untranslatable, parse_file

SUB = "direct/common/subsample.py"
PYX = ["direct/common/_gaussian.pyx", "direct/common/_poisson.pyx"]
GENERATORS = ["FastMRIRandom", "FastMRIEquispaced", "FastMRIMagic", "CartesianRandom", "CartesianEquispaced",
              "CartesianMagic", "Gaussian1D", "Gaussian2D", "Radial", "Spiral", "VariableDensityPoisson",
              "KtRadial", "KtUniform", "KtGaussian1D"]
KERNELS = {"gaussian_mask_1d", "gaussian_mask_2d", "_poisson"}
SRC_CODE = {"priv": 0, "fresh": 1, "npGlobal": 2, "torchGlobal": 3, "pyGlobal": 4, "unknown": 5}
_CTORS = {"RandomState", "default_rng", "Generator", "SeedSequence", "MT19937", "PCG64"}
_TORCH = re.compile(r"^torch\.(rand\w*|manual_seed|seed|normal|bernoulli|multinomial|poisson|initial_seed|"
                    r"get_rng_state|set_rng_state|random\.\w+|Generator)$")
TEMP_SEED_SHAPE = ["get_state", "seed", "try", "yield", "finally", "set_state"]


def _chain(func: ast.AST) -> str | None:
    """dotted name of a call target made of names/attributes only (`a.b.c`), else None"""
    parts = []
    while isinstance(func, ast.Attribute):
        parts.append(func.attr)
        func = func.value
    if isinstance(func, ast.Name):
        parts.append(func.id)
        return ".".join(reversed(parts))
    return None


def _is_ctor(chain: str) -> bool:
    parts = chain.split(".")
    return parts[-1] in _CTORS and (len(parts) == 1 or "random" in parts)


class TableBuilder:
    def __init__(self, tree: ast.Module):
        self.classes = {c.name: c for c in tree.body if isinstance(c, ast.ClassDef)}
        self.funcs = {f.name: f for f in tree.body if isinstance(f, ast.FunctionDef)}
        self.sites: list[dict] = []           # distinct static sites
        self._index: dict[tuple, int] = {}
        self.kernel_calls: list[dict] = []
        self.gens: list[dict] = []
        self.self_writes: list[dict] = []     # `self.<attr> = …` / in-place mutation of instance state inside mask_func + helpers

    # -- class hierarchy ---------------------------------------------------------------------
    def resolve(self, cls: str, name: str):
        seen = set()
        while cls in self.classes and cls not in seen:
            seen.add(cls)
            c = self.classes[cls]
            for st in c.body:
                if isinstance(st, ast.FunctionDef) and st.name == name:
                    return cls, st
            bases = [ast.unparse(b) for b in c.bases]
            cls = next((b for b in bases if b in self.classes), None)
        return None, None

    def site(self, qual, node, method, src, in_scope, kind) -> int:
        key = (qual, node.lineno, node.col_offset, src, bool(in_scope))
        if key not in self._index:
            self._index[key] = len(self.sites)
            self.sites.append({"func": qual, "name": qual.split(".")[-1], "lineno": node.lineno,
                               "end_lineno": getattr(node, "end_lineno", node.lineno), "method": method, "src": src,
                               "in_scope": bool(in_scope), "kind": kind})
        return self._index[key]

    # -- one generator -------------------------------------------------------------------------
    def generator(self, name: str):
        cls = name + "MaskFunc"
        owner, fn = self.resolve(cls, "mask_func")
        if fn is None:
            raise Untranslatable(f"{cls}.mask_func not found")
        withs = [n for n in ast.walk(fn) if isinstance(n, ast.With) and any(self._temp_seed_item(i) for i in n.items)]
        scope_ok = False
        if len(withs) == 1:
            it = next(i for i in withs[0].items if self._temp_seed_item(i))
            a = it.context_expr.args
            params = [x.arg for x in fn.args.args]
            scope_ok = (len(a) == 2 and ast.unparse(a[0]) == "self.rng" and ast.unparse(a[1]) == "seed"
                        and "seed" in params and not it.context_expr.keywords)
        acs_ifs = [n.lineno for n in ast.walk(fn) if isinstance(n, ast.If) and "return_acs" in ast.unparse(n.test)
                   and any(isinstance(s, ast.Return) for s in n.body)]
        acs_line = min(acs_ifs) if acs_ifs else -1
        g = {"name": name, "scope_ok": scope_ok, "sites": [], "lead": [], "acs_line": acs_line, "owner": owner}
        self._gen = g
        self._visited = set()
        self.walk_fn(fn, owner, cls, in_priv_scope=False, param_prov={}, lead=None)
        self.gens.append(g)

    @staticmethod
    def _temp_seed_item(item: ast.withitem) -> bool:
        c = item.context_expr
        return isinstance(c, ast.Call) and ast.unparse(c.func).split(".")[-1] == "temp_seed"

    # -- walking ---------------------------------------------------------------------------------
    def walk_fn(self, fn, owner, cls, in_priv_scope, param_prov, lead):
        qual = f"{owner}.{fn.name}" if owner else fn.name
        key = (qual, in_priv_scope, lead, tuple(sorted(param_prov.items())))
        if key in self._visited:
            return
        self._visited.add(key)
        fresh = set()
        for n in ast.walk(fn):
            if (isinstance(n, ast.Assign) and len(n.targets) == 1 and isinstance(n.targets[0], ast.Name)
                    and isinstance(n.value, ast.Call) and _is_ctor(_chain(n.value.func) or "")):
                fresh.add(n.targets[0].id)
        ctx = {"qual": qual, "cls": cls, "fresh": fresh, "params": {a.arg for a in fn.args.args},
               "param_prov": param_prov, "top": lead is None}
        self.walk_body(fn.body, ctx, scopes={"self.rng"} if in_priv_scope else set(), lead=lead)

    _MUTATORS = {"append", "update", "setdefault", "pop", "clear", "add", "extend", "insert", "remove", "popitem",
                 "__setitem__", "discard", "sort", "reverse", "fill"}

    def scan_self_writes(self, st, ctx):
        """instance state written by this (simple) statement: the model's body is a function of its arguments and of
        the drawn values only, so any per-instance memory (memo, cache, counter) must be visible here"""
        found = []
        for n in ast.walk(st):
            if isinstance(n, (ast.Attribute, ast.Subscript)) and isinstance(getattr(n, "ctx", None), (ast.Store, ast.Del)):
                b = n
                while isinstance(b, (ast.Attribute, ast.Subscript)):
                    b = b.value
                if isinstance(b, ast.Name) and b.id == "self":
                    found.append((n.lineno, ast.unparse(n)[:50]))
            if isinstance(n, ast.Call):
                ch = _chain(n.func)
                if ch in ("setattr", "object.__setattr__") and n.args and ast.unparse(n.args[0]) == "self":
                    found.append((n.lineno, ast.unparse(n)[:50]))
                if ch and ch.startswith("self.") and len(ch.split(".")) == 3 and ch.split(".")[1] != "rng" \
                        and ch.split(".")[2] in self._MUTATORS:
                    found.append((n.lineno, ast.unparse(n)[:50]))
                if ch and ch.startswith("self.__dict__"):
                    found.append((n.lineno, ast.unparse(n)[:50]))
        for ln, txt in found:
            rec = {"gen": self._gen["name"], "func": ctx["qual"], "lineno": ln, "text": txt.replace('"', "'")}
            if rec not in self.self_writes:
                self.self_writes.append(rec)

    def walk_body(self, stmts, ctx, scopes, lead):
        for st in stmts:
            if not isinstance(st, (ast.With, ast.For, ast.While, ast.If, ast.Try, ast.FunctionDef, ast.ClassDef)):
                self.scan_self_writes(st, ctx)
            elif isinstance(st, (ast.For, ast.With)):
                # loop targets / `with … as self.x`
                hdr = st.target if isinstance(st, ast.For) else ast.Tuple(elts=[i.optional_vars for i in st.items if i.optional_vars], ctx=ast.Store())
                self.scan_self_writes(hdr, ctx)
            ld = lead
            if ctx["top"]:
                ld = 0 <= st.lineno < self._gen["acs_line"] if not isinstance(
                    st, (ast.With, ast.For, ast.While, ast.If, ast.Try)) else None
            if isinstance(st, ast.With):
                new = set(scopes)
                for it in st.items:
                    self.walk_expr(it.context_expr, ctx, scopes, self._lead_of(ctx, st, lead))
                    if self._temp_seed_item(it) and it.context_expr.args:
                        new.add(ast.unparse(it.context_expr.args[0]))
                self.walk_body(st.body, ctx, new, lead)
            elif isinstance(st, (ast.For, ast.While)):
                self.walk_expr(st.iter if isinstance(st, ast.For) else st.test, ctx, scopes, self._lead_of(ctx, st, lead))
                self.walk_body(st.body, ctx, scopes, lead)
                self.walk_body(st.orelse, ctx, scopes, lead)
            elif isinstance(st, ast.If):
                self.walk_expr(st.test, ctx, scopes, self._lead_of(ctx, st, lead))
                guard = ast.unparse(st.test).replace(" ", "") == "seedisNone" and "seed" in ctx["params"]
                # a locally built stream used under `if seed is None:` is OS-seeded exactly when no seed was given:
                # for the table this counts as "seeded by the call's seed" (recorded as in scope)
                self.walk_body(st.body, ctx, scopes | {"<fresh-under-seed-is-None>"} if guard else scopes, lead)
                self.walk_body(st.orelse, ctx, scopes, lead)
            elif isinstance(st, ast.Try):
                self.walk_body(st.body, ctx, scopes, lead)
                for h in st.handlers:
                    self.walk_body(h.body, ctx, scopes, lead)
                self.walk_body(st.orelse, ctx, scopes, lead)
                self.walk_body(st.finalbody, ctx, scopes, lead)
            elif isinstance(st, (ast.FunctionDef, ast.ClassDef)):
                continue
            else:
                self.walk_expr(st, ctx, scopes, ld if ctx["top"] else lead)

    def _lead_of(self, ctx, st, lead):
        return (0 <= st.lineno < self._gen["acs_line"]) if ctx["top"] else lead

    def classify(self, chain: str, ctx) -> str | None:
        parts = chain.split(".")
        if chain.startswith("self.rng.") and len(parts) == 3:
            return "priv"
        if len(parts) == 2 and parts[0] in ctx["fresh"]:
            return "fresh"
        if _is_ctor(chain):
            return None
        if chain.startswith(("np.random.", "numpy.random.")):
            return "npGlobal"
        if parts[0] == "random" and len(parts) == 2:
            return "pyGlobal"
        if _TORCH.match(chain):
            return "torchGlobal"
        if parts[-1] in ("srand", "rand"):
            return "unknown"
        if any(p in ("rng", "random", "random_state") or p.endswith("_rng") for p in parts[:-1]):
            return "unknown"
        return None

    def _priv_draw_in(self, expr, ctx, scopes) -> bool | None:
        """does `expr` contain a `self.rng.<draw>` call?  returns its in-scope flag (None = no draw)"""
        for n in ast.walk(expr):
            if isinstance(n, ast.Call) and _chain(n.func) and self.classify(_chain(n.func), ctx) == "priv":
                return "self.rng" in scopes
        return None

    def walk_expr(self, node, ctx, scopes, lead):
        for n in ast.walk(node):
            if not isinstance(n, ast.Call):
                continue
            chain = _chain(n.func)
            if chain is None:
                continue
            parts = chain.split(".")
            src = self.classify(chain, ctx)
            if src is not None:
                stream = {"priv": "self.rng", "fresh": parts[0]}.get(src)
                in_scope = stream in scopes if stream else bool(scopes - {"<fresh-under-seed-is-None>"})
                if src == "fresh" and "<fresh-under-seed-is-None>" in scopes:
                    in_scope = True
                kind = "seed" if parts[-1] in ("seed", "manual_seed", "set_state", "set_rng_state") else "draw"
                if parts[-1] in ("get_state", "get_rng_state", "initial_seed"):
                    continue
                idx = self.site(ctx["qual"], n, parts[-1], src, in_scope, kind)
                if idx not in self._gen["sites"]:
                    self._gen["sites"].append(idx)
                if lead and idx not in self._gen["lead"]:
                    self._gen["lead"].append(idx)
                continue
            # kernel call
            if parts[-1] in KERNELS:
                seed_arg = None
                for kw in n.keywords:
                    if kw.arg == "seed":
                        seed_arg = kw.value
                if seed_arg is None and n.args:
                    seed_arg = n.args[-1]
                prov = False
                if seed_arg is not None:
                    d = self._priv_draw_in(seed_arg, ctx, scopes)
                    if d is not None:
                        prov = d
                    elif isinstance(seed_arg, ast.Name) and seed_arg.id in ctx["param_prov"]:
                        prov = ctx["param_prov"][seed_arg.id]
                rec = {"func": ctx["qual"], "lineno": n.lineno, "kernel": parts[-1], "gen": self._gen["name"],
                       "in_scope": "self.rng" in scopes, "seed_from_private_draw": bool(prov)}
                if rec not in self.kernel_calls:
                    self.kernel_calls.append(rec)
                continue
            # calls into other code of the module
            callee = owner = None
            if len(parts) == 2 and parts[0] == "self":
                owner, callee = self.resolve(ctx["cls"], parts[1])
            elif len(parts) == 2 and parts[0] in self.classes:
                owner, callee = self.resolve(parts[0], parts[1])
            elif len(parts) == 1 and parts[0] in self.funcs and parts[0] != "temp_seed":
                callee = self.funcs[parts[0]]
            if callee is not None:
                names = [a.arg for a in callee.args.args if a.arg != "self"]
                prov = {}
                for i, a in enumerate(n.args):
                    d = self._priv_draw_in(a, ctx, scopes)
                    if d is not None and i < len(names):
                        prov[names[i]] = d
                for kw in n.keywords:
                    d = self._priv_draw_in(kw.value, ctx, scopes)
                    if d is not None and kw.arg:
                        prov[kw.arg] = d
                self.walk_fn(callee, owner, ctx["cls"], "self.rng" in scopes, prov, bool(lead))


def temp_seed_shape(tree: ast.Module) -> list[str]:
    fn = next((f for f in tree.body if isinstance(f, ast.FunctionDef) and f.name == "temp_seed"), None)
    if fn is None:
        return ["?missing"]
    out = []
    if not any("contextmanager" in ast.unparse(d) for d in fn.decorator_list):
        out.append("?no-contextmanager")
    params = [a.arg for a in fn.args.args]
    saved = [None]

    def tok(st):
        if isinstance(st, ast.Assign) and isinstance(st.value, ast.Call) and len(params) >= 1 \
                and ast.unparse(st.value.func) == f"{params[0]}.get_state" and isinstance(st.targets[0], ast.Name):
            saved[0] = st.targets[0].id
            return ["get_state"]
        if isinstance(st, ast.Expr) and isinstance(st.value, ast.Call):
            f = ast.unparse(st.value.func)
            args = [ast.unparse(a) for a in st.value.args]
            if len(params) >= 2 and f == f"{params[0]}.seed" and args == [params[1]]:
                return ["seed"]
            if f == f"{params[0]}.set_state" and args == [saved[0]]:
                return ["set_state"]
        if isinstance(st, ast.Expr) and isinstance(st.value, ast.Yield):
            return ["yield"]
        if isinstance(st, ast.Try) and not st.handlers and not st.orelse:
            return ["try"] + [t for s in st.body for t in tok(s)] + ["finally"] + [t for s in st.finalbody for t in tok(s)]
        return ["?" + type(st).__name__]

    for st in fn.body:
        if isinstance(st, ast.Expr) and isinstance(st.value, ast.Constant):
            continue
        out.extend(tok(st))
    return out


def pyx_kernels() -> list[dict]:
    out = []
    for rel in PYX:
        try:
            src = (REPO / rel).read_text()
        except OSError:
            out.append({"file": rel, "name": "?", "ok": False})
            continue
        # public kernels: top-level `def name(` blocks
        for m in re.finditer(r"^def\s+(\w+)\s*\((.*?)\)\s*:\s*$(.*?)(?=^def\s|^cdef\s|\Z)", src, re.S | re.M):
            name, sig, body = m.group(1), m.group(2), m.group(3)
            body = re.sub(r'""".*?"""', "", body, flags=re.S)
            body = "\n".join(ln.split("#", 1)[0] for ln in body.split("\n"))
            first_srand = re.search(r"\bsrand\s*\(\s*(\w+)\s*\)", body)
            first_rand = re.search(r"\b(rand|random_uniform|random_normal_1d|random_normal_2d|randint)\s*\(", body)
            ok = bool(first_srand and re.search(r"\bint\s+" + re.escape(first_srand.group(1)) + r"\b", sig)
                      and first_srand.group(1) == "seed"
                      and (first_rand is None or first_srand.start() < first_rand.start())
                      and len(re.findall(r"\bsrand\s*\(", body)) == 1)
            out.append({"file": rel, "name": name, "ok": ok})
    return out


MRI_T = "direct/data/mri_transforms.py"
PLUMBING_EXPECTED = [
    "CreateSamplingMask: seed = None if not self.use_seed else tuple(map(ord, str(sample['filename'])))",
    "CreateSamplingMask: every self.mask_func call passes shape=shape and seed=seed",
    "CreateSamplingMask: the mask call has return_acs=False, the acs call return_acs=True",
    "CreateSamplingMask: no random draw in __call__",
    "integerize_seed: an int seed is returned unchanged (first statement)",
]


def plumbing() -> list[tuple[str, bool]]:
    """seed plumbing from the data pipeline into the generators, and `integerize_seed`'s int shortcut"""
    rows = []
    try:
        t = parse_file(REPO / MRI_T)
        cls = next(c for c in t.body if isinstance(c, ast.ClassDef) and c.name == "CreateSamplingMask")
        fn = next(f for f in cls.body if isinstance(f, ast.FunctionDef) and f.name == "__call__")
        norm = lambda n: ast.unparse(n).replace(" ", "").replace('"', "'")  # noqa: E731
        seeds = [st for st in ast.walk(fn) if isinstance(st, ast.Assign) and norm(st.targets[0]) == "seed"]
        ok_seed = len(seeds) == 1 and norm(seeds[0].value) == "Noneifnotself.use_seedelsetuple(map(ord,str(sample['filename'])))"
        calls = [n for n in ast.walk(fn) if isinstance(n, ast.Call) and norm(n.func) == "self.mask_func"]
        kws = [{k.arg: norm(k.value) for k in c.keywords} for c in calls]
        ok_pass = bool(calls) and all(not c.args and k.get("shape") == "shape" and k.get("seed") == "seed" for c, k in zip(calls, kws))
        ok_acs = sorted(k.get("return_acs", "?") for k in kws) == ["False", "True"]
        tb = TableBuilder(t)
        ctx = {"fresh": set()}
        draws = [n for n in ast.walk(fn) if isinstance(n, ast.Call) and _chain(n.func)
                 and tb.classify(_chain(n.func), ctx) is not None]
        rows += [(PLUMBING_EXPECTED[0], ok_seed), (PLUMBING_EXPECTED[1], ok_pass), (PLUMBING_EXPECTED[2], ok_acs),
                 (PLUMBING_EXPECTED[3], not draws)]
    except (Untranslatable, StopIteration, SyntaxError, OSError):
        rows += [(x, False) for x in PLUMBING_EXPECTED[:4]]
    try:
        t = parse_file(REPO / SUB)
        fn = next(f for f in t.body if isinstance(f, ast.FunctionDef) and f.name == "integerize_seed")
        body = [st for st in fn.body if not (isinstance(st, ast.Expr) and isinstance(st.value, ast.Constant))]
        st = body[0]
        ok = (isinstance(st, ast.If) and ast.unparse(st.test).replace(" ", "") == "isinstance(seed,int)"
              and len(st.body) == 1 and isinstance(st.body[0], ast.Return) and ast.unparse(st.body[0].value) == "seed")
        rows.append((PLUMBING_EXPECTED[4], ok))
    except (Untranslatable, StopIteration, IndexError, SyntaxError, OSError):
        rows.append((PLUMBING_EXPECTED[4], False))
    return rows


def calgary_report() -> dict:
    """CalgaryCampinasMaskFunc is outside the property's 14 generators: its sites are reported, not judged"""
    try:
        tb = TableBuilder(parse_file(REPO / SUB))
        tb.generator("CalgaryCampinas")
        g = tb.gens[0]
        return {"scope_ok": g["scope_ok"], "sites": [dict(func=s["func"], lineno=s["lineno"], src=s["src"], in_scope=s["in_scope"])
                                                     for s in tb.sites], "all_ok": g["scope_ok"] and all(
            s["in_scope"] and s["src"] in ("priv", "fresh") for s in tb.sites)}
    except Exception as e:  # noqa: BLE001
        return {"error": repr(e)}


_CACHE: dict = {}


def rng_table() -> dict:
    """{sites, gens, kernel_calls, pyx, temp_seed_shape} for the current working tree (cached per process)."""
    key = str(REPO)
    if key not in _CACHE:
        tree = parse_file(REPO / SUB)
        tb = TableBuilder(tree)
        for g in GENERATORS:
            tb.generator(g)
        _CACHE[key] = {"sites": tb.sites, "gens": tb.gens, "kernel_calls": tb.kernel_calls, "pyx": pyx_kernels(),
                       "temp_seed_shape": temp_seed_shape(tree), "plumbing": plumbing(), "calgary": calgary_report(),
                       "self_writes": tb.self_writes}
    return _CACHE[key]


def _b(x) -> str:
    return "true" if x else "false"


def _lean_text(t: dict) -> str:
    L = []
    L.append("/-- RNG-access table: one entry `(stream code, inside the temp_seed scope)` per static draw/seed statement\n"
             "reachable from some generator's `mask_func` (0 self.rng, 1 local RandomState(), 2 np.random, 3 torch, 4 random, 5 unknown) -/")
    L.append("def sites : List (Nat × Bool) := [")
    for i, s in enumerate(t["sites"]):
        sep = "," if i + 1 < len(t["sites"]) else ""
        L.append(f"  ({SRC_CODE[s['src']]}, {_b(s['in_scope'])}){sep}  -- {i}: {s['func']}:{s['lineno']} .{s['method']} [{s['kind']}]")
    L.append("]\n")
    L.append("/-- per generator: (name, `with temp_seed(self.rng, seed)` over the seed parameter, its sites, the sites before `if return_acs: return`) -/")
    L.append("def gens : List (String × Bool × List Nat × List Nat) := [")
    for i, g in enumerate(t["gens"]):
        sep = "," if i + 1 < len(t["gens"]) else ""
        L.append(f"  (\"{g['name']}\", {_b(g['scope_ok'])}, {sorted(g['sites'])}, {sorted(g['lead'])}){sep}")
    L.append("]\n")
    L.append("/-- Cython kernel call sites: (inside the scope, integer seed is an in-scope draw from self.rng) -/")
    L.append("def kernelCalls : List (Bool × Bool) := [")
    for i, k in enumerate(t["kernel_calls"]):
        sep = "," if i + 1 < len(t["kernel_calls"]) else ""
        L.append(f"  ({_b(k['in_scope'])}, {_b(k['seed_from_private_draw'])}){sep}  -- {k['gen']}: {k['func']}:{k['lineno']} {k['kernel']}")
    L.append("]\n")
    L.append("/-- .pyx kernels: `srand(seed)` on the int parameter `seed`, once, before any `rand()` -/")
    L.append("def pyxKernels : List (String × Bool) := [" + ", ".join(f"(\"{k['name']}\", {_b(k['ok'])})" for k in t["pyx"]) + "]\n")
    L.append("/-- instance state written inside `mask_func` or a helper it calls: (generator, where, what) — must be empty -/")
    L.append("def selfWrites : List (String × String × String) := [")
    sw = t.get("self_writes", [])
    for i, w in enumerate(sw):
        sep = "," if i + 1 < len(sw) else ""
        L.append(f'  ("{w["gen"]}", "{w["func"]}:{w["lineno"]}", "{w["text"]}"){sep}')
    L.append("]\n")
    L.append("/-- seed plumbing into the generators (`CreateSamplingMask.__call__`, `integerize_seed`): (fact, holds) -/")
    L.append("def plumbing : List (String × Bool) := [")
    for i, (txt, ok) in enumerate(t["plumbing"]):
        sep = "," if i + 1 < len(t["plumbing"]) else ""
        q = txt.replace('"', "'")
        L.append(f'  ("{q}", {_b(ok)}){sep}')
    L.append("]\n")
    cg = t.get("calgary", {})
    L.append(f"-- report only (outside the 14 generators): CalgaryCampinasMaskFunc sites = {cg}\n")
    L.append("/-- statement skeleton of `temp_seed` -/")
    L.append("def tempSeedShape : List String := [" + ", ".join(f"\"{x}\"" for x in t["temp_seed_shape"]) + "]\n")
    return "\n".join(L)


def _extra():
    try:
        t = rng_table()
    except (Untranslatable, SyntaxError, OSError) as e:
        # the source can no longer be walked: emit the last-known-good shape (vacuous bridge), rely on correspondence
        text = (f"/-- SKIPPED ({e}) -/\n"
                "def sites : List (Nat × Bool) := [(0, true)]\n"
                "def gens : List (String × Bool × List Nat × List Nat) :=\n  ["
                + ", ".join(f"(\"{g}\", true, [0], [0])" for g in GENERATORS) + "]\n"
                "def kernelCalls : List (Bool × Bool) := []\n"
                "def plumbing : List (String × Bool) := []\n"
                "def selfWrites : List (String × String × String) := []\n"
                "def pyxKernels : List (String × Bool) := []\n"
                "def tempSeedShape : List String := [" + ", ".join(f"\"{x}\"" for x in TEMP_SEED_SHAPE) + "]\n")
        return text, {"rng_access_table": f"skipped: {e}"}
    cg = t.get("calgary", {})
    return _lean_text(t), {"rng_access_table": "translated", "temp_seed_shape": "translated",
                           "kernel_seed_provenance": "translated", "pyx_srand_order": "translated",
                           "seed_plumbing": "translated", "instance_state_writes": "translated",
                           "calgary_campinas(report only)": "all draws on self.rng inside temp_seed(self.rng, seed)"
                           if cg.get("all_ok") else f"NOT admissible: {cg}"}


EXTRA["C05"] = _extra
