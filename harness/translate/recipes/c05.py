"""C05 — RNG-access table of every mask generator, generated from /repo's current source.

An AST walk over each generator class's `mask_func` and every helper it (transitively) calls inside
`direct/common/subsample.py` records, for each call whose attribute chain names a random stream
(`self.rng.*`, a locally built `RandomState()`, `np.random.*`, `random.*`, `torch.rand*/manual_seed…`),
the stream and whether the call is lexically inside `with temp_seed(<that stream>, seed)`; for each
Cython kernel call where its integer seed comes from; for each generator whether the `return_acs`
return sits after the leading draws; the statement skeleton of `temp_seed`; and for the `.pyx` kernels
whether `srand(seed)` precedes every `rand()`.

Emitted as plain Lean data (no imports needed); `Bridge/C05.lean` decides the predicates.
The same table (with function names / line numbers) is used by `harness/props/c05.py` to map every
*executed* draw of the real code (caller frame of the recording RandomState) to its static site.
"""
from __future__ import annotations

import ast
import re

from ..gen import EXTRA, REPO, Untranslatable, parse_file

SUB = "direct/common/subsample.py"
PYX = ["direct/common/_gaussian.pyx", "direct/common/_poisson.pyx"]
GENERATORS = ["FastMRIRandom", "FastMRIEquispaced", "FastMRIMagic", "CartesianRandom", "CartesianEquispaced",
              "CartesianMagic", "Gaussian1D", "Gaussian2D", "Radial", "Spiral", "VariableDensityPoisson",
              "KtRadial", "KtUniform", "KtGaussian1D"]
KERNELS = {"gaussian_mask_1d", "gaussian_mask_2d", "_poisson"}
SRC_CODE = {"priv": 0, "fresh": 1, "npGlobal": 2, "torchGlobal": 3, "pyGlobal": 4, "unknown": 5}
_CTORS = {"RandomState", "default_rng", "Generator", "SeedSequence", "MT19937", "PCG64"}
_TORCH = re.compile(r"^torch\.(rand\w*|manual_seed|seed|normal|bernoulli|multinomial|poisson|initial_seed|"
                    r"get_rng_state|set_rng_state|random\.\w+|Generator)$")
TEMP_SEED_SHAPE = ["get_state", "seed", "try", "yield", "finally", "set_state"]
# methods that draw from (or seed) whatever generator object they are called on
DRAW_METHODS = {"randint", "uniform", "choice", "rand", "randn", "normal", "random", "random_sample", "shuffle",
                "permutation", "integers", "standard_normal", "sample", "seed", "bytes", "randrange", "getrandbits",
                "random_integers", "ranf", "gauss", "betavariate", "triangular", "binomial", "exponential", "set_state"}
# in-place random fills of a torch tensor: they read the global torch generator
TORCH_INPLACE = {"uniform_", "normal_", "random_", "bernoulli_", "exponential_", "geometric_", "cauchy_", "log_normal_"}
CACHE_DECORATORS = ("lru_cache", "cache", "cached_property", "memoize", "memoized", "cachedmethod", "cached")
_BUILTINS = set(dir(__import__("builtins")))


def _chain(func: ast.AST) -> str | None:
    """dotted name of a call target made of names/attributes only (`a.b.c`), else None"""
    parts = []
    while isinstance(func, ast.Attribute):
        parts.append(func.attr)
        func = func.value
    if isinstance(func, ast.Name):
        parts.append(func.id)
        return ".".join(reversed(parts))
    return None


def _is_ctor(chain: str) -> bool:
    parts = chain.split(".")
    return parts[-1] in _CTORS and (len(parts) == 1 or "random" in parts)


class TableBuilder:
    def __init__(self, tree: ast.Module):
        self.classes = {c.name: c for c in tree.body if isinstance(c, ast.ClassDef)}
        self.funcs = {f.name: f for f in tree.body if isinstance(f, ast.FunctionDef)}
        self.sites: list[dict] = []           # distinct static sites
        self._index: dict[tuple, int] = {}
        self.kernel_calls: list[dict] = []
        self.gens: list[dict] = []
        self.self_writes: list[dict] = []     # `self.<attr> = …` / in-place mutation of instance state inside mask_func + helpers
        # closed-world bookkeeping (phase 3)
        self.imports: dict[str, str] = {}     # local alias -> dotted module / object path
        self._mod_names: set[str] = set()     # names bound at module level (variables, functions, classes)
        for st in tree.body:
            if isinstance(st, ast.Import):
                for a in st.names:
                    self.imports[(a.asname or a.name).split(".")[0]] = a.name if a.asname else a.name.split(".")[0]
            elif isinstance(st, ast.ImportFrom) and st.module:
                for a in st.names:
                    self.imports[a.asname or a.name] = f"{st.module}.{a.name}"
            elif isinstance(st, (ast.Assign, ast.AnnAssign, ast.AugAssign)):
                tg = st.targets if isinstance(st, ast.Assign) else [st.target]
                for t in tg:
                    for n in ast.walk(t):
                        if isinstance(n, ast.Name):
                            self._mod_names.add(n.id)
            elif isinstance(st, (ast.FunctionDef, ast.ClassDef)):
                self._mod_names.add(st.name)
        self.reach: dict[str, str] = {}       # every callable reached from some mask_func -> how it was handled
        self.unresolved: list[dict] = []      # calls the walk could not follow nor classify
        self._ext_seen: set = set()

    # -- class hierarchy ---------------------------------------------------------------------
    def resolve(self, cls: str, name: str):
        seen = set()
        while cls in self.classes and cls not in seen:
            seen.add(cls)
            c = self.classes[cls]
            for st in c.body:
                if isinstance(st, ast.FunctionDef) and st.name == name:
                    return cls, st
            bases = [ast.unparse(b) for b in c.bases]
            cls = next((b for b in bases if b in self.classes), None)
        return None, None

    def site(self, qual, node, method, src, in_scope, kind) -> int:
        key = (qual, node.lineno, node.col_offset, src, bool(in_scope))
        if key not in self._index:
            self._index[key] = len(self.sites)
            self.sites.append({"func": qual, "name": qual.split(".")[-1], "lineno": node.lineno,
                               "end_lineno": getattr(node, "end_lineno", node.lineno), "method": method, "src": src,
                               "in_scope": bool(in_scope), "kind": kind})
        return self._index[key]

    # -- one generator -------------------------------------------------------------------------
    def generator(self, name: str):
        cls = name + "MaskFunc"
        owner, fn = self.resolve(cls, "mask_func")
        if fn is None:
            raise Untranslatable(f"{cls}.mask_func not found")
        # the scope of the call: exactly one `with` that opens `temp_seed(self.rng, seed)` — written out, or through a
        # context manager of the class / module that delegates to it (`with self._seeded_rng(seed): …`)
        opened = []
        for n in ast.walk(fn):
            if isinstance(n, ast.With):
                for it in n.items:
                    opened += self._scopes_opened(it, cls)
        params = [x.arg for x in fn.args.args]
        scope_ok = (len(opened) == 1 and opened[0][0] == "self.rng" and opened[0][1] == "seed" and "seed" in params)
        acs_ifs = [n.lineno for n in ast.walk(fn) if isinstance(n, ast.If) and "return_acs" in ast.unparse(n.test)
                   and any(isinstance(s, ast.Return) for s in n.body)]
        acs_line = min(acs_ifs) if acs_ifs else -1
        g = {"name": name, "scope_ok": scope_ok, "sites": [], "lead": [], "acs_line": acs_line, "owner": owner}
        self._gen = g
        self._visited = set()
        self.walk_fn(fn, owner, cls, in_priv_scope=False, param_prov={}, lead=None)
        self.gens.append(g)

    def _resolve_call(self, call: ast.Call, cls):
        """(owner, function) of a call to a method of the class hierarchy / another class / a module function"""
        ch = _chain(call.func) if isinstance(call, ast.Call) else None
        if not ch:
            return None, None
        parts = ch.split(".")
        if len(parts) == 2 and parts[0] == "self":
            return self.resolve(cls, parts[1])
        if len(parts) == 2 and parts[0] in self.classes:
            return self.resolve(parts[0], parts[1])
        if len(parts) == 1 and parts[0] in self.funcs and parts[0] != "temp_seed":
            return None, self.funcs[parts[0]]
        return None, None

    @staticmethod
    def _bind(callee, call: ast.Call) -> dict:
        """parameter name -> argument expression of this call (defaults for the rest)"""
        a = callee.args
        names = [x.arg for x in a.posonlyargs + a.args if x.arg not in ("self", "cls")]
        out = {}
        pos = a.posonlyargs + a.args
        for prm, d in zip(reversed(pos), reversed(a.defaults)):
            out[prm.arg] = d
        for prm, d in zip(a.kwonlyargs, a.kw_defaults):
            if d is not None:
                out[prm.arg] = d
        for nm, arg in zip(names, call.args):
            out[nm] = arg
        for kw in call.keywords:
            if kw.arg:
                out[kw.arg] = kw.value
        return out

    def _cm_info(self, callee) -> list:
        """for a `@contextmanager` function: [(stream text, seed text, yielded text)] of every `with temp_seed(…)` of its
        body that contains the `yield` (the caller's `with` body runs inside that scope)"""
        if callee is None or not any("contextmanager" in ast.unparse(d) for d in callee.decorator_list):
            return []
        out = []
        for n in ast.walk(callee):
            if isinstance(n, ast.With):
                ys = [y for b in n.body for y in ast.walk(b) if isinstance(y, ast.Yield)]
                if not ys:
                    continue
                for it in n.items:
                    if self._temp_seed_item(it) and self._temp_seed_args(it.context_expr):
                        a = self._temp_seed_args(it.context_expr)
                        out.append((a[0], a[1], ast.unparse(ys[0].value) if ys[0].value is not None else None))
        return out

    def _scopes_opened(self, item: ast.withitem, cls) -> list:
        """[(stream text, seed text, yielded text)] in the *caller's* terms of the temp_seed scopes a `with` item opens"""
        c = item.context_expr
        if self._temp_seed_item(item):
            a = self._temp_seed_args(c)
            return [(a[0], a[1], None)] if a else [("?", "?", None)]
        if not isinstance(c, ast.Call):
            return []
        _, callee = self._resolve_call(c, cls)
        info = self._cm_info(callee)
        if not info:
            return []
        bound = self._bind(callee, c)
        tr = lambda txt: (ast.unparse(bound[txt]) if txt in bound else txt) if txt is not None else None  # noqa: E731
        return [(tr(st), tr(sd), tr(y)) for st, sd, y in info]

    def _temp_seed_args(self, call: ast.Call):
        """(stream text, seed text) of a `temp_seed(…)` call, positional or keyword, by the parameter order of its definition
        (a function, or a class whose constructor takes them); None when the call cannot be read"""
        names = None
        fn = self.funcs.get("temp_seed")
        if fn is None and "temp_seed" in self.classes:
            _, fn = self.resolve("temp_seed", "__init__")
        if fn is not None:
            names = [a.arg for a in fn.args.posonlyargs + fn.args.args if a.arg not in ("self", "cls")]
        if not names or len(names) < 2:
            names = ["rng", "seed"]
        if any(isinstance(a, ast.Starred) for a in call.args) or any(k.arg is None for k in call.keywords):
            return None
        got = dict(zip(names, call.args))
        for k in call.keywords:
            got[k.arg] = k.value
        if len(call.args) + len(call.keywords) != 2 or names[0] not in got or names[1] not in got:
            return None
        return ast.unparse(got[names[0]]), ast.unparse(got[names[1]])

    @staticmethod
    def _temp_seed_item(item: ast.withitem) -> bool:
        c = item.context_expr
        return isinstance(c, ast.Call) and ast.unparse(c.func).split(".")[-1] == "temp_seed"

    # -- walking ---------------------------------------------------------------------------------
    def walk_fn(self, fn, owner, cls, in_priv_scope, param_prov, lead):
        qual = f"{owner}.{fn.name}" if owner else fn.name
        pend = getattr(self, "_pending", None) or {}
        self._pending = None
        alias = dict(pend.get("alias", {}))          # parameter -> (stream class, in scope at the call site)
        key = (qual, in_priv_scope, lead, tuple(sorted(param_prov.items())), tuple(sorted(alias.items())),
               bool(pend.get("guard")), tuple(sorted(pend.get("path", {}).items())))
        if key in self._visited:
            return
        self._visited.add(key)
        fresh = set()
        for n in ast.walk(fn):
            if (isinstance(n, ast.Assign) and len(n.targets) == 1 and isinstance(n.targets[0], ast.Name)
                    and isinstance(n.value, ast.Call) and _is_ctor(_chain(n.value.func) or "")):
                fresh.add(n.targets[0].id)
        ctx = {"qual": qual, "cls": cls, "fresh": fresh, "params": {a.arg for a in fn.args.args},
               "param_prov": param_prov, "top": lead is None}
        ctx["alias"] = {k: v[0] for k, v in alias.items()}
        ctx["fn"] = fn
        ctx["param_path"] = dict(pend.get("path", {}))     # parameter -> what happened to the derived seed on its way here
        self._fn_facts(fn, ctx)
        self.reach.setdefault(qual, "walked")
        scopes = ({"self.rng"} if in_priv_scope else set()) | {k for k, v in alias.items() if v[1]}
        if pend.get("guard"):
            scopes.add("<fresh-under-seed-is-None>")
        self.walk_body(fn.body, ctx, scopes=scopes, lead=lead)

    def _fn_facts(self, fn, ctx):
        """locals, nested functions, mutable defaults and memoising decorators of a function about to be walked"""
        a = fn.args
        allp = a.posonlyargs + a.args + a.kwonlyargs + ([a.vararg] if a.vararg else []) + ([a.kwarg] if a.kwarg else [])
        ctx["params"] = ctx.get("params", set()) | {x.arg for x in allp}
        local, nested = set(), {}
        for n in ast.walk(fn):
            if isinstance(n, ast.Name) and isinstance(n.ctx, ast.Store):
                local.add(n.id)
            elif isinstance(n, (ast.FunctionDef, ast.AsyncFunctionDef)) and n is not fn:
                nested.setdefault(n.name, n)
                local.add(n.name)
        glob = {x for n in ast.walk(fn) if isinstance(n, (ast.Global, ast.Nonlocal)) for x in n.names}
        ctx["locals"] = (local | ctx["params"]) - glob
        ctx["nested"] = nested
        defaults = list(zip(reversed(a.posonlyargs + a.args), reversed(a.defaults))) + \
            [(k, d) for k, d in zip(a.kwonlyargs, a.kw_defaults) if d is not None]
        ctx["mutable_defaults"] = {k.arg for k, d in defaults if isinstance(d, (ast.List, ast.Dict, ast.Set))
                                   or (isinstance(d, ast.Call) and _chain(d.func) in ("dict", "list", "set", "defaultdict",
                                                                                       "collections.defaultdict"))}
        for d in fn.decorator_list:
            txt = ast.unparse(d)
            if any(c in txt.replace("functools.", "").split("(")[0].split(".")[-1:] for c in CACHE_DECORATORS):
                rec = {"gen": self._gen["name"], "func": ctx["qual"], "lineno": d.lineno,
                       "text": ("memoising decorator @" + txt)[:50].replace('"', "'")}
                if rec not in self.self_writes:
                    self.self_writes.append(rec)

    _MUTATORS = {"append", "update", "setdefault", "pop", "clear", "add", "extend", "insert", "remove", "popitem",
                 "__setitem__", "discard", "sort", "reverse", "fill"}

    def scan_self_writes(self, st, ctx):
        """instance state written by this (simple) statement: the model's body is a function of its arguments and of
        the drawn values only, so any per-instance memory (memo, cache, counter) must be visible here"""
        found = []
        locs = ctx.get("locals", set())
        muts = ctx.get("mutable_defaults", set())

        def shared(name: str) -> bool:
            """a name that outlives the call: module-level object (not shadowed by a local), `cls`, a mutable default"""
            return (name in self._mod_names and name not in locs) or name == "cls" or name in muts \
                or (name in self.imports and name not in locs)

        for n in ast.walk(st):
            if isinstance(n, (ast.Attribute, ast.Subscript)) and isinstance(getattr(n, "ctx", None), (ast.Store, ast.Del)):
                b = n
                while isinstance(b, (ast.Attribute, ast.Subscript)):
                    b = b.value
                if isinstance(b, ast.Name) and b.id == "self":
                    found.append((n.lineno, ast.unparse(n)[:50]))
                elif isinstance(b, ast.Name) and shared(b.id):
                    found.append((n.lineno, ("shared state: " + ast.unparse(n))[:50]))
                elif isinstance(b, ast.Call) and ast.unparse(b).replace(" ", "") in ("type(self)", "super()"):
                    found.append((n.lineno, ("class state: " + ast.unparse(n))[:50]))
            if isinstance(n, (ast.Global, ast.Nonlocal)):
                found.append((n.lineno, ("global/nonlocal " + ", ".join(n.names))[:50]))
            if isinstance(n, ast.Call):
                ch = _chain(n.func)
                if ch in ("setattr", "object.__setattr__") and n.args and ast.unparse(n.args[0]) in ("self", "type(self)",
                                                                                                      "self.__class__", "cls"):
                    found.append((n.lineno, ast.unparse(n)[:50]))
                if ch and ch.startswith("self.") and len(ch.split(".")) >= 3 and ch.split(".")[1] != "rng" \
                        and ch.split(".")[-1] in self._MUTATORS:
                    found.append((n.lineno, ast.unparse(n)[:50]))
                if ch and ch.startswith("self.__dict__"):
                    found.append((n.lineno, ast.unparse(n)[:50]))
                if ch and len(ch.split(".")) >= 2 and ch.split(".")[-1] in self._MUTATORS and shared(ch.split(".")[0]):
                    found.append((n.lineno, ("shared state: " + ast.unparse(n))[:50]))
                if ch is None and isinstance(n.func, ast.Attribute) and n.func.attr in self._MUTATORS \
                        and ast.unparse(n.func.value).replace(" ", "").startswith(("type(self)", "self.__class__")):
                    found.append((n.lineno, ("class state: " + ast.unparse(n))[:50]))
        for ln, txt in found:
            rec = {"gen": self._gen["name"], "func": ctx["qual"], "lineno": ln, "text": txt.replace('"', "'")}
            if rec not in self.self_writes:
                self.self_writes.append(rec)

    def walk_body(self, stmts, ctx, scopes, lead):
        for st in stmts:
            if not isinstance(st, (ast.With, ast.For, ast.While, ast.If, ast.Try, ast.FunctionDef, ast.ClassDef)):
                self.scan_self_writes(st, ctx)
            elif isinstance(st, (ast.For, ast.With)):
                # loop targets / `with … as self.x`
                hdr = st.target if isinstance(st, ast.For) else ast.Tuple(elts=[i.optional_vars for i in st.items if i.optional_vars], ctx=ast.Store())
                self.scan_self_writes(hdr, ctx)
            ld = lead
            if ctx["top"]:
                ld = 0 <= st.lineno < self._gen["acs_line"] if not isinstance(
                    st, (ast.With, ast.For, ast.While, ast.If, ast.Try)) else None
            if isinstance(st, ast.With):
                new = set(scopes)
                for it in st.items:
                    self.walk_expr(it.context_expr, ctx, scopes, self._lead_of(ctx, st, lead))
                    if self._temp_seed_item(it) and self._temp_seed_args(it.context_expr):
                        new.add(self._temp_seed_args(it.context_expr)[0])
                    elif isinstance(it.context_expr, ast.Call):
                        # a context manager of the class / module that delegates to temp_seed: its scopes hold in the body
                        for stream, _sd, yielded in self._scopes_opened(it, ctx["cls"]):
                            new.add(stream)
                            if yielded == stream and isinstance(it.optional_vars, ast.Name):
                                src = "priv" if stream == "self.rng" else ctx.get("alias", {}).get(stream) or \
                                    ("fresh" if stream in ctx["fresh"] else None)
                                if src:
                                    ctx.setdefault("alias", {})[it.optional_vars.id] = src
                                    new.add(it.optional_vars.id)
                self.walk_body(st.body, ctx, new, lead)
            elif isinstance(st, (ast.For, ast.While)):
                self.walk_expr(st.iter if isinstance(st, ast.For) else st.test, ctx, scopes, self._lead_of(ctx, st, lead))
                self.walk_body(st.body, ctx, scopes, lead)
                self.walk_body(st.orelse, ctx, scopes, lead)
            elif isinstance(st, ast.If):
                self.walk_expr(st.test, ctx, scopes, self._lead_of(ctx, st, lead))
                guard = ast.unparse(st.test).replace(" ", "") == "seedisNone" and "seed" in ctx["params"]
                # a locally built stream used under `if seed is None:` is OS-seeded exactly when no seed was given:
                # for the table this counts as "seeded by the call's seed" (recorded as in scope)
                self.walk_body(st.body, ctx, scopes | {"<fresh-under-seed-is-None>"} if guard else scopes, lead)
                self.walk_body(st.orelse, ctx, scopes, lead)
            elif isinstance(st, ast.Try):
                self.walk_body(st.body, ctx, scopes, lead)
                for h in st.handlers:
                    self.walk_body(h.body, ctx, scopes, lead)
                self.walk_body(st.orelse, ctx, scopes, lead)
                self.walk_body(st.finalbody, ctx, scopes, lead)
            elif isinstance(st, (ast.FunctionDef, ast.ClassDef)):
                continue
            else:
                self.walk_expr(st, ctx, scopes, ld if ctx["top"] else lead)

    def _lead_of(self, ctx, st, lead):
        return (0 <= st.lineno < self._gen["acs_line"]) if ctx["top"] else lead

    def classify(self, chain: str, ctx) -> str | None:
        parts = chain.split(".")
        if chain.startswith("self.rng.") and len(parts) == 3:
            return "priv"
        if len(parts) == 2 and parts[0] in ctx["fresh"]:
            return "fresh"
        if len(parts) == 2 and parts[0] in ctx.get("alias", {}):
            return ctx["alias"][parts[0]]          # a parameter / `as` name bound to a known stream by the caller
        if _is_ctor(chain):
            return None
        if chain.startswith(("np.random.", "numpy.random.")):
            return "npGlobal"
        if parts[0] == "random" and len(parts) == 2:
            return "pyGlobal"
        if _TORCH.match(chain):
            return "torchGlobal"
        if parts[-1] in ("srand", "rand"):
            return "unknown"
        if any(p in ("rng", "random", "random_state") or p.endswith("_rng") for p in parts[:-1]):
            return "unknown"
        return None

    def _seed_path(self, expr, ctx, scopes, at, _depth=0):
        """(provenance, transformations) of an expression used as the integer seed of a kernel / handed on to a helper
        that will use it so.  provenance: True/False = it is a `self.rng.<draw>(…)` made inside / outside the scope (directly
        or through parameters), None = it is not derived from a private draw.  transformations: everything between the
        draw and this use that can change the value or replace it — must be empty ("passed unchanged")."""
        inner = expr
        path = []
        while isinstance(inner, ast.Call) and _chain(inner.func) == "int" and len(inner.args) == 1 and not inner.keywords:
            inner = inner.args[0]                       # int(x): the kernels take C ints anyway
        if isinstance(inner, ast.Call) and _chain(inner.func) and self.classify(_chain(inner.func), ctx) == "priv":
            return "self.rng" in scopes, path
        if isinstance(inner, ast.Name) and inner.id in ctx.get("param_prov", {}):
            nm = inner.id
            path = list(ctx.get("param_path", {}).get(nm, []))
            fn = ctx.get("fn")
            if fn is not None:
                for n in ast.walk(fn):
                    # rebinding of the parameter anywhere in the function (`seed = seed or …`, `seed %= …`, `for seed in …`)
                    if isinstance(n, ast.Name) and n.id == nm and isinstance(n.ctx, (ast.Store, ast.Del)):
                        stmt = next((st for st in ast.walk(fn) if isinstance(st, ast.stmt) and any(x is n for x in ast.walk(st))
                                     and not isinstance(st, (ast.FunctionDef, ast.If, ast.For, ast.While, ast.With, ast.Try))), None)
                        txt = "rebound: " + (ast.unparse(stmt) if stmt is not None else nm)[:60]
                        if txt not in path:
                            path.append(txt)
                    # a condition on the seed deciding whether / how the use is reached (`if seed:`, `if seed > 0:`)
                    if isinstance(n, (ast.If, ast.While, ast.IfExp)) and at is not None and \
                            any(isinstance(x, ast.Name) and x.id == nm for x in ast.walk(n.test)):
                        inside = [n.body, n.orelse] if isinstance(n, ast.IfExp) else list(n.body) + list(n.orelse)
                        if any(x is at for b in inside for x in ast.walk(b)):
                            txt = "guard: " + ast.unparse(n.test)[:60]
                            if txt not in path:
                                path.append(txt)
            return ctx["param_prov"][nm], path
        if isinstance(inner, ast.Name) and ctx.get("fn") is not None and inner.id not in ctx.get("params", set()):
            # a hoisted local / single-assignment rename: `kseed = self.rng.randint(1e5); kernel(…, kseed)`
            binds = [st for st in ast.walk(ctx["fn"]) if isinstance(st, ast.Assign) and len(st.targets) == 1
                     and isinstance(st.targets[0], ast.Name) and st.targets[0].id == inner.id]
            stores = [x for x in ast.walk(ctx["fn"]) if isinstance(x, ast.Name) and x.id == inner.id
                      and isinstance(x.ctx, (ast.Store, ast.Del))]
            if len(binds) == 1 and len(stores) == 1 and _depth < 4:
                return self._seed_path(binds[0].value, ctx, scopes, at, _depth + 1)
        d = self._priv_draw_in(expr, ctx, scopes)
        names = [x.id for x in ast.walk(expr) if isinstance(x, ast.Name) and x.id in ctx.get("param_prov", {})]
        if d is not None or names:
            prov = d if d is not None else ctx["param_prov"][names[0]]
            base = list(ctx.get("param_path", {}).get(names[0], [])) if names else []
            return prov, base + ["expr: " + ast.unparse(expr)[:60]]
        return None, []

    def _priv_draw_in(self, expr, ctx, scopes) -> bool | None:
        """does `expr` contain a `self.rng.<draw>` call?  returns its in-scope flag (None = no draw)"""
        for n in ast.walk(expr):
            if isinstance(n, ast.Call) and _chain(n.func) and self.classify(_chain(n.func), ctx) == "priv":
                return "self.rng" in scopes
        return None

    def walk_expr(self, node, ctx, scopes, lead):
        for n in ast.walk(node):
            if not isinstance(n, ast.Call):
                continue
            chain = _chain(n.func)
            if chain is None:
                if isinstance(n.func, ast.Attribute):
                    v = n.func.value
                    if isinstance(v, ast.Call) and _is_ctor(_chain(v.func) or "") and not v.args and not v.keywords:
                        # `RandomState().randint(…)`: a brand-new OS-seeded stream used once — like the local stream of
                        # integerize_seed it is admissible exactly under `seed is None`
                        if n.func.attr not in ("get_state",):
                            idx = self.site(ctx["qual"], n, n.func.attr, "fresh", "<fresh-under-seed-is-None>" in scopes, "draw")
                            if idx not in self._gen["sites"]:
                                self._gen["sites"].append(idx)
                            if lead and idx not in self._gen["lead"]:
                                self._gen["lead"].append(idx)
                    elif not (isinstance(v, ast.Call) and _chain(v.func) == "super"):
                        self._value_method(n, ctx, scopes, lead, n.func.attr)
                else:
                    self._note_unresolved(ctx, n, "computed callee")
                continue
            parts = chain.split(".")
            src = self.classify(chain, ctx)
            if src is not None:
                stream = {"priv": "self.rng", "fresh": parts[0]}.get(src)
                if len(parts) == 2 and parts[0] in ctx.get("alias", {}):
                    stream = parts[0]
                in_scope = stream in scopes if stream else bool(scopes - {"<fresh-under-seed-is-None>"})
                if src == "fresh" and "<fresh-under-seed-is-None>" in scopes:
                    in_scope = True
                kind = "seed" if parts[-1] in ("seed", "manual_seed", "set_state", "set_rng_state") else "draw"
                if parts[-1] in ("get_state", "get_rng_state", "initial_seed"):
                    continue
                idx = self.site(ctx["qual"], n, parts[-1], src, in_scope, kind)
                if idx not in self._gen["sites"]:
                    self._gen["sites"].append(idx)
                if lead and idx not in self._gen["lead"]:
                    self._gen["lead"].append(idx)
                continue
            # kernel call
            if parts[-1] in KERNELS:
                seed_arg = None
                for kw in n.keywords:
                    if kw.arg == "seed":
                        seed_arg = kw.value
                if seed_arg is None and n.args:
                    seed_arg = n.args[-1]
                prov, path = False, ["no seed argument"]
                if seed_arg is not None:
                    pv, path = self._seed_path(seed_arg, ctx, scopes, n)
                    prov = bool(pv)
                    if pv is None:
                        path = path + ["not derived from a private draw: " + ast.unparse(seed_arg)[:50]]
                rec = {"func": ctx["qual"], "lineno": n.lineno, "kernel": parts[-1], "gen": self._gen["name"],
                       "in_scope": "self.rng" in scopes, "seed_from_private_draw": bool(prov),
                       "seed_path": [x.replace('"', "'") for x in path]}
                if rec not in self.kernel_calls:
                    self.kernel_calls.append(rec)
                continue
            # calls into other code of the module
            callee = owner = None
            if len(parts) == 2 and parts[0] == "self":
                owner, callee = self.resolve(ctx["cls"], parts[1])
            elif len(parts) == 2 and parts[0] in self.classes:
                owner, callee = self.resolve(parts[0], parts[1])
            elif len(parts) == 1 and parts[0] in ctx.get("nested", {}):
                self._walk_nested(ctx["nested"][parts[0]], n, ctx, scopes, lead)
                continue
            elif len(parts) == 1 and parts[0] in self.funcs and parts[0] != "temp_seed" \
                    and parts[0] not in ctx.get("locals", set()):
                callee = self.funcs[parts[0]]
            if callee is not None:
                names = [a.arg for a in callee.args.args if a.arg != "self"]
                prov, ppath = {}, {}
                for i, a in enumerate(n.args):
                    d, pth = self._seed_path(a, ctx, scopes, n)
                    if d is not None and i < len(names):
                        prov[names[i]] = d
                        ppath[names[i]] = tuple(pth)
                for kw in n.keywords:
                    d, pth = self._seed_path(kw.value, ctx, scopes, n)
                    if d is not None and kw.arg:
                        prov[kw.arg] = d
                        ppath[kw.arg] = tuple(pth)
                # stream objects handed to the callee (`_draw_integer_seed(rng)`, `helper(self.rng)`): its parameter is
                # that stream, in scope iff the stream is in scope here
                al = {}
                for prm, arg in self._bind(callee, n).items():
                    txt = ast.unparse(arg) if isinstance(arg, ast.AST) else None
                    if txt == "self.rng":
                        al[prm] = ("priv", "self.rng" in scopes)
                    elif isinstance(arg, ast.Name) and arg.id in ctx["fresh"]:
                        al[prm] = ("fresh", arg.id in scopes or "<fresh-under-seed-is-None>" in scopes)
                    elif isinstance(arg, ast.Name) and arg.id in ctx.get("alias", {}):
                        al[prm] = (ctx["alias"][arg.id], arg.id in scopes)
                self._pending = {"alias": al, "guard": "<fresh-under-seed-is-None>" in scopes, "path": ppath}
                self.walk_fn(callee, owner, ctx["cls"], "self.rng" in scopes, prov, bool(lead))
                self._pending = None
                continue
            self._classify_other_call(n, chain, parts, ctx, scopes, lead)

    # -- closed world: everything that is neither a draw, a kernel, nor a function of this module -------------------
    def _note_unresolved(self, ctx, n, why):
        rec = {"func": ctx["qual"], "lineno": n.lineno, "text": (why + ": " + ast.unparse(n.func))[:70].replace('"', "'")}
        if rec not in self.unresolved:
            self.unresolved.append(rec)

    def _walk_nested(self, fn, call, ctx, scopes, lead):
        """a function defined inside the function being walked, called here: its body runs under the call's scopes"""
        qual = ctx["qual"] + "." + fn.name
        key = (qual, tuple(sorted(scopes)), bool(lead))
        if key in self._visited:
            return
        self._visited.add(key)
        sub = dict(ctx, qual=qual, top=False)
        self._fn_facts(fn, sub)
        sub["fn_outer"] = ctx.get("fn")
        sub["locals"] = sub["locals"] | ctx.get("locals", set())
        sub["nested"] = dict(ctx.get("nested", {}), **sub["nested"])
        self.reach.setdefault(qual, "walked (nested)")
        self.walk_body(fn.body, sub, set(scopes), bool(lead))

    def _value_method(self, n, ctx, scopes, lead, attr):
        """`<some value>.<attr>(…)`: a method of a local object.  Random-number methods are sites of an unknown stream"""
        if attr in DRAW_METHODS or attr in TORCH_INPLACE:
            src = "torchGlobal" if attr in TORCH_INPLACE else "unknown"
            idx = self.site(ctx["qual"], n, attr, src, False, "seed" if attr in ("seed", "set_state") else "draw")
            if idx not in self._gen["sites"]:
                self._gen["sites"].append(idx)

    def _classify_other_call(self, n, chain, parts, ctx, scopes, lead):
        root = parts[0]
        locs = ctx.get("locals", set())
        if root == "self":
            if len(parts) == 2:
                self._note_unresolved(ctx, n, "method not found in the class hierarchy")
            else:
                self._value_method(n, ctx, scopes, lead, parts[-1])       # self.<attr>.<method>(…)
            return
        if root in locs and root not in ("np", "torch"):
            if len(parts) == 1:
                self._note_unresolved(ctx, n, "call through a local variable")
            else:
                self._value_method(n, ctx, scopes, lead, parts[-1])
            return
        if root in self.imports:
            full = ".".join([self.imports[root]] + parts[1:])
            if full.startswith("direct."):
                self._walk_external(full, n, ctx, scopes, lead)
            else:
                self.reach.setdefault(full, "external library (not a random-number entry point by name)")
            return
        if root in self.classes or root in self.funcs:       # constructors, `temp_seed`
            self.reach.setdefault(chain, "constructor / context manager of this module")
            return
        if root in _BUILTINS:
            if root in ("getattr", "eval", "exec", "__import__", "globals", "vars") and isinstance(n.func, ast.Name):
                if root != "getattr":
                    self._note_unresolved(ctx, n, "dynamic code")
            return
        if len(parts) >= 2:
            self._value_method(n, ctx, scopes, lead, parts[-1])
            return
        self._note_unresolved(ctx, n, "unknown callable")

    def _walk_external(self, full, n, ctx, scopes, lead, depth=0):
        """a function of another `direct.*` module (e.g. `T.center_crop`): scan it, and what it calls there, for draws"""
        mod, _, fname = full.rpartition(".")
        key = (full, tuple(sorted(scopes)))
        if key in self._ext_seen:
            return
        self._ext_seen.add(key)
        path = REPO / (mod.replace(".", "/") + ".py")
        if not path.exists():
            path = REPO / mod.replace(".", "/") / "__init__.py"
        try:
            tree = _parse_cached(path)
        except (OSError, SyntaxError, Untranslatable):
            self.reach.setdefault(full, "direct.* object whose module could not be read")
            return
        fn = next((f for f in tree.body if isinstance(f, ast.FunctionDef) and f.name == fname), None)
        if fn is None:
            self.reach.setdefault(full, "direct.* non-function (class / constant)")
            return
        self.reach.setdefault(full, "walked (other module)")
        other = _module_tb(path, tree)
        fresh = {t.targets[0].id for t in ast.walk(fn) if isinstance(t, ast.Assign) and len(t.targets) == 1
                 and isinstance(t.targets[0], ast.Name) and isinstance(t.value, ast.Call) and _is_ctor(_chain(t.value.func) or "")}
        for c in ast.walk(fn):
            if not isinstance(c, ast.Call):
                continue
            ch = _chain(c.func)
            if ch is None:
                if isinstance(c.func, ast.Attribute) and (c.func.attr in DRAW_METHODS or c.func.attr in TORCH_INPLACE) \
                        and c.func.attr not in ("sample", "seed", "random", "normal", "bytes"):
                    self._ext_site(full, c, c.func.attr, "unknown")
                continue
            src = other.classify(ch, {"fresh": fresh})
            if src is not None:
                if ch.split(".")[-1] in ("get_state", "get_rng_state", "initial_seed"):
                    continue
                self._ext_site(full, c, ch.split(".")[-1], src)
                continue
            ps = ch.split(".")
            if len(ps) == 1 and ps[0] in other.funcs and depth < 4:
                self._walk_external(f"{mod}.{ps[0]}", c, ctx, scopes, lead, depth + 1)
            elif ps[0] in other.imports and depth < 4:
                f2 = ".".join([other.imports[ps[0]]] + ps[1:])
                if f2.startswith("direct."):
                    self._walk_external(f2, c, ctx, scopes, lead, depth + 1)

    def _ext_site(self, full, node, method, src):
        idx = self.site(full, node, method, src, False, "draw")
        if idx not in self._gen["sites"]:
            self._gen["sites"].append(idx)


_PARSED: dict = {}
_TBS: dict = {}


def _parse_cached(path):
    k = str(path)
    if k not in _PARSED:
        _PARSED[k] = parse_file(path)
    return _PARSED[k]


def _module_tb(path, tree):
    k = str(path)
    if k not in _TBS:
        _TBS[k] = TableBuilder(tree)
    return _TBS[k]


def _mentions(node, names) -> bool:
    return any(isinstance(x, ast.Name) and x.id in names for x in ast.walk(node))


def _only_raises(stmts) -> bool:
    return all(isinstance(s, (ast.Raise, ast.Pass)) or (isinstance(s, ast.Expr) and isinstance(s.value, ast.Constant))
               for s in stmts)


def _gen_tokens(fn) -> list[str]:
    """skeleton of a generator-based `temp_seed(rng, seed)`: get_state / seed / try / yield / finally / set_state tokens in
    statement order.  Statements that neither touch the stream or the seed nor yield / return are not part of the
    skeleton (logging, docstrings, argument checks that only raise); anything else that is not understood is a `?` token."""
    params = [a.arg for a in fn.args.posonlyargs + fn.args.args]
    if len(params) < 2:
        return ["?signature"]
    rng_p, seed_p = params[0], params[1]
    saved = [None]

    def tok(st):
        if isinstance(st, (ast.Assign, ast.AnnAssign)) and isinstance(st.value, ast.Call) \
                and ast.unparse(st.value.func) == f"{rng_p}.get_state" and not st.value.args:
            tgt = st.targets[0] if isinstance(st, ast.Assign) else st.target
            if isinstance(tgt, ast.Name):
                saved[0] = tgt.id
                return ["get_state"]
        if isinstance(st, ast.Expr) and isinstance(st.value, ast.Call):
            f = ast.unparse(st.value.func)
            args = [ast.unparse(a) for a in st.value.args] + [ast.unparse(k.value) for k in st.value.keywords]
            if f == f"{rng_p}.seed" and args == [seed_p]:
                return ["seed"]
            if f == f"{rng_p}.set_state" and args == [saved[0]]:
                return ["set_state"]
        if isinstance(st, ast.Expr) and isinstance(st.value, ast.Yield):
            return ["yield"]
        if isinstance(st, ast.Try) and not st.handlers and not st.orelse:
            return ["try"] + [t for s in st.body for t in tok(s)] + ["finally"] + [t for s in st.finalbody for t in tok(s)]
        has_flow = any(isinstance(x, (ast.Yield, ast.YieldFrom, ast.Return)) for x in ast.walk(st))
        if isinstance(st, ast.If) and not has_flow and _only_raises(st.body) and _only_raises(st.orelse):
            return []                                         # an argument check that only raises
        if not has_flow and not _mentions(st, {rng_p, seed_p, saved[0]} - {None}):
            return []                                         # unrelated statement
        return ["?" + type(st).__name__]

    out = []
    if not any("contextmanager" in ast.unparse(d) for d in fn.decorator_list):
        out.append("?no-contextmanager")
    for st in fn.body:
        if isinstance(st, ast.Expr) and isinstance(st.value, ast.Constant):
            continue
        out.extend(tok(st))
    return out


def _class_tokens(cls: ast.ClassDef, bound: dict) -> list[str] | None:
    """skeleton of a class-based scope object: `__enter__` saves the state of X and seeds it with s, `__exit__` restores the
    saved state (it runs on every path out of the body — the `try … finally` of the generator form) and does not swallow
    exceptions.  `bound`: constructor parameter -> 'rng' / 'seed' as passed by the factory.  None = not understood."""
    meth = {f.name: f for f in cls.body if isinstance(f, ast.FunctionDef)}
    if not {"__enter__", "__exit__"} <= set(meth):
        return None
    attr = {}                                                  # self.<attr> -> 'rng' / 'seed'
    init = meth.get("__init__")
    if init is not None:
        for st in ast.walk(init):
            if isinstance(st, (ast.Assign, ast.AnnAssign)) and st.value is not None:
                tgt = st.targets[0] if isinstance(st, ast.Assign) else st.target
                if isinstance(tgt, ast.Attribute) and isinstance(tgt.value, ast.Name) and tgt.value.id == "self" \
                        and isinstance(st.value, ast.Name) and st.value.id in bound:
                    attr["self." + tgt.attr] = bound[st.value.id]
    rng_a = [k for k, v in attr.items() if v == "rng"]
    seed_a = [k for k, v in attr.items() if v == "seed"]
    if len(rng_a) != 1 or len(seed_a) != 1:
        return None
    rng_a, seed_a = rng_a[0], seed_a[0]
    toks, saved = [], [None]
    for st in meth["__enter__"].body:
        if isinstance(st, ast.Expr) and isinstance(st.value, ast.Constant):
            continue
        if isinstance(st, (ast.Assign, ast.AnnAssign)) and isinstance(st.value, ast.Call) \
                and ast.unparse(st.value.func) == rng_a + ".get_state" and not st.value.args:
            tgt = st.targets[0] if isinstance(st, ast.Assign) else st.target
            saved[0] = ast.unparse(tgt)
            toks.append("get_state")
        elif isinstance(st, ast.Expr) and isinstance(st.value, ast.Call) and ast.unparse(st.value.func) == rng_a + ".seed" \
                and [ast.unparse(a) for a in st.value.args] + [ast.unparse(k.value) for k in st.value.keywords] == [seed_a]:
            toks.append("seed")
        elif isinstance(st, ast.Return) and (st.value is None or ast.unparse(st.value) in ("self", rng_a, "None")):
            continue
        elif not any(t in ast.unparse(st) for t in (rng_a, seed_a)) and not isinstance(st, ast.Return):
            continue
        else:
            toks.append("?" + type(st).__name__)
    toks += ["try", "yield", "finally"]                        # the `with` body, left through __exit__ on every path
    for st in meth["__exit__"].body:
        if isinstance(st, ast.Expr) and isinstance(st.value, ast.Constant):
            continue
        if isinstance(st, ast.Expr) and isinstance(st.value, ast.Call) and ast.unparse(st.value.func) == rng_a + ".set_state" \
                and [ast.unparse(a) for a in st.value.args] + [ast.unparse(k.value) for k in st.value.keywords] == [saved[0]]:
            toks.append("set_state")
        elif isinstance(st, ast.Return):
            if st.value is not None and ast.unparse(st.value) not in ("None", "False"):
                toks.append("?swallows-exceptions")
        elif not any(t in ast.unparse(st) for t in (rng_a, saved[0] or "\0")):
            continue
        else:
            toks.append("?" + type(st).__name__)
    return toks


def temp_seed_analysis(tree: ast.Module):
    """(tokens, status).  A temp_seed scope is an object whose enter saves the state of X and seeds it with s and whose
    exit restores the saved state on every path: the generator form (`try: yield finally: set_state`) and the class form
    (`__enter__` / `__exit__`, reached directly or through a factory function) give the same token list.  When the
    definition cannot be read at all the canonical list is returned with status `skipped` (the property then rests on
    the correspondence and the oracle) — a *mismatch* is only reported for a definition that was understood and differs."""
    fns = {f.name: f for f in tree.body if isinstance(f, ast.FunctionDef)}
    classes = {c.name: c for c in tree.body if isinstance(c, ast.ClassDef)}
    fn = fns.get("temp_seed")
    if fn is None and "temp_seed" in classes:
        init = next((f for f in classes["temp_seed"].body if isinstance(f, ast.FunctionDef) and f.name == "__init__"), None)
        ps = [a.arg for a in init.args.args if a.arg != "self"] if init else []
        if len(ps) >= 2:
            t = _class_tokens(classes["temp_seed"], {ps[0]: "rng", ps[1]: "seed"})
            if t is not None:
                return t, "translated (class)"
        return list(TEMP_SEED_SHAPE), "skipped: class temp_seed not understood"
    if fn is None:
        return ["?missing"], "translated"
    has_yield = any(isinstance(x, (ast.Yield, ast.YieldFrom)) for x in ast.walk(fn))
    if has_yield:
        return _gen_tokens(fn), "translated (generator)"
    # a factory: `return <Class>(rng, seed)` (positional or keyword)
    params = [a.arg for a in fn.args.posonlyargs + fn.args.args]
    body = [st for st in fn.body if not (isinstance(st, ast.Expr) and isinstance(st.value, ast.Constant))]
    if len(params) >= 2 and len(body) == 1 and isinstance(body[0], ast.Return) and isinstance(body[0].value, ast.Call):
        call = body[0].value
        cname = _chain(call.func)
        if cname in classes:
            init = next((f for f in classes[cname].body if isinstance(f, ast.FunctionDef) and f.name == "__init__"), None)
            if init is not None:
                ps = [a.arg for a in init.args.posonlyargs + init.args.args if a.arg != "self"]
                got = dict(zip(ps, call.args))
                got.update({k.arg: k.value for k in call.keywords if k.arg})
                bound = {}
                for prm, val in got.items():
                    if isinstance(val, ast.Name) and val.id == params[0]:
                        bound[prm] = "rng"
                    elif isinstance(val, ast.Name) and val.id == params[1]:
                        bound[prm] = "seed"
                t = _class_tokens(classes[cname], bound)
                if t is not None:
                    return t, f"translated (factory of class {cname})"
    return list(TEMP_SEED_SHAPE), "skipped: temp_seed is neither a generator nor a factory of a readable scope class"


def temp_seed_shape(tree: ast.Module) -> list[str]:
    return temp_seed_analysis(tree)[0]


_LIBC_SEEDERS = ("srand", "srandom", "srand48", "seed48", "initstate", "setstate")
_LIBC_DRAWS = ("rand", "random", "drand48", "lrand48", "mrand48", "rand_r", "erand48", "nrand48", "jrand48")


def _pyx_blocks(src: str):
    """(kind, name, signature, body) of every top-level `def` / `cdef` function of a .pyx file, comments and
    docstrings removed"""
    src = re.sub(r'"""".*?"""', "", src, flags=re.S)
    src = re.sub(r'""".*?"""', "", src, flags=re.S)
    src = "\n".join(ln.split("#", 1)[0] for ln in src.split("\n"))
    pat = re.compile(r"^(def|cdef|cpdef)\s+(?:inline\s+)?(?:[\w\[\], .=\'*]+?\s+)?(\w+)\s*\((.*?)\)[^:\n]*:\s*$(.*?)(?=^\S|\Z)",
                     re.S | re.M)
    for m in pat.finditer(src):
        yield m.group(1), m.group(2), m.group(3), m.group(4)


def pyx_events(src: str) -> dict[str, list[str]]:
    """per public kernel the libc events of its body in textual order with cdef helpers expanded:
    `srand:seed` = `srand(seed)` at the top level of the body (not under a condition / loop) on the unmodified int
    parameter `seed`; `srand:other` = any other seeding of the C generator; `rand` = a `rand()` or a helper that draws"""
    blocks = list(_pyx_blocks(src))
    helpers = {name: body for kind, name, _, body in blocks if kind != "def"}
    call = lambda names: re.compile(r"(?<![\w.])(" + "|".join(map(re.escape, names)) + r")\s*\(")  # noqa: E731

    def draws(body, seen=()):
        if call(_LIBC_DRAWS).search(body):
            return True
        return any(h not in seen and call([h]).search(body) and draws(helpers[h], seen + (h,)) for h in helpers)

    def seeds(body, seen=()):
        if call(_LIBC_SEEDERS).search(body):
            return True
        return any(h not in seen and call([h]).search(body) and seeds(helpers[h], seen + (h,)) for h in helpers)

    PYR = re.compile(r"(?<![\w.])(np|numpy)\.random\.|(?<![\w.])random\.\w+\s*\(|torch\.(rand|manual_seed)|default_rng|RandomState")

    def pydraws(body, seen=()):
        if PYR.search(body):
            return True
        return any(h not in seen and call([h]).search(body) and pydraws(helpers[h], seen + (h,)) for h in helpers)

    drawing = [h for h in helpers if draws(helpers[h])]
    seeding = [h for h in helpers if seeds(helpers[h])]
    pydrawing = [h for h in helpers if pydraws(helpers[h])]
    out = {}
    for kind, name, sig, body in blocks:
        if kind != "def":
            continue
        lines = body.split("\n")
        indents = [len(ln) - len(ln.lstrip()) for ln in lines if ln.strip()]
        top = min(indents) if indents else 0
        evs = []
        seed_param = bool(re.search(r"\bint\s+seed\b", sig))
        seed_touched = False
        for ln in lines:
            if not ln.strip():
                continue
            ind = len(ln) - len(ln.lstrip())
            for m in re.finditer(r"(?<![\w.])(\w+)\s*\(([^()]*)", ln):
                f, arg = m.group(1), m.group(2).strip()
                if f in _LIBC_SEEDERS or f in seeding:
                    good = (f == "srand" and arg == "seed" and seed_param and not seed_touched and ind == top)
                    evs.append("srand:seed" if good else "srand:other")
                elif f in _LIBC_DRAWS or f in drawing:
                    evs.append("rand")
                if f in pydrawing:
                    evs.append("pyrand")
            # a Python-level generator used from inside a kernel (numpy / random / torch): never admissible
            if re.search(r"(?<![\w.])(np|numpy)\.random\.|(?<![\w.])random\.\w+\s*\(|torch\.(rand|manual_seed)|default_rng|RandomState", ln):
                evs.append("pyrand")
            if re.search(r"(?<![\w.])seed\s*([-+*/%|&^]|//|<<|>>)?=(?!=)", ln):
                seed_touched = True
        # keep the table small: runs of `rand` are one event
        comp = []
        for e in evs:
            if not (comp and comp[-1] == "rand" and e == "rand"):
                comp.append(e)
        out[name] = comp
    return out


def pyx_kernels() -> list[dict]:
    out = []
    for rel in PYX:
        try:
            src = (REPO / rel).read_text()
        except OSError:
            out.append({"file": rel, "name": "?", "ok": False, "events": []})
            continue
        try:
            events = pyx_events(src)
        except Exception:  # noqa: BLE001 - an unreadable kernel is an inadmissible kernel
            events = {}
        # public kernels: top-level `def name(` blocks
        for m in re.finditer(r"^def\s+(\w+)\s*\((.*?)\)\s*:\s*$(.*?)(?=^def\s|^cdef\s|\Z)", src, re.S | re.M):
            name, sig, body = m.group(1), m.group(2), m.group(3)
            body = re.sub(r'""".*?"""', "", body, flags=re.S)
            body = "\n".join(ln.split("#", 1)[0] for ln in body.split("\n"))
            first_srand = re.search(r"\bsrand\s*\(\s*(\w+)\s*\)", body)
            first_rand = re.search(r"\b(rand|random_uniform|random_normal_1d|random_normal_2d|randint)\s*\(", body)
            ok = bool(first_srand and re.search(r"\bint\s+" + re.escape(first_srand.group(1)) + r"\b", sig)
                      and first_srand.group(1) == "seed"
                      and (first_rand is None or first_srand.start() < first_rand.start())
                      and len(re.findall(r"\bsrand\s*\(", body)) == 1)
            out.append({"file": rel, "name": name, "ok": ok, "events": events.get(name, ["unreadable"])})
    return out


def other_libc_users() -> list[str]:
    """report only: every other .pyx / .py of the package that touches the C generator (it is process global)"""
    out = []
    for path in sorted((REPO / "direct").rglob("*.pyx")):
        rel = str(path.relative_to(REPO))
        if rel in PYX:
            continue
        try:
            ev = pyx_events(path.read_text())
        except Exception as e:  # noqa: BLE001
            out.append(f"{rel}: unreadable ({type(e).__name__})")
            continue
        for k, v in ev.items():
            if v:
                out.append(f"{rel}:{k} {v}")
    return out


# --------------------------------------------------------------------------------------------------
# consumers of the generators outside subsample.py
FILENAME_SEED = "Noneifnotself.use_seedelsetuple(map(ord,str(sample['filename'])))"
EXPECTED_CONSUMERS = ["direct/data/mri_transforms.py:CreateSamplingMask.__call__", "direct/data/mri_transforms.py:CreateSamplingMask.__call__",
                      "direct/data/mri_transforms.py:EstimateBodyCoilImage.__call__", "direct/data/transforms.py:apply_mask"]


def consumers() -> list[dict]:
    """every call `<…>mask_func(…)` in direct/**/*.py outside subsample.py with the class of its seed argument:
    0 the file-name tuple guarded by use_seed, 1 a parameter of the enclosing function passed through unchanged,
    2 no seed handed over (an unseeded call), 3 anything else"""
    norm = lambda n: ast.unparse(n).replace(" ", "").replace('"', "'")  # noqa: E731
    rows = []
    for path in sorted((REPO / "direct").rglob("*.py")):
        rel = str(path.relative_to(REPO))
        if rel == SUB:
            continue
        try:
            txt = path.read_text()
            if "mask_func" not in txt:
                continue
            tree = _parse_cached(path)
        except (OSError, SyntaxError, UnicodeDecodeError, Untranslatable):
            rows.append({"site": rel + ":?", "cls": 3, "lineno": 0})
            continue

        def visit(node, qual, fn):
            for ch in ast.iter_child_nodes(node):
                if isinstance(ch, ast.ClassDef):
                    visit(ch, (qual + "." if qual else "") + ch.name, fn)
                elif isinstance(ch, (ast.FunctionDef, ast.AsyncFunctionDef)):
                    visit(ch, (qual + "." if qual else "") + ch.name, ch)
                else:
                    if isinstance(ch, ast.Call) and fn is not None:
                        c = _chain(ch.func)
                        if c and c.split(".")[-1] == "mask_func":
                            rows.append({"site": f"{rel}:{qual}", "cls": seed_class(ch, fn), "lineno": ch.lineno})
                    visit(ch, qual, fn)

        def seed_class(call, fn):
            kw = {k.arg: k.value for k in call.keywords}
            sv = kw.get("seed")
            if sv is None and len(call.args) >= 3:
                sv = call.args[2]
            if sv is None:
                return 3 if any(k.arg is None for k in call.keywords) or any(isinstance(a, ast.Starred) for a in call.args) else 2
            if not isinstance(sv, ast.Name):
                return 2 if norm(sv) == "None" else 3
            assigns = [st for st in ast.walk(fn) if isinstance(st, (ast.Assign, ast.AugAssign, ast.AnnAssign))
                       and any(isinstance(t, ast.Name) and t.id == sv.id for t in ast.walk(
                           st.targets[0] if isinstance(st, ast.Assign) and len(st.targets) == 1 else
                           ast.Tuple(elts=list(st.targets), ctx=ast.Store()) if isinstance(st, ast.Assign) else st.target))]
            others = [n for n in ast.walk(fn) if isinstance(n, (ast.For, ast.comprehension, ast.NamedExpr, ast.withitem))
                      and sv.id in {x.id for x in ast.walk(getattr(n, "target", None) or getattr(n, "optional_vars", None)
                                                            or ast.Tuple(elts=[], ctx=ast.Store())) if isinstance(x, ast.Name)}]
            params = {a.arg for a in fn.args.posonlyargs + fn.args.args + fn.args.kwonlyargs}
            if others:
                return 3
            if not assigns and sv.id in params:
                return 1
            if len(assigns) == 1 and isinstance(assigns[0], ast.Assign) and sv.id not in params \
                    and norm(assigns[0].value) == FILENAME_SEED and assigns[0].lineno < call.lineno:
                return 0
            return 3

        visit(tree, "", None)
    return rows


MRI_T = "direct/data/mri_transforms.py"
PLUMBING_EXPECTED = [
    "CreateSamplingMask: seed = None if not self.use_seed else tuple(map(ord, str(sample['filename'])))",
    "CreateSamplingMask: every self.mask_func call passes shape=shape and seed=seed",
    "CreateSamplingMask: the mask call has return_acs=False, the acs call return_acs=True",
    "CreateSamplingMask: no random draw in __call__",
    "integerize_seed: an int seed is returned unchanged (first statement)",
]


PLUMBING_NOTES: dict = {}


def plumbing() -> list[tuple[str, bool]]:
    """seed plumbing from the data pipeline into the generators, and `integerize_seed`'s int shortcut"""
    rows = []
    try:
        t = parse_file(REPO / MRI_T)
        cls = next(c for c in t.body if isinstance(c, ast.ClassDef) and c.name == "CreateSamplingMask")
        fn = next(f for f in cls.body if isinstance(f, ast.FunctionDef) and f.name == "__call__")
        norm = lambda n: ast.unparse(n).replace(" ", "").replace('"', "'")  # noqa: E731
        seeds = [st for st in ast.walk(fn) if isinstance(st, ast.Assign) and norm(st.targets[0]) == "seed"]
        ok_seed = len(seeds) == 1 and norm(seeds[0].value) == "Noneifnotself.use_seedelsetuple(map(ord,str(sample['filename'])))"
        calls = [n for n in ast.walk(fn) if isinstance(n, ast.Call) and norm(n.func) == "self.mask_func"]
        kws = [{k.arg: norm(k.value) for k in c.keywords} for c in calls]
        ok_pass = bool(calls) and all(not c.args and k.get("shape") == "shape" and k.get("seed") == "seed" for c, k in zip(calls, kws))
        ok_acs = sorted(k.get("return_acs", "?") for k in kws) == ["False", "True"]
        tb = TableBuilder(t)
        ctx = {"fresh": set()}
        draws = [n for n in ast.walk(fn) if isinstance(n, ast.Call) and _chain(n.func)
                 and tb.classify(_chain(n.func), ctx) is not None]
        rows += [(PLUMBING_EXPECTED[0], ok_seed), (PLUMBING_EXPECTED[1], ok_pass), (PLUMBING_EXPECTED[2], ok_acs),
                 (PLUMBING_EXPECTED[3], not draws)]
    except (Untranslatable, StopIteration, SyntaxError, OSError):
        rows += [(x, False) for x in PLUMBING_EXPECTED[:4]]
    try:
        t = parse_file(REPO / SUB)
        fn = next(f for f in t.body if isinstance(f, ast.FunctionDef) and f.name == "integerize_seed")
        body = [st for st in fn.body if not (isinstance(st, ast.Expr) and isinstance(st.value, ast.Constant))]
        prm = fn.args.args[0].arg
        st = next((x for x in body if isinstance(x, ast.If)
                   and ast.unparse(x.test).replace(" ", "") in (f"isinstance({prm},int)", f"type({prm})isint")), None)
        if st is None or st is not next((x for x in body if isinstance(x, (ast.If, ast.Return, ast.With, ast.For, ast.While))), None):
            ok = True          # no recognisable int branch up front: not understood (skipped) — the oracle covers int seeds
            PLUMBING_NOTES["integerize_seed"] = "skipped: no leading `if isinstance(seed, int)` branch"
        else:
            b = st.body
            early = len(b) == 1 and isinstance(b[0], ast.Return) and ast.unparse(b[0].value) == prm
            # single-exit form: `out = seed` in the int branch, `return out` as the last statement, `out` bound nowhere
            # else on that path (the other bindings sit in the elif / else branches)
            single = (len(b) == 1 and isinstance(b[0], ast.Assign) and len(b[0].targets) == 1
                      and isinstance(b[0].targets[0], ast.Name) and ast.unparse(b[0].value) == prm
                      and isinstance(body[-1], ast.Return) and body[-1].value is not None
                      and ast.unparse(body[-1].value) == b[0].targets[0].id
                      and not any(isinstance(x, ast.Name) and x.id == b[0].targets[0].id and isinstance(x.ctx, ast.Store)
                                  for y in body[body.index(st) + 1:-1] for x in ast.walk(y)))
            ok = early or single
        rows.append((PLUMBING_EXPECTED[4], ok))
    except (Untranslatable, StopIteration, IndexError, SyntaxError, OSError):
        rows.append((PLUMBING_EXPECTED[4], False))
    return rows


def temp_seed_copies() -> list[str]:
    """report only: the other definitions of `temp_seed` in the package (datasets, ssl) and their skeletons"""
    out = []
    for path in sorted((REPO / "direct").rglob("*.py")):
        rel = str(path.relative_to(REPO))
        if rel == SUB:
            continue
        try:
            txt = path.read_text()
            if "def temp_seed" not in txt:
                continue
            out.append(f"{rel}: {temp_seed_shape(_parse_cached(path))}")
        except (OSError, SyntaxError, UnicodeDecodeError, Untranslatable):
            out.append(f"{rel}: unreadable")
    return out


def calgary_report() -> dict:
    """CalgaryCampinasMaskFunc is outside the property's 14 generators: its sites are reported, not judged"""
    try:
        tb = TableBuilder(parse_file(REPO / SUB))
        tb.generator("CalgaryCampinas")
        g = tb.gens[0]
        return {"scope_ok": g["scope_ok"], "sites": [dict(func=s["func"], lineno=s["lineno"], src=s["src"], in_scope=s["in_scope"])
                                                     for s in tb.sites], "all_ok": g["scope_ok"] and all(
            s["in_scope"] and s["src"] in ("priv", "fresh") for s in tb.sites),
                "state_writes": tb.self_writes, "unresolved": tb.unresolved}
    except Exception as e:  # noqa: BLE001
        return {"error": repr(e)}


_CACHE: dict = {}


def rng_table() -> dict:
    """{sites, gens, kernel_calls, pyx, temp_seed_shape} for the current working tree (cached per process)."""
    key = str(REPO)
    if key not in _CACHE:
        tree = parse_file(REPO / SUB)
        tb = TableBuilder(tree)
        for g in GENERATORS:
            tb.generator(g)
        _CACHE[key] = {"sites": tb.sites, "gens": tb.gens, "kernel_calls": tb.kernel_calls, "pyx": pyx_kernels(),
                       "temp_seed_shape": temp_seed_shape(tree), "temp_seed_status": temp_seed_analysis(tree)[1],
                       "plumbing": plumbing(), "calgary": calgary_report(),
                       "self_writes": tb.self_writes, "unresolved": tb.unresolved, "reach": dict(tb.reach),
                       "consumers": consumers(), "other_libc": other_libc_users(),
                       "temp_seed_copies": temp_seed_copies()}
    return _CACHE[key]


def _b(x) -> str:
    return "true" if x else "false"


def _lean_text(t: dict) -> str:
    L = []
    L.append("/-- RNG-access table: one entry `(stream code, inside the temp_seed scope)` per static draw/seed statement\n"
             "reachable from some generator's `mask_func` (0 self.rng, 1 local RandomState(), 2 np.random, 3 torch, 4 random, 5 unknown) -/")
    L.append("def sites : List (Nat × Bool) := [")
    for i, s in enumerate(t["sites"]):
        sep = "," if i + 1 < len(t["sites"]) else ""
        L.append(f"  ({SRC_CODE[s['src']]}, {_b(s['in_scope'])}){sep}  -- {i}: {s['func']}:{s['lineno']} .{s['method']} [{s['kind']}]")
    L.append("]\n")
    L.append("/-- per generator: (name, `with temp_seed(self.rng, seed)` over the seed parameter, its sites, the sites before `if return_acs: return`) -/")
    L.append("def gens : List (String × Bool × List Nat × List Nat) := [")
    for i, g in enumerate(t["gens"]):
        sep = "," if i + 1 < len(t["gens"]) else ""
        L.append(f"  (\"{g['name']}\", {_b(g['scope_ok'])}, {sorted(g['sites'])}, {sorted(g['lead'])}){sep}")
    L.append("]\n")
    L.append("/-- Cython kernel call sites: (inside the scope, integer seed is an in-scope draw from self.rng) -/")
    L.append("def kernelCalls : List (Bool × Bool) := [")
    for i, k in enumerate(t["kernel_calls"]):
        sep = "," if i + 1 < len(t["kernel_calls"]) else ""
        L.append(f"  ({_b(k['in_scope'])}, {_b(k['seed_from_private_draw'])}){sep}  -- {k['gen']}: {k['func']}:{k['lineno']} {k['kernel']}")
    L.append("]\n")
    L.append("/-- per Cython kernel call site: what happens to the derived integer seed between the `self.rng` draw and the kernel\n"
             "(rebinding such as `seed = seed or …`, conditions on it, arithmetic around it; through helper parameters) — every list must be empty -/")
    L.append("def kernelSeedPaths : List (String × List String) := [")
    for i, k in enumerate(t["kernel_calls"]):
        sep = "," if i + 1 < len(t["kernel_calls"]) else ""
        items = ", ".join('"%s"' % x.replace("\\", "/") for x in k.get("seed_path", []))
        L.append(f"  (\"{k['gen']}: {k['func']}:{k['lineno']} {k['kernel']}\", [{items}]){sep}")
    L.append("]\n")
    L.append("/-- .pyx kernels: `srand(seed)` on the int parameter `seed`, once, before any `rand()` -/")
    L.append("def pyxKernels : List (String × Bool) := [" + ", ".join(f"(\"{k['name']}\", {_b(k['ok'])})" for k in t["pyx"]) + "]\n")
    L.append("/-- libc events of every `.pyx` kernel body (cdef helpers expanded; runs of `rand` are one event) -/")
    L.append("def pyxEvents : List (String × List String) := [" + ", ".join(
        "(\"%s\", [%s])" % (k["name"], ", ".join(f'"{e}"' for e in k.get("events", []))) for k in t["pyx"]) + "]\n")
    L.append("/-- calls reachable from a `mask_func` that the walk could neither follow nor classify: (where, what) — must be empty -/")
    L.append("def unresolved : List (String × String) := [")
    un = t.get("unresolved", [])
    for i, u in enumerate(un):
        sep = "," if i + 1 < len(un) else ""
        L.append(f'  ("{u["func"]}:{u["lineno"]}", "{u["text"]}"){sep}')
    L.append("]\n")
    L.append("/-- every callable reached from a `mask_func` and how the walk handled it (documentation of the closed world) -/")
    L.append("def reachable : List (String × String) := [")
    rc = sorted(t.get("reach", {}).items())
    for i, (k, v) in enumerate(rc):
        sep = "," if i + 1 < len(rc) else ""
        L.append(f'  ("{k}", "{v}"){sep}')
    L.append("]\n")
    L.append("/-- calls of a generator outside subsample.py: (site, class of the seed argument: 0 file-name tuple under use_seed,\n"
             "1 own parameter passed through, 2 no seed, 3 anything else) -/")
    L.append("def consumers : List (String × Nat) := [")
    cs = t.get("consumers", [])
    for i, c in enumerate(cs):
        sep = "," if i + 1 < len(cs) else ""
        L.append(f'  ("{c["site"]}", {c["cls"]}){sep}  -- line {c["lineno"]}')
    L.append("]\n")
    L.append("/-- instance / class / module / closure state written inside `mask_func` or a helper it calls, and memoising\n"
             "decorators on them: (generator, where, what) — must be empty -/")
    L.append("def selfWrites : List (String × String × String) := [")
    sw = t.get("self_writes", [])
    for i, w in enumerate(sw):
        sep = "," if i + 1 < len(sw) else ""
        L.append(f'  ("{w["gen"]}", "{w["func"]}:{w["lineno"]}", "{w["text"]}"){sep}')
    L.append("]\n")
    L.append("/-- seed plumbing into the generators (`CreateSamplingMask.__call__`, `integerize_seed`): (fact, holds) -/")
    L.append("def plumbing : List (String × Bool) := [")
    for i, (txt, ok) in enumerate(t["plumbing"]):
        sep = "," if i + 1 < len(t["plumbing"]) else ""
        q = txt.replace('"', "'")
        L.append(f'  ("{q}", {_b(ok)}){sep}')
    L.append("]\n")
    cg = t.get("calgary", {})
    L.append(f"-- report only (outside the 14 generators): CalgaryCampinasMaskFunc sites = {cg}")
    L.append(f"-- report only: other users of the C generator in the package = {t.get('other_libc', [])}")
    L.append(f"-- report only: other definitions of temp_seed = {t.get('temp_seed_copies', [])}\n")
    L.append("/-- statement skeleton of `temp_seed` -/")
    L.append("def tempSeedShape : List String := [" + ", ".join(f"\"{x}\"" for x in t["temp_seed_shape"]) + "]\n")
    return "\n".join(L)


def _extra():
    try:
        t = rng_table()
    except (Untranslatable, SyntaxError, OSError) as e:
        # the source can no longer be walked: emit the last-known-good shape (vacuous bridge), rely on correspondence
        text = (f"/-- SKIPPED ({e}) -/\n"
                "def sites : List (Nat × Bool) := [(0, true)]\n"
                "def gens : List (String × Bool × List Nat × List Nat) :=\n  ["
                + ", ".join(f"(\"{g}\", true, [0], [0])" for g in GENERATORS) + "]\n"
                "def kernelCalls : List (Bool × Bool) := []\n"
                "def kernelSeedPaths : List (String × List String) := []\n"
                "def plumbing : List (String × Bool) := []\n"
                "def selfWrites : List (String × String × String) := []\n"
                "def pyxKernels : List (String × Bool) := []\n"
                "def pyxEvents : List (String × List String) := [(\"skipped\", [\"srand:seed\", \"rand\"])]\n"
                "def unresolved : List (String × String) := []\n"
                "def reachable : List (String × String) := []\n"
                "def consumers : List (String × Nat) := [(\"skipped\", 0)]\n"
                "def tempSeedShape : List String := [" + ", ".join(f"\"{x}\"" for x in TEMP_SEED_SHAPE) + "]\n")
        return text, {"rng_access_table": f"skipped: {e}"}
    cg = t.get("calgary", {})
    return _lean_text(t), {"rng_access_table": "translated", "temp_seed_shape": t.get("temp_seed_status", "translated"),
                           "kernel_seed_provenance": "translated", "kernel_seed_passed_unchanged": "translated", "pyx_srand_order": "translated",
                           "seed_plumbing": "translated", "instance_state_writes": "translated",
                           "pyx_libc_events": "translated", "closed_world_reachability": "translated",
                           "generator_consumers": "translated",
                           "other_libc_users(report only)": "; ".join(t.get("other_libc", [])) or "none",
                           "temp_seed_copies(report only)": "; ".join(t.get("temp_seed_copies", [])) or "none",
                           "calgary_campinas(report only)": "all draws on self.rng inside temp_seed(self.rng, seed)"
                           if cg.get("all_ok") else f"NOT admissible: {cg}"}


EXTRA["C05"] = _extra
