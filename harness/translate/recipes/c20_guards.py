"""C20 — AST extraction of the *argument-validation guards* of constructors and of the consumers of configuration values.

A guard is a statement of a constructor (or of a function a configuration value flows into) that rejects a value:

    if P not in [c1, c2, …]: raise …                         -> oneOf
    if P == c: … elif P in [c…]: … else: raise …             -> oneOf (union of the branch tests; `elif not P` adds "falsy")
    if not all(lo < e < hi for e in P): raise …              -> allBetween lo hi
    if not all(lo < e and isinstance(e, int) for e in P)     -> allIntGt lo
    if not all(e in [c…] for e in P): raise …                -> allOneOf
    if len(P) not in [n…]: raise …                           -> lenIn
    if not (P == c or lo < P <= Q): raise …                  -> eqOrRange c lo Q
    assert all(e % m == 0 for e in P)                        -> allMultipleOf m
    assert len(P) == n / assert P[0] <= P[1]                 -> lenIn [n] / pairOrdered
    if len([A]) != len([B]): raise …                         -> vacuous (a guard that can never fire: reported)
    for k in kwargs: if k not in [...]: raise                -> keyword policy (only names / prefixes)

Guards nested under `if A and B is not None and …:` carry that condition (truthy / not-None atoms); anything else that raises
is recorded as `opaque` (counted in the evidence, never an alarm).  Base-class constructors reached through
`super().__init__(…)` contribute their guards with the parameter names mapped through the call.
"""
from __future__ import annotations

import ast
import enum
import inspect
import pathlib
import sys


class Opaque(Exception):
    pass


# ---- constants ------------------------------------------------------------------------------------------------------
def const_of(node: ast.AST, glob: dict):
    """-> ("none",) | ("bool", b) | ("int", i) | ("str", s, is_enum)"""
    if isinstance(node, ast.Constant):
        v = node.value
        if v is None:
            return ("none",)
        if isinstance(v, bool):
            return ("bool", v)
        if isinstance(v, int):
            return ("int", v)
        if isinstance(v, str):
            return ("str", v, False)
        if isinstance(v, float) and v == int(v):
            return ("int", int(v))
        raise Opaque(f"constant {v!r}")
    if isinstance(node, ast.UnaryOp) and isinstance(node.op, ast.USub) and isinstance(node.operand, ast.Constant) \
            and isinstance(node.operand.value, int):
        return ("int", -node.operand.value)
    if isinstance(node, ast.Attribute) and isinstance(node.value, ast.Name):
        owner = glob.get(node.value.id)
        if inspect.isclass(owner) and issubclass(owner, enum.Enum) and node.attr in owner.__members__:
            m = owner[node.attr]
            if isinstance(m.value, str):
                return ("str", m.value, True)
            if isinstance(m.value, int):
                return ("int", m.value)
    raise Opaque(f"not a constant: {ast.unparse(node)}")


def consts_of(node: ast.AST, glob: dict) -> list:
    if isinstance(node, (ast.List, ast.Tuple, ast.Set)):
        return [const_of(e, glob) for e in node.elts]
    raise Opaque(f"not a literal collection: {ast.unparse(node)}")


def _name(node) -> str | None:
    return node.id if isinstance(node, ast.Name) else None


def _is_len_of(node, what=None) -> str | None:
    if isinstance(node, ast.Call) and _name(node.func) == "len" and len(node.args) == 1 and _name(node.args[0]):
        return node.args[0].id
    return None


def _int(node) -> int:
    c = const_of(node, {})
    if c[0] != "int":
        raise Opaque("not an int")
    return c[1]


def _raises(body: list[ast.stmt]) -> bool:
    return any(isinstance(s, ast.Raise) for s in body)


# ---- one test -> (param, guard) ------------------------------------------------------------------------------------
def guard_of_reject_test(test: ast.AST, glob: dict):
    """`if <test>: raise` -> (param, guard tuple)"""
    # P not in [..]
    if isinstance(test, ast.Compare) and len(test.ops) == 1 and isinstance(test.ops[0], ast.NotIn):
        p = _name(test.left)
        if p:
            return p, ("oneOf", consts_of(test.comparators[0], glob))
        lp = _is_len_of(test.left)
        if lp:
            return lp, ("lenIn", [_int(e) for e in test.comparators[0].elts])
    # len([A]) != len([B])  — a comparison of two literal one-element lists: never fires
    if isinstance(test, ast.Compare) and len(test.ops) == 1 and isinstance(test.ops[0], ast.NotEq):
        l, r = test.left, test.comparators[0]

        def lit_len(n):
            if isinstance(n, ast.Call) and _name(n.func) == "len" and len(n.args) == 1 and isinstance(n.args[0], (ast.List, ast.Tuple)):
                return len(n.args[0].elts), [x for x in map(_name, n.args[0].elts) if x]
            return None

        a, b = lit_len(l), lit_len(r)
        if a and b:
            if a[0] == b[0] and a[1]:
                return a[1][0], ("vacuous", (b[1] or [""])[0])
            raise Opaque("always-firing length guard")
    if isinstance(test, ast.UnaryOp) and isinstance(test.op, ast.Not):
        inner = test.operand
        # not all(<elt> for e in P)
        if isinstance(inner, ast.Call) and _name(inner.func) == "all" and len(inner.args) == 1 \
                and isinstance(inner.args[0], ast.GeneratorExp) and len(inner.args[0].generators) == 1:
            gen = inner.args[0].generators[0]
            e, p = _name(gen.target), _name(gen.iter)
            if e and p and not gen.ifs:
                return p, elem_pred(inner.args[0].elt, e, glob)
        # not (P == c or lo < P <= Q)
        if isinstance(inner, ast.BoolOp) and isinstance(inner.op, ast.Or) and len(inner.values) == 2:
            a, b = inner.values
            if isinstance(a, ast.Compare) and len(a.ops) == 1 and isinstance(a.ops[0], ast.Eq) and _name(a.left) \
                    and isinstance(b, ast.Compare) and len(b.ops) == 2 and isinstance(b.ops[0], ast.Lt) \
                    and isinstance(b.ops[1], ast.LtE) and _name(b.comparators[0]) == a.left.id and _name(b.comparators[1]):
                return a.left.id, ("eqOrRange", _int(a.comparators[0]), _int(b.left), b.comparators[1].id)
        # not set(P).issubset({..})
        if isinstance(inner, ast.Call) and isinstance(inner.func, ast.Attribute) and inner.func.attr == "issubset" \
                and isinstance(inner.func.value, ast.Call) and _name(inner.func.value.func) == "set" \
                and len(inner.func.value.args) == 1 and _name(inner.func.value.args[0]) and len(inner.args) == 1:
            cs = consts_of(inner.args[0], glob)
            if all(c[0] == "str" and len(c[1]) == 1 for c in cs):
                return inner.func.value.args[0].id, ("charsSubset", [ord(c[1]) for c in cs])
    raise Opaque(ast.unparse(test)[:160])


def elem_pred(elt: ast.AST, e: str, glob: dict):
    # lo < e < hi
    if isinstance(elt, ast.Compare) and len(elt.ops) == 2 and all(isinstance(o, ast.Lt) for o in elt.ops) \
            and _name(elt.comparators[0]) == e:
        return ("allBetween", _int(elt.left), _int(elt.comparators[1]))
    # e in [..]
    if isinstance(elt, ast.Compare) and len(elt.ops) == 1 and isinstance(elt.ops[0], ast.In) and _name(elt.left) == e:
        return ("allOneOf", consts_of(elt.comparators[0], glob))
    # e % m == 0
    if isinstance(elt, ast.Compare) and len(elt.ops) == 1 and isinstance(elt.ops[0], ast.Eq) \
            and isinstance(elt.left, ast.BinOp) and isinstance(elt.left.op, ast.Mod) and _name(elt.left.left) == e \
            and _int(elt.comparators[0]) == 0:
        return ("allMultipleOf", _int(elt.left.right))
    # lo < e and isinstance(e, int)   (either order)
    if isinstance(elt, ast.BoolOp) and isinstance(elt.op, ast.And) and len(elt.values) == 2:
        lo = None
        is_int = False
        for v in elt.values:
            if isinstance(v, ast.Compare) and len(v.ops) == 1 and isinstance(v.ops[0], ast.Lt) and _name(v.comparators[0]) == e:
                lo = _int(v.left)
            elif isinstance(v, ast.Compare) and len(v.ops) == 1 and isinstance(v.ops[0], ast.Gt) and _name(v.left) == e:
                lo = _int(v.comparators[0])
            elif isinstance(v, ast.Call) and _name(v.func) == "isinstance" and len(v.args) == 2 and _name(v.args[0]) == e \
                    and _name(v.args[1]) == "int":
                is_int = True
        if lo is not None and is_int:
            return ("allIntGt", lo)
    raise Opaque("element predicate " + ast.unparse(elt)[:120])


def guard_of_assert(test: ast.AST, glob: dict):
    """`assert <test>` -> [(param, guard)]"""
    if isinstance(test, ast.BoolOp) and isinstance(test.op, ast.And):
        out = []
        for v in test.values:
            out += guard_of_assert(v, glob)
        return out
    if isinstance(test, ast.Call) and _name(test.func) == "all" and len(test.args) == 1 and isinstance(test.args[0], ast.GeneratorExp) \
            and len(test.args[0].generators) == 1:
        gen = test.args[0].generators[0]
        e, p = _name(gen.target), _name(gen.iter)
        if e and p:
            return [(p, elem_pred(test.args[0].elt, e, glob))]
    if isinstance(test, ast.Compare) and len(test.ops) == 1 and isinstance(test.ops[0], ast.Eq) and _is_len_of(test.left):
        return [(_is_len_of(test.left), ("lenIn", [_int(test.comparators[0])]))]
    if isinstance(test, ast.Compare) and len(test.ops) == 1 and isinstance(test.ops[0], (ast.LtE, ast.Lt)):
        l, r = test.left, test.comparators[0]

        def sub(n, i):
            return isinstance(n, ast.Subscript) and _name(n.value) and isinstance(n.slice, ast.Constant) and n.slice.value == i

        if sub(l, 0) and sub(r, 1) and l.value.id == r.value.id:
            return [(l.value.id, ("pairOrdered", isinstance(test.ops[0], ast.Lt)))]
    raise Opaque("assert " + ast.unparse(test)[:140])


def branch_values(test: ast.AST, glob: dict):
    """test of one branch of an if/elif chain -> (param, [consts], falsy?)"""
    if isinstance(test, ast.Compare) and len(test.ops) == 1 and _name(test.left):
        if isinstance(test.ops[0], ast.Eq):
            return test.left.id, [const_of(test.comparators[0], glob)], False
        if isinstance(test.ops[0], ast.In):
            return test.left.id, consts_of(test.comparators[0], glob), False
    if isinstance(test, ast.UnaryOp) and isinstance(test.op, ast.Not) and _name(test.operand):
        return test.operand.id, [], True
    raise Opaque("branch test " + ast.unparse(test)[:120])


def cond_atoms(test: ast.AST):
    """`A and B is not None and …` -> [("truthy", A), ("notNone", B)]"""
    vals = test.values if isinstance(test, ast.BoolOp) and isinstance(test.op, ast.And) else [test]
    out = []
    for v in vals:
        if _name(v):
            out.append(("truthy", v.id))
        elif isinstance(v, ast.Compare) and len(v.ops) == 1 and isinstance(v.ops[0], ast.IsNot) and _name(v.left) \
                and isinstance(v.comparators[0], ast.Constant) and v.comparators[0].value is None:
            out.append(("notNone", v.left.id))
        else:
            raise Opaque("condition " + ast.unparse(v)[:100])
    return out


# ---- a function body ---------------------------------------------------------------------------------------------------
class Found:
    def __init__(self):
        self.guards: list[dict] = []     # {param, guard, cond, line}
        self.opaque: list[str] = []
        self.kw_policy = None            # None | {"names": [...], "prefixes": [...]}
        self.super_call: ast.Call | None = None
        self.kwargs_reads: set[str] = set()
        self.kwargs_forwarded = False


def scan_function(fn: ast.FunctionDef, glob: dict, where: str) -> Found:
    out = Found()
    params = {a.arg for a in fn.args.args + fn.args.kwonlyargs}
    kwname = fn.args.kwarg.arg if fn.args.kwarg else None
    kw_aliases = {kwname} if kwname else set()

    def note_opaque(st, why):
        out.opaque.append(f"{where}:{st.lineno}: {why}")

    def add(param, guard, cond, st):
        if param not in params:
            note_opaque(st, f"guard on `{param}` which is not a parameter")
            return
        out.guards.append({"param": param, "guard": guard, "cond": list(cond), "line": st.lineno})

    def walk(body, cond):
        for st in body:
            if isinstance(st, (ast.FunctionDef, ast.AsyncFunctionDef, ast.ClassDef)):
                continue
            # aliases of the **kwargs mapping
            if isinstance(st, ast.Assign) and len(st.targets) == 1 and _name(st.targets[0]) and kwname:
                src = ast.unparse(st.value).replace(" ", "")
                if src in (f"{kwname}.keys()", kwname, f"list({kwname}.keys())", f"list({kwname})"):
                    kw_aliases.add(st.targets[0].id)
            if isinstance(st, ast.Expr) and isinstance(st.value, ast.Call):
                c = st.value
                if isinstance(c.func, ast.Attribute) and c.func.attr == "__init__" and isinstance(c.func.value, ast.Call) \
                        and _name(c.func.value.func) == "super":
                    out.super_call = c
            if isinstance(st, ast.For) and kwname and ast.unparse(st.iter).replace(" ", "") in \
                    {a for k in kw_aliases for a in (k, f"{k}.keys()")} and _name(st.target):
                key = st.target.id
                for s2 in st.body:
                    if isinstance(s2, ast.If) and _raises(s2.body):
                        try:
                            out.kw_policy = kw_policy_of(s2.test, key)
                        except Opaque as e:
                            note_opaque(s2, f"keyword policy: {e}")
                continue
            if isinstance(st, ast.Assert):
                try:
                    for p, g in guard_of_assert(st.test, glob):
                        add(p, g, cond, st)
                except Opaque as e:
                    note_opaque(st, str(e))
                continue
            if isinstance(st, ast.If):
                # (a) if <reject>: raise
                if _raises(st.body) and not st.orelse:
                    try:
                        p, g = guard_of_reject_test(st.test, glob)
                        add(p, g, cond, st)
                    except Opaque as e:
                        note_opaque(st, f"if {e}")
                    continue
                # (b) if/elif/…/else: raise
                chain, node = [], st
                while True:
                    chain.append(node)
                    if len(node.orelse) == 1 and isinstance(node.orelse[0], ast.If):
                        node = node.orelse[0]
                    else:
                        break
                if node.orelse and _raises(node.orelse):
                    try:
                        ps, cs, falsy = set(), [], False
                        for n in chain:
                            p, c, f = branch_values(n.test, glob)
                            ps.add(p)
                            cs += c
                            falsy = falsy or f
                        if len(ps) != 1:
                            raise Opaque("chain over several names")
                        add(ps.pop(), ("oneOfOrFalsy" if falsy else "oneOf", cs), cond, st)
                    except Opaque as e:
                        note_opaque(st, f"if-chain {e}")
                    for n in chain:
                        walk([s for s in n.body if not isinstance(s, ast.Raise)], cond + [("opaque", "branch")])
                    continue
                # (c) a conditional block: descend with the condition
                try:
                    atoms = cond_atoms(st.test)
                except Opaque:
                    atoms = [("opaque", ast.unparse(st.test)[:80])]
                walk(st.body, cond + atoms)
                walk(st.orelse, cond + [("opaque", "else")])
                continue
            if isinstance(st, (ast.For, ast.While, ast.With, ast.Try)):
                inner = list(getattr(st, "body", []))
                if any(isinstance(n, ast.Raise) for s in inner for n in ast.walk(s)):
                    walk(inner, cond + [("opaque", type(st).__name__)])
                continue

    walk(fn.body, [])
    # guards under a condition we do not understand are opaque
    kept = []
    for g in out.guards:
        if any(c[0] == "opaque" for c in g["cond"]):
            out.opaque.append(f"{where}:{g['line']}: guard on `{g['param']}` under a condition that is not understood")
        else:
            kept.append(g)
    out.guards = kept
    # what the body reads from **kwargs
    if kwname:
        for n in ast.walk(fn):
            if isinstance(n, ast.Call) and isinstance(n.func, ast.Attribute) and n.func.attr in ("get", "pop") \
                    and _name(n.func.value) == kwname and n.args and isinstance(n.args[0], ast.Constant):
                out.kwargs_reads.add(str(n.args[0].value))
            if isinstance(n, ast.Subscript) and _name(n.value) == kwname and isinstance(n.slice, ast.Constant):
                out.kwargs_reads.add(str(n.slice.value))
            if isinstance(n, ast.Call) and any(k.arg is None and kwname in ast.unparse(k.value) for k in n.keywords):
                out.kwargs_forwarded = True
    return out


def kw_policy_of(test: ast.AST, key: str) -> dict:
    if isinstance(test, ast.Compare) and len(test.ops) == 1 and isinstance(test.ops[0], ast.NotIn) and _name(test.left) == key:
        return {"names": [c[1] for c in consts_of(test.comparators[0], {}) if c[0] == "str"], "prefixes": []}
    if isinstance(test, ast.Compare) and len(test.ops) == 1 and isinstance(test.ops[0], ast.NotEq) and _name(test.left) == key:
        return {"names": [const_of(test.comparators[0], {})[1]], "prefixes": []}
    if isinstance(test, ast.BoolOp) and isinstance(test.op, ast.And):
        names, prefixes = [], []
        for v in test.values:
            if isinstance(v, ast.Compare) and len(v.ops) == 1 and isinstance(v.ops[0], ast.NotEq) and _name(v.left) == key:
                names.append(const_of(v.comparators[0], {})[1])
            elif isinstance(v, ast.Compare) and len(v.ops) == 1 and isinstance(v.ops[0], ast.NotIn) and _name(v.left) == key:
                names += [c[1] for c in consts_of(v.comparators[0], {})]
            elif isinstance(v, ast.UnaryOp) and isinstance(v.op, ast.Not) and isinstance(v.operand, ast.Call) \
                    and isinstance(v.operand.func, ast.Attribute) and v.operand.func.attr == "startswith" \
                    and _name(v.operand.func.value) == key and len(v.operand.args) == 1:
                prefixes.append(const_of(v.operand.args[0], {})[1])
            else:
                raise Opaque(ast.unparse(v)[:100])
        return {"names": names, "prefixes": prefixes}
    raise Opaque(ast.unparse(test)[:100])


# ---- classes -----------------------------------------------------------------------------------------------------------
_AST_CACHE: dict[str, ast.Module] = {}


def _module_ast(path: str) -> ast.Module:
    if path not in _AST_CACHE:
        import warnings

        with warnings.catch_warnings():
            warnings.simplefilter("ignore")
            _AST_CACHE[path] = ast.parse(pathlib.Path(path).read_text())
    return _AST_CACHE[path]


def _find_method(cls: type, name: str = "__init__"):
    mod = sys.modules.get(cls.__module__)
    path = getattr(mod, "__file__", None)
    if not path or not path.endswith(".py"):
        return None, None
    for node in ast.walk(_module_ast(path)):
        if isinstance(node, ast.ClassDef) and node.name == cls.__name__:
            for st in node.body:
                if isinstance(st, ast.FunctionDef) and st.name == name:
                    return st, vars(mod)
    return None, None


def simple_default(p: inspect.Parameter):
    """signature default as a YAML-like value, or the marker NODEFAULT / UNKNOWN"""
    d = p.default
    if d is inspect.Parameter.empty:
        return "NODEFAULT"
    if isinstance(d, enum.Enum):
        return d
    if d is None or isinstance(d, (bool, int, float, str)):
        return d
    if isinstance(d, (list, tuple)) and all(x is None or isinstance(x, (bool, int, float, str)) for x in d):
        return list(d)
    return "UNKNOWN"


def class_guards(cls: type, repo: pathlib.Path) -> dict:
    """guards of `cls.__init__` including those of the base constructors it chains to.
    -> {guards: [{param, guard, cond, where}], opaque: [...], kw_policy, params: {name: default}, varkw, kwargs_reads, forwarded}"""
    res = {"guards": [], "opaque": [], "kw_policy": None, "kwargs_reads": set(), "forwarded": False}
    sig = inspect.signature(cls.__init__)
    res["params"] = {p.name: simple_default(p) for p in list(sig.parameters.values())[1:]
                     if p.kind not in (p.VAR_KEYWORD, p.VAR_POSITIONAL)}
    res["varkw"] = any(p.kind == p.VAR_KEYWORD for p in sig.parameters.values())
    mapping: dict[str, str] | None = None          # base parameter -> parameter of `cls`
    for depth, c in enumerate(cls.__mro__):
        if c is object or "__init__" not in vars(c):
            continue
        mod = sys.modules.get(c.__module__)
        path = getattr(mod, "__file__", "") or ""
        if not path.startswith(str(repo)):
            break
        fn, glob = _find_method(c)
        if fn is None:
            break
        where = f"{pathlib.Path(path).relative_to(repo)}:{c.__name__}.__init__"
        found = scan_function(fn, glob, where)
        for g in found.guards:
            if mapping is None:
                res["guards"].append({**g, "where": where})
            else:
                names = [g["param"]] + [a[1] for a in g["cond"]] + ([g["guard"][3]] if g["guard"][0] == "eqOrRange" else [])
                if all(n in mapping for n in names):
                    g2 = dict(g, param=mapping[g["param"]], cond=[(k, mapping[n]) for k, n in g["cond"]], where=where)
                    if g["guard"][0] == "eqOrRange":
                        g2["guard"] = g["guard"][:3] + (mapping[g["guard"][3]],)
                    if g["guard"][0] == "vacuous":
                        g2["guard"] = ("vacuous", mapping.get(g["guard"][1], g["guard"][1]))
                    res["guards"].append(g2)
                else:
                    res["opaque"].append(f"{where}:{g['line']}: base-class guard on `{g['param']}` not fed by a parameter of {cls.__name__}")
        res["opaque"] += found.opaque
        if mapping is None:
            res["kw_policy"] = found.kw_policy
            res["kwargs_reads"] = found.kwargs_reads
            res["forwarded"] = found.kwargs_forwarded
        if found.super_call is None:
            break
        # parameter mapping through super().__init__(...)
        base = next((b for b in cls.__mro__[depth + 1:] if b is not object and "__init__" in vars(b)), None)
        if base is None:
            break
        bparams = [p.name for p in list(inspect.signature(base.__init__).parameters.values())[1:]]
        new: dict[str, str] = {}
        for i, a in enumerate(found.super_call.args):
            if i < len(bparams) and _name(a):
                new[bparams[i]] = a.id
        for k in found.super_call.keywords:
            if k.arg and _name(k.value):
                new[k.arg] = k.value.id
        mapping = new if mapping is None else {b: mapping[v] for b, v in new.items() if v in mapping}
    return res


def function_guards(module, func: str, repo: pathlib.Path) -> dict:
    path = module.__file__
    for node in ast.walk(_module_ast(path)):
        if isinstance(node, ast.FunctionDef) and node.name == func:
            where = f"{pathlib.Path(path).relative_to(repo)}:{func}"
            found = scan_function(node, vars(module), where)
            return {"guards": [dict(g, where=where) for g in found.guards], "opaque": found.opaque}
    return {"guards": [], "opaque": [f"{path}: function {func} not found"]}


# ---- consumers of configuration values outside constructors: the call chain is checked syntactically ---------------------------
def source_has(repo: pathlib.Path, rel: str, func: str, needles: list[str]) -> bool:
    """the function `func` of `rel` contains every needle (whitespace-insensitive)"""
    try:
        tree = _module_ast(str(repo / rel))
    except (OSError, SyntaxError):
        return False
    for node in ast.walk(tree):
        if isinstance(node, ast.FunctionDef) and node.name == func:
            src = ast.unparse(node).replace(" ", "").replace("\n", "")
            return all(n.replace(" ", "") in src for n in needles)
    return False


# ---- attribute chains rooted at the configuration object --------------------------------------------------------------------
def cfg_attribute_chains(repo: pathlib.Path, files: list[pathlib.Path]) -> list[tuple[str, int, tuple[str, ...], bool]]:
    """every `cfg.a.b.c` / `env.cfg.a.b` / `self.cfg.a.b` attribute chain -> (file, line, (a, b, c), is_store)"""
    out = []
    for p in files:
        try:
            tree = _module_ast(str(p))
        except (OSError, SyntaxError):
            continue
        rel = str(p.relative_to(repo))
        inner: set[int] = set()
        for node in ast.walk(tree):
            if isinstance(node, ast.Attribute):
                if id(node) in inner:
                    continue
                chain = []
                n = node
                while isinstance(n, ast.Attribute):
                    chain.append(n.attr)
                    inner.add(id(n.value))
                    n = n.value
                root = None
                if isinstance(n, ast.Name):
                    root = n.id
                chain.reverse()
                if root == "cfg":
                    path = chain
                elif root in ("env", "self", "environment") and chain[:1] == ["cfg"]:
                    path = chain[1:]
                elif root in ("env", "self") and chain[:2] == ["engine", "cfg"]:
                    path = chain[2:]
                else:
                    continue
                if path:
                    out.append((rel, node.lineno, tuple(path), isinstance(node.ctx, ast.Store)))
    return out


if __name__ == "__main__":   # debugging aid: print what is extracted
    sys.path.insert(0, str(pathlib.Path(__file__).resolve().parents[2]))
    import boot  # noqa: F401
    from core import REPO
    import direct.common.subsample as S

    for n, c in sorted(vars(S).items()):
        if inspect.isclass(c) and n.endswith("MaskFunc"):
            r = class_guards(c, REPO)
            print(n, [(g["param"], g["guard"], g["cond"]) for g in r["guards"]], r["opaque"])
